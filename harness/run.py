import importlib
import os
import sys

HERE = os.path.dirname(os.path.abspath(__file__))
sys.path.insert(0, HERE)
import common  # noqa: E402


def main(argv):
    if len(argv) < 2:
        print(__doc__ or "usage: check <Cxx> quick|thorough|--replay <path>")
        return 2
    pid = argv[0]
    mod = importlib.import_module(f"props.{pid}")
    prop = mod.PROP
    if argv[1] == "--replay":
        return common.run_replay(prop, argv[2])
    tier = os.environ.get("VERIF_TIER") or argv[1]
    if tier not in ("quick", "thorough"):
        print("tier must be quick or thorough")
        return 2
    seed = int(os.environ.get("VERIF_SEED", "0") or 0)
    return common.run_check(prop, tier, seed)


if __name__ == "__main__":
    sys.exit(main(sys.argv[1:]))
