"""Generators of device layouts, user types, sample lists and stream payloads (model syntax).

Dimensions (finding "generator" of the round-3 review): metadata lengths over the whole 0..255, vector dimensions
over the whole 1..255, type ids 20..31 for user types with randomly generated format strings, `en` / critical type
bit / reserved type bits / divider / device flags of the real device object varied through the `x` field of the
layout, and raw-value sweeps for every standard type (`sweep_values`)."""
import streamglue as sg

F32 = [0x00000000, 0x80000000, 0x3f800000, 0xbf800000, 0x7f800000, 0xff800000, 0x7fc00000, 0x00000001,
       0x007fffff, 0x00800000, 0x7f7fffff, 0x40490fdb, 0xffc00001, 0x7fffffff, 0x33800000, 0x4b800000]
F64 = [0x0, 0x8000000000000000, 0x3ff0000000000000, 0xbff0000000000000, 0x7ff0000000000000, 0xfff0000000000000,
       0x7ff8000000000000, 0x1, 0x000fffffffffffff, 0x0010000000000000, 0x7fefffffffffffff, 0x400921fb54442d18,
       0xfff8000000000001, 0x7fffffffffffffff, 0x3ca0000000000000, 0x4340000000000000, 0x47efffffe0000000]
TEXTS = ["hello", "a", "", "héllo", "名前", "🙂", "x" * 10, "\x7f", "\u0080", "߿", "ࠀ", "￿", "\U00010000",
         "\U0010ffff", "a\x00b", "퟿", ""]
# byte strings that are NOT well-formed UTF-8: stray continuation, overlong forms, surrogates, > U+10FFFF, truncated
BAD_UTF8 = [b"\xff", b"\x80", b"\xc0\x80", b"\xc1\xbf", b"\xe0\x80\x80", b"\xe0\x9f\xbf", b"\xed\xa0\x80", b"\xed\xbf\xbf",
            b"\xf0\x8f\xbf\xbf", b"\xf4\x90\x80\x80", b"\xf5\x80\x80\x80", b"\xc3", b"\xe2\x82", b"\xf0\x9f\x99", b"\xc3\x28",
            b"\xfe\xfe\xff\xff"]
USER_POOL = [
    (sg.NUM, [(4, "i")]), (sg.NUM, [(1, "B"), (1, "h"), (1, "Q")]), (sg.NUM, [(2, "f")]), (sg.NUM, [(1, "d"), (1, "b")]),
    (sg.COMPLEX, [(2, "c"), (2, "i")]), (sg.COMPLEX, [(1, "B"), (3, "s"), (1, "f")]), (sg.COMPLEX, [(1, "?"), (1, "H")]),
    (sg.CHAR, [(5, "s")]), (sg.CHAR, [(1, "s")]),
]
USER_POOL_DECODE_ONLY = [(sg.CHAR, [(3, "c")])]
NUMCODES = "BbHhIiQqfd"


def int_range(code):
    bits = 8 * sg.SIZE[code]
    return (-(1 << (bits - 1)), (1 << (bits - 1)) - 1) if code.islower() else (0, (1 << bits) - 1)


def float_exact(raw):
    """raw is exactly an IEEE double (CPython's int -> float conversion is correctly rounded)"""
    return int(float(raw)) == raw


def exact_extremes(code):
    """the float-exact values nearest to the limits of the type: e.g. (2^53-1)*2^11 for Q, (2^53-1)*2^10 and -2^63 for q"""
    lo, hi = int_range(code)
    top = hi if hi < (1 << 53) else ((1 << 53) - 1) << (hi.bit_length() - 53)
    out = [top, top - (top & -top), lo]
    if lo < 0:
        out.append(-top)
    return out


def gen_exact(rng, code):
    """k * 2^j raws up to the limits of the type"""
    lo, hi = int_range(code)
    bits = 8 * sg.SIZE[code] - (1 if lo < 0 else 0)
    r = rng.random()
    if r < 0.3:
        return rng.choice(exact_extremes(code) + [0, 1, 1 << (bits - 1), 1 << (bits - 2), 3 << (bits - 2)]
                          + ([-1, -(1 << (bits - 1)), -(3 << (bits - 2))] if lo < 0 else []))
    m = rng.getrandbits(rng.randint(1, 53))
    j = rng.randint(0, max(0, bits - max(1, m.bit_length())))
    v = m << j
    if lo < 0 and rng.random() < 0.5:
        v = -v
    return v if lo <= v <= hi else rng.choice(exact_extremes(code))


def gen_int(rng, code, encode_fixed=False):
    lo, hi = int_range(code)
    if encode_fixed:
        return gen_exact(rng, code)
    k = rng.randrange(8 * sg.SIZE[code])
    return rng.choice([lo, hi, 0, 1, -1 if lo < 0 else 2, hi // 2, lo // 2 if lo < 0 else hi - 1,
                       rng.randint(lo, hi), rng.randint(lo, hi), rng.randint(max(lo, -300), min(hi, 300)),
                       min(hi, (1 << k) + rng.choice([-1, 0, 1])), max(lo, -(1 << k) + rng.choice([-1, 0, 1])) if lo < 0 else (hi ^ (1 << k))])


def _quiet32(w):
    # signalling NaNs do not survive float32 -> double -> float32 (the narrowing conversion quiets them): no Python
    # float encodes to a float32 sNaN, so such a pattern is not a representable sample value (Spec pyExact)
    if (w & 0x7f800000) == 0x7f800000 and (w & 0x007fffff):
        w |= 0x00400000
    return w


def _quiet64(w):
    # a float64 sNaN does survive struct.pack/unpack, but not the encoder's `x * decode.scale` (scale 1.0): arithmetic
    # quiets it.  NaNs are preserved as a class only; signalling patterns are not representable sample values
    if (w & 0x7ff0000000000000) == 0x7ff0000000000000 and (w & 0x000fffffffffffff):
        w |= 0x0008000000000000
    return w


def gen_atom_value(rng, code, size, frac=None, for_encode=False, text=False):
    if code in "BHIQbhiq":
        v = gen_int(rng, code, encode_fixed=bool(frac) and for_encode)
        return f"x:{v}:{frac}" if frac else f"i:{v}"
    if code == "f":
        w = rng.choice(F32 + [rng.getrandbits(32), rng.getrandbits(32)])
        return "f:" + format(_quiet32(w) if for_encode else w, "08x")
    if code == "d":
        w = rng.choice(F64 + [rng.getrandbits(64), rng.getrandbits(64)])
        return "d:" + format(_quiet64(w) if for_encode else w, "016x")
    if code == "?":
        return f"o:{rng.randrange(2)}"
    if code == "c":
        return "b:" + bytes([rng.randrange(256)]).hex()
    if code == "s":
        if text:
            if for_encode or rng.random() < 0.6:
                t = rng.choice([x for x in TEXTS if len(x.encode()) <= size] or [""]).encode()
                if not for_encode or rng.random() < 0.5:
                    # fill the field: text, NULs, more text
                    while len(t) < size and rng.random() < 0.7:
                        u = rng.choice(TEXTS).encode()
                        if len(t) + len(u) <= size:
                            t += u
                        else:
                            break
                b = t if for_encode else t + bytes(size - len(t))
            else:
                bad = rng.choice(BAD_UTF8)
                filler = bytes(rng.choice([0xff, 0xfe, 0xc3, 0x80, 0x41, 0xe2, 0x28, rng.randrange(256)]) for _ in range(size))
                at = rng.randrange(0, max(1, size - len(bad) + 1))
                b = (filler[:at] + bad + filler)[:size] if rng.random() < 0.7 else filler
            return "t:" + sg.hexs(b)
        n = rng.randrange(0, size + 1) if for_encode and rng.random() < 0.5 else size
        b = bytes(rng.randrange(256) for _ in range(n))
        return "b:" + sg.hexs(b)
    raise ValueError(code)


def gen_user_type(rng, decode_only=False):
    """a user-defined type (dtype, [(n, code)]) of at most 255 bytes: from the pool or a random format string"""
    r = rng.random()
    if r < 0.3:
        return rng.choice(USER_POOL + (USER_POOL_DECODE_ONLY if decode_only else []))
    kind = rng.choice([sg.NUM, sg.NUM, sg.COMPLEX, sg.COMPLEX, sg.CHAR])
    if kind == sg.CHAR:
        n = rng.choice([1, 2, 5, 16, rng.randrange(1, 256), 255])
        if decode_only and n >= 2 and rng.random() < 0.25:
            return (sg.CHAR, [(min(n, 9), "c")])         # several single chars: returned as bytes, not text
        return (sg.CHAR, [(n, "s")])
    codes = NUMCODES if kind == sg.NUM else NUMCODES + "cs?" * 2
    while True:
        items = []
        for _ in range(rng.choice([1, 2, 2, 3, 4, rng.randrange(1, 8)])):
            c = rng.choice(codes)
            items.append((rng.choice([1, 1, 1, 2, 3, rng.randrange(1, 12), rng.randrange(1, 40) if c == "s" else 1]), c))
        if 1 <= sg.user_size(items) <= 255:
            return (kind, items)


def gen_user(rng, decode_only=False):
    tys = rng.sample(range(20, 32), rng.choice([0, 1, 2, 3, 3, 12]))
    if rng.random() < 0.3 and 31 not in tys:
        tys.append(31)                                   # the highest type id
    return {ty: gen_user_type(rng, decode_only) for ty in tys}


def gen_vdim(rng):
    return rng.choice([1, 1, 2, 3, rng.randrange(1, 9), rng.randrange(9, 64), 64, rng.randrange(65, 255), 254, 255, rng.randrange(1, 256)])


def gen_mlen(rng):
    return rng.choice([0, 0, 0, 1, 2, 4, 8, 3, 16, 5, 6, 7, rng.randrange(9, 16), rng.randrange(17, 255), 254, 255, rng.randrange(0, 256)])


def gen_layout(rng, user, nmax=8, big=False):
    n = rng.choice([255, 200, 129]) if big else rng.randrange(1, nmax + 1)
    layout = []
    for _ in range(n):
        ty = rng.choice(list(range(1, 20)) + list(user.keys()) * 3)
        if ty in user:
            vdim = sg.user_size(user[ty][1])
        elif ty == 1:
            vdim = 0
        else:
            vdim = gen_vdim(rng) if not big else rng.choice([1, 2, 3])
        mlen = gen_mlen(rng) if not big else rng.choice([0, 0, 1, 3, 255])
        layout.append((ty, vdim, mlen))
    return layout


def gen_xs(rng, layout):
    """what else the real device object carries (streamglue.real_device): critical / en / reserved bits / flags / div"""
    mode = rng.random()
    if mode < 0.25:
        return None
    return [rng.getrandbits(14) if mode < 0.8 else rng.choice([0, 1, 2, 3, 0x3f]) for _ in layout]


def gen_sample(rng, layout, user, chan, for_encode=False):
    ty, vdim, mlen = layout[chan]
    vals = []
    atoms = sg.sample_atoms(ty, vdim, user)
    dt = sg.dtype_of(ty, user)
    text = dt == sg.CHAR and len(atoms) == 1
    for code, size in atoms:
        vals.append(gen_atom_value(rng, code, size, sg.frac_of(ty), for_encode, text))
    meta = []
    for code, size in sg.meta_atoms(mlen):
        meta.append(rng.choice([0, 1, (1 << (8 * size)) - 1, rng.getrandbits(8 * size), 1 << (8 * size - 1)]))
    return chan, vals, meta


def sample_str(layout, user, smp, client_side):
    chan, vals, meta = smp
    ty, vdim, mlen = layout[chan]
    dt = sg.dtype_of(ty, user) if client_side else ty
    return f"{chan},{dt},{vdim},{mlen},[{';'.join(vals)}],[{';'.join(str(m) for m in meta)}]"


# ---- raw-value sweeps for every standard type ---------------------------------------------------------------------

def interesting_raws(bits):
    """unsigned bit patterns of a `bits`-wide field: every 2^k, 2^k - 1, 2^k + 1, their complements, byte ramps"""
    mask = (1 << bits) - 1
    out = []
    for k in range(bits + 1):
        for v in ((1 << k), (1 << k) - 1, (1 << k) + 1, (1 << k) + (1 << (k // 2))):
            out += [v & mask, ~v & mask]
    n = bits // 8
    out += [int.from_bytes(bytes(range(1, n + 1)), "little"), int.from_bytes(bytes(range(0xf0, 0xf0 + n)), "little"),
            int.from_bytes(bytes([0x80] * n), "little"), int.from_bytes(bytes([0x7f] * n), "little")]
    seen, res = set(), []
    for v in out:
        if v not in seen:
            seen.add(v)
            res.append(v)
    return res


def float_patterns(code, T):
    """bit patterns of float32 / float64: every exponent (float32) or the boundary exponents (float64) with mantissa
    0 / 1 / quiet bit / all ones, both signs"""
    if code == "f":
        exps, eb, mb = range(256), 8, 23
    else:
        exps = list(range(0, 2048)) if T else [0, 1, 2, 52, 53, 970, 1022, 1023, 1024, 1075, 1076, 2045, 2046, 2047]
        eb, mb = 11, 52
    out = []
    for e in exps:
        for m in (0, 1, 1 << (mb - 1), (1 << (mb - 1)) - 1, (1 << mb) - 1):
            for sgn in (0, 1):
                out.append((sgn << (eb + mb)) | (e << mb) | m)
    return out


def sweep_values(ty, T, for_encode=False):
    """model-syntax values of the standard type `ty` to sweep: all raws for 8- and 16-bit types, the interesting bit
    patterns for the wider ones; for the encoder only values that exist as Python objects (float-exact fixed point,
    quiet float32 NaNs)"""
    code, size, frac = sg.STD[ty]
    bits = 8 * size
    if code in "fd":
        pats = float_patterns(code, T) + (F32 if code == "f" else F64)
        if code == "f":
            if for_encode:
                pats = [_quiet32(w) for w in pats]
            return ["f:" + format(w, "08x") for w in dict.fromkeys(pats)]
        if for_encode:
            pats = [_quiet64(w) for w in pats]
        return ["d:" + format(w, "016x") for w in dict.fromkeys(pats)]
    if bits <= 16:
        raws = range(1 << bits)
    else:
        raws = interesting_raws(bits)
    out = []
    for u in raws:
        v = u - (1 << bits) if code.islower() and u >> (bits - 1) else u
        if frac:
            if for_encode and not float_exact(v):
                continue
            out.append(f"x:{v}:{frac}")
        else:
            out.append(f"i:{v}")
    if frac and for_encode and bits == 64:
        out += [f"x:{v}:{frac}" for v in exact_extremes(code) + [1 << 62, 1 << 53, (1 << 53) + 2, ((1 << 53) - 1) << 9]
                if int_range(code)[0] <= v <= int_range(code)[1]]
    return list(dict.fromkeys(out))


def chunks(xs, n):
    for i in range(0, len(xs), n):
        yield xs[i:i + n]
