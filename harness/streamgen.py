"""Generators of device layouts, user types, sample lists and stream payloads (model syntax)."""
import streamglue as sg

F32 = [0x00000000, 0x80000000, 0x3f800000, 0xbf800000, 0x7f800000, 0xff800000, 0x7fc00000, 0x00000001,
       0x007fffff, 0x00800000, 0x7f7fffff, 0x40490fdb]
F64 = [0x0, 0x8000000000000000, 0x3ff0000000000000, 0xbff0000000000000, 0x7ff0000000000000, 0xfff0000000000000,
       0x7ff8000000000000, 0x1, 0x000fffffffffffff, 0x0010000000000000, 0x7fefffffffffffff, 0x400921fb54442d18]
TEXTS = ["hello", "a", "", "héllo", "名前", "🙂", "x" * 10]
USER_POOL = [
    (sg.NUM, [(4, "i")]), (sg.NUM, [(1, "B"), (1, "h"), (1, "Q")]), (sg.NUM, [(2, "f")]), (sg.NUM, [(1, "d"), (1, "b")]),
    (sg.COMPLEX, [(2, "c"), (2, "i")]), (sg.COMPLEX, [(1, "B"), (3, "s"), (1, "f")]), (sg.COMPLEX, [(1, "?"), (1, "H")]),
    (sg.CHAR, [(5, "s")]), (sg.CHAR, [(1, "s")]),
]
USER_POOL_DECODE_ONLY = [(sg.CHAR, [(3, "c")])]


def int_range(code):
    bits = 8 * sg.SIZE[code]
    return (-(1 << (bits - 1)), (1 << (bits - 1)) - 1) if code.islower() else (0, (1 << bits) - 1)


def gen_int(rng, code, encode_fixed=False):
    lo, hi = int_range(code)
    if encode_fixed:
        lo, hi = max(lo, -(1 << 53) + 1), min(hi, (1 << 53) - 1)
    return rng.choice([lo, hi, 0, 1, -1 if lo < 0 else 2, hi // 2, lo // 2 if lo < 0 else hi - 1,
                       rng.randint(lo, hi), rng.randint(lo, hi), rng.randint(max(lo, -300), min(hi, 300))])


def gen_atom_value(rng, code, size, frac=None, for_encode=False, text=False):
    if code in "BHIQbhiq":
        v = gen_int(rng, code, encode_fixed=bool(frac) and for_encode)
        return f"x:{v}:{frac}" if frac else f"i:{v}"
    if code == "f":
        pool = F32 if not for_encode else [x for x in F32]
        return "f:" + format(rng.choice(pool + [rng.getrandbits(32) & 0xff7fffff | 0]) if rng.random() < 0.8 else rng.choice(F32), "08x") \
            if not for_encode else "f:" + format(_quiet32(rng.choice(F32 + [rng.getrandbits(32)])), "08x")
    if code == "d":
        return "d:" + format(_quiet64(rng.choice(F64 + [rng.getrandbits(64)])) if for_encode else rng.choice(F64 + [rng.getrandbits(64)]), "016x")
    if code == "?":
        return f"o:{rng.randrange(2)}"
    if code == "c":
        return "b:" + bytes([rng.randrange(256)]).hex()
    if code == "s":
        if text:
            if for_encode or rng.random() < 0.6:
                t = rng.choice([x for x in TEXTS if len(x.encode()) <= size] or [""]).encode()
                b = t + bytes(size - len(t))
            else:
                b = bytes(rng.choice([0xff, 0xfe, 0xc3, 0x80, 0x41, 0xe2, 0x28, rng.randrange(256)]) for _ in range(size))
            return "t:" + sg.hexs(b)
        b = bytes(rng.randrange(256) for _ in range(size))
        return "b:" + sg.hexs(b)
    raise ValueError(code)


def _quiet32(w):
    # signalling NaNs do not survive float32 -> double -> float32 in CPython/x86; keep NaNs quiet
    if (w & 0x7f800000) == 0x7f800000 and (w & 0x007fffff):
        w |= 0x00400000
    return w


def _quiet64(w):
    if (w & 0x7ff0000000000000) == 0x7ff0000000000000 and (w & 0x000fffffffffffff):
        w |= 0x0008000000000000
    return w


def gen_user(rng, decode_only=False):
    pool = USER_POOL + (USER_POOL_DECODE_ONLY if decode_only else [])
    tys = rng.sample(range(20, 32), rng.randrange(0, 4))
    return {ty: rng.choice(pool) for ty in tys}


def gen_layout(rng, user, nmax=8, big=False):
    n = rng.choice([255, 200]) if big else rng.randrange(1, nmax + 1)
    layout = []
    for _ in range(n):
        ty = rng.choice(list(range(1, 20)) + list(user.keys()) * 3)
        if ty in user:
            vdim = sg.user_size(user[ty][1])
        elif ty == 1:
            vdim = 0
        else:
            vdim = rng.choice([1, 1, 2, 3, rng.randrange(1, 9), rng.choice([64, 255])])
        mlen = rng.choice([0, 0, 0, 1, 2, 4, 8, 3, 16, rng.choice([5, 255])])
        layout.append((ty, vdim, mlen))
    return layout


def gen_sample(rng, layout, user, chan, for_encode=False):
    ty, vdim, mlen = layout[chan]
    vals = []
    for code, size in sg.sample_atoms(ty, vdim, user):
        dt = sg.dtype_of(ty, user)
        text = dt == sg.CHAR and len(sg.sample_atoms(ty, vdim, user)) == 1
        vals.append(gen_atom_value(rng, code, size, sg.frac_of(ty), for_encode, text))
    meta = []
    for code, size in sg.meta_atoms(mlen):
        meta.append(rng.choice([0, 1, (1 << (8 * size)) - 1, rng.getrandbits(8 * size)]))
    return chan, vals, meta


def sample_str(layout, user, smp, client_side):
    chan, vals, meta = smp
    ty, vdim, mlen = layout[chan]
    dt = sg.dtype_of(ty, user) if client_side else ty
    return f"{chan},{dt},{vdim},{mlen},[{';'.join(vals)}],[{';'.join(str(m) for m in meta)}]"
