"""Translator for /repo/src/nxslib/thread.py -> lean/NxsModel/Gen/Thread.lean  (property C13).

`gen_thread(repo) -> translate.Out`.  Pure `ast`; nxslib is never imported.

The methods `_thread_loop`, `thread_stop`, `thread_start`, `thread_is_alive` of `ThreadCommon`
are compiled, statement by statement and in source order, into control-flow graphs over the
instruction set of `lean/NxsModel/ThreadIR.lean`: ONE instruction per source statement or
test, each naming its successor(s) explicitly (tests: `a` = successor when the tested
primitive is true, `b` = when false; Python negations swap the two).  The one-line helpers
`_stop_is_set`, `_stop_clear`, `stop_set` are inlined after checking that their body is exactly
the expected primitive call; a test `self.thread_is_alive()` is inlined statement by statement
(its `return` statements become the two exits of the test).

Nothing is guessed: any statement / expression outside the understood subset makes the
definition refer to `translator_site_missing_Thread_<what>` (the Lean build then fails naming
the site).  The subset is

  statements   docstring, pass, `self._init()`, `self._target()`, `self._final()`,
               `self._stop_clear()`, `self.stop_set()`, `self._stop_flag.set()/.clear()`,
               `self._thrd.join()`, `self._thrd.start()`, `self._thrd = None`,
               `self._thrd = threading.Thread(target=self._thread_loop, ...)`,
               `return`, `return None/True/False`, `return <test>`,
               `if <test>: ... [else: ...]`, `while <test>: ...` (no else), `break`, `continue`
  tests        `self._init`, `self._final`, `self._thrd`, `self._thrd is [not] None`,
               `self._stop_is_set()`, `self._stop_flag.is_set()`, `self._thrd.is_alive()`,
               `self.thread_is_alive()`, `True`, `False`, `not t`, `t and u`, `t or u`

and `__init__` must create the flag with `threading.Event()` (initially clear) and set
`self._thrd` to `None`.
"""
from __future__ import annotations

import ast

from translate import Missing, Out, find_class, find_func, is_attr, lean_bool, parse

REL = "thread.py"


class Lbl:
    """forward-patchable program counter"""

    def __init__(self):
        self.pc = None
        self.to = None

    def resolve(self):
        seen = set()
        cur = self
        while cur.to is not None:
            if id(cur) in seen:
                raise Missing("loop without any instruction")
            seen.add(id(cur))
            cur = cur.to
        if cur.pc is None:
            raise Missing("internal: unbound label")
        return cur.pc


class Compiler:
    def __init__(self, cls):
        self.cls = cls
        self.code = []          # [op, Lbl a, Lbl b, line, text]
        self.srclines = None

    # -- helpers ------------------------------------------------------------------------
    def emit(self, entry, op, a, b, node, text=None):
        entry.pc = len(self.code)
        self.code.append((op, a, b if b is not None else a, node.lineno, text or ast.unparse(node).split("\n")[0]))

    def helper_is(self, name, recv_attr, meth):
        """method `name` of the class has the body `[return] self.<recv_attr>.<meth>()`"""
        try:
            f = find_func(self.cls, name)
        except Missing:
            return False
        body = strip_doc(f.body)
        if len(body) != 1:
            return False
        st = body[0]
        if isinstance(st, ast.Return):
            e = st.value
        elif isinstance(st, ast.Expr):
            e = st.value
        else:
            return False
        if meth == "is_set" and not isinstance(st, ast.Return):
            return False
        return is_call(e, ("self", recv_attr, meth))

    # -- tests --------------------------------------------------------------------------
    def cond(self, e, entry, t, f, depth=0):
        """emit the test(s) of boolean expression e: jump to t if true else f"""
        if isinstance(e, ast.UnaryOp) and isinstance(e.op, ast.Not):
            return self.cond(e.operand, entry, f, t, depth)
        if isinstance(e, ast.BoolOp):
            vals = e.values
            cur = entry
            for i, v in enumerate(vals):
                last = i == len(vals) - 1
                nxt = Lbl()
                if isinstance(e.op, ast.And):
                    self.cond(v, cur, t if last else nxt, f, depth)
                else:
                    self.cond(v, cur, t, f if last else nxt, depth)
                cur = nxt
            return
        if isinstance(e, ast.Constant) and e.value is True:
            entry.to = t
            return
        if isinstance(e, ast.Constant) and e.value is False:
            entry.to = f
            return
        if isinstance(e, ast.Compare) and len(e.ops) == 1 and isinstance(e.comparators[0], ast.Constant) \
                and e.comparators[0].value is None and is_attr(e.left, "self", "_thrd"):
            if isinstance(e.ops[0], ast.Is):
                return self.emit(entry, "testHandle", f, t, e)
            if isinstance(e.ops[0], ast.IsNot):
                return self.emit(entry, "testHandle", t, f, e)
        if is_attr(e, "self", "_thrd"):
            return self.emit(entry, "testHandle", t, f, e)
        if is_attr(e, "self", "_init"):
            return self.emit(entry, "testInit", t, f, e)
        if is_attr(e, "self", "_final"):
            return self.emit(entry, "testFinal", t, f, e)
        if is_call(e, ("self", "_stop_flag", "is_set")):
            return self.emit(entry, "testStop", t, f, e)
        if is_call(e, ("self", "_stop_is_set")):
            if not self.helper_is("_stop_is_set", "_stop_flag", "is_set"):
                raise Missing("_stop_is_set is not `return self._stop_flag.is_set()`")
            return self.emit(entry, "testStop", t, f, e)
        if is_call(e, ("self", "_thrd", "is_alive")):
            return self.emit(entry, "testAlive", t, f, e)
        if is_call(e, ("self", "thread_is_alive")):
            if depth > 0:
                raise Missing("recursive inlining of thread_is_alive")
            fn = find_func(self.cls, "thread_is_alive")
            # inline: `return <x>` inside becomes the exit t / f of this test; falling off the
            # end returns None (false)
            return self.block(strip_doc(fn.body), entry, f, None, None, inline=(t, f), depth=depth + 1)
        raise Missing(f"test `{ast.unparse(e)}` (line {e.lineno})")

    # -- statements ---------------------------------------------------------------------
    def block(self, stmts, entry, nxt, brk, cont, inline=None, depth=0):
        labels = [entry] + [Lbl() for _ in stmts[1:]] + [nxt]
        if not stmts:
            entry.to = nxt
            return
        for i, st in enumerate(stmts):
            self.stmt(st, labels[i], labels[i + 1], brk, cont, inline, depth)

    def stmt(self, st, entry, nxt, brk, cont, inline, depth):
        if isinstance(st, ast.Pass) or (isinstance(st, ast.Expr) and isinstance(st.value, ast.Constant)
                                        and isinstance(st.value.value, str)):
            entry.to = nxt
            return
        if isinstance(st, ast.Break):
            if brk is None:
                raise Missing(f"break outside loop (line {st.lineno})")
            entry.to = brk
            return
        if isinstance(st, ast.Continue):
            if cont is None:
                raise Missing(f"continue outside loop (line {st.lineno})")
            entry.to = cont
            return
        if isinstance(st, ast.Return):
            v = st.value
            is_none = v is None or (isinstance(v, ast.Constant) and v.value is None)
            if inline is not None:
                t, f = inline
                if is_none or (isinstance(v, ast.Constant) and v.value is False):
                    entry.to = f
                elif isinstance(v, ast.Constant) and v.value is True:
                    entry.to = t
                else:
                    self.cond(v, entry, t, f, depth)
                return
            if is_none:
                return self.emit(entry, "ret", entry, entry, st)
            if isinstance(v, ast.Constant) and v.value is True:
                return self.emit(entry, "retT", entry, entry, st)
            if isinstance(v, ast.Constant) and v.value is False:
                return self.emit(entry, "retF", entry, entry, st)
            t, f = Lbl(), Lbl()
            self.cond(v, entry, t, f, depth)
            self.emit(t, "retT", t, t, st, text="return True   # exit of: " + ast.unparse(st))
            self.emit(f, "retF", f, f, st, text="return False  # exit of: " + ast.unparse(st))
            return
        if isinstance(st, ast.If):
            t, f = Lbl(), Lbl()
            self.cond(st.test, entry, t, f, depth)
            self.block(st.body, t, nxt, brk, cont, inline, depth)
            self.block(st.orelse, f, nxt, brk, cont, inline, depth)
            return
        if isinstance(st, ast.While):
            if st.orelse:
                raise Missing(f"while ... else (line {st.lineno})")
            body = Lbl()
            self.cond(st.test, entry, body, nxt, depth)
            self.block(st.body, body, entry, nxt, entry, inline, depth)
            return
        if isinstance(st, ast.Expr) and isinstance(st.value, ast.Call):
            e = st.value
            simple = {("self", "_init"): "callInit", ("self", "_target"): "callTarget",
                      ("self", "_final"): "callFinal", ("self", "_stop_flag", "set"): "setFlag",
                      ("self", "_stop_flag", "clear"): "clearFlag", ("self", "_thrd", "join"): "join",
                      ("self", "_thrd", "start"): "startThread"}
            for path, op in simple.items():
                if is_call(e, path):
                    return self.emit(entry, op, nxt, nxt, st)
            if is_call(e, ("self", "_stop_clear")):
                if not self.helper_is("_stop_clear", "_stop_flag", "clear"):
                    raise Missing("_stop_clear is not `self._stop_flag.clear()`")
                return self.emit(entry, "clearFlag", nxt, nxt, st)
            if is_call(e, ("self", "stop_set")):
                if not self.helper_is("stop_set", "_stop_flag", "set"):
                    raise Missing("stop_set is not `self._stop_flag.set()`")
                return self.emit(entry, "setFlag", nxt, nxt, st)
            raise Missing(f"call `{ast.unparse(e)}` (line {st.lineno})")
        if isinstance(st, (ast.Assign, ast.AnnAssign)):
            tgts = st.targets if isinstance(st, ast.Assign) else [st.target]
            if len(tgts) == 1 and is_attr(tgts[0], "self", "_thrd") and st.value is not None:
                v = st.value
                if isinstance(v, ast.Constant) and v.value is None:
                    return self.emit(entry, "clearHandle", nxt, nxt, st)
                if isinstance(v, ast.Call) and is_attr(v.func, "threading", "Thread") and not v.args:
                    kw = {k.arg: k.value for k in v.keywords}
                    if set(kw) <= {"target", "name", "daemon"} and "target" in kw \
                            and is_attr(kw["target"], "self", "_thread_loop"):
                        return self.emit(entry, "createThread", nxt, nxt, st)
                    raise Missing(f"threading.Thread(...) whose target is not self._thread_loop (line {st.lineno})")
        raise Missing(f"statement `{ast.unparse(st).splitlines()[0]}` (line {st.lineno})")

    # -- whole function -----------------------------------------------------------------
    def function(self, name):
        fn = find_func(self.cls, name)
        if [a.arg for a in fn.args.args] != ["self"] or fn.args.vararg or fn.args.kwarg or fn.args.kwonlyargs:
            raise Missing(f"{name}: unexpected parameters")
        if fn.decorator_list:
            raise Missing(f"{name}: decorated")
        self.code = []
        entry, end = Lbl(), Lbl()
        self.block(strip_doc(fn.body), entry, end, None, None)

        class _End:  # the implicit `return None` at the end of every function
            lineno = fn.end_lineno
        self.emit(end, "ret", end, end, _End, text="(implicit return at the end of the function)")
        if entry.resolve() != 0:
            raise Missing(f"{name}: internal: entry is not instruction 0")
        rows = []
        for i, (op, a, b, line, text) in enumerate(self.code):
            ret = op in ("ret", "retT", "retF")
            pa, pb = (0, 0) if ret else (a.resolve(), b.resolve())
            rows.append((op, pa, pb, line, text))
        return rows


def strip_doc(body):
    if body and isinstance(body[0], ast.Expr) and isinstance(body[0].value, ast.Constant) \
            and isinstance(body[0].value.value, str):
        return body[1:]
    return body


def is_call(e, path):
    """e is `a.b.c()` with no arguments"""
    return isinstance(e, ast.Call) and not e.args and not e.keywords and is_attr(e.func, *path)


def lean_prog(rows):
    out = ["["]
    for i, (op, a, b, line, text) in enumerate(rows):
        sep = "," if i + 1 < len(rows) else " "
        out.append(f"  ⟨.{op}, {a}, {b}, {line}⟩{sep}  -- {i}: L{line}  {text}")
    out.append("]")
    return "\n".join(out)


def init_facts(cls):
    """(flag created by threading.Event() [initially clear], handle initialised to None)"""
    fn = find_func(cls, "__init__")
    flag = handle = False
    for st in ast.walk(fn):
        if isinstance(st, (ast.Assign, ast.AnnAssign)) and st.value is not None:
            tgts = st.targets if isinstance(st, ast.Assign) else [st.target]
            if len(tgts) != 1:
                continue
            if is_attr(tgts[0], "self", "_stop_flag"):
                flag = is_call(st.value, ("threading", "Event"))
            if is_attr(tgts[0], "self", "_thrd"):
                handle = isinstance(st.value, ast.Constant) and st.value.value is None
    return flag, handle


def compile_all(repo):
    """{name: rows} for the harness (rows = [(op, a, b, line, text)]); raises Missing"""
    cls = find_class(parse(repo, REL), "ThreadCommon")
    c = Compiler(cls)
    return {n: c.function(n) for n in ("_thread_loop", "thread_stop", "thread_start", "thread_is_alive")}


def gen_thread(repo):
    o = Out("Thread", imports=("NxsModel.ThreadIR",))
    o.raw("open Nxs.ThreadIR")
    cls = find_class(parse(repo, REL), "ThreadCommon")
    c = Compiler(cls)
    for lean_name, py_name in (("threadLoop", "_thread_loop"), ("threadStop", "thread_stop"),
                               ("threadStart", "thread_start"), ("threadIsAlive", "thread_is_alive")):
        o.d(lean_name, "Prog", lambda n=py_name: lean_prog(c.function(n)), note="")

    def flag_init():
        if not init_facts(cls)[0]:
            raise Missing("__init__: self._stop_flag = threading.Event()")
        return lean_bool(True)

    def handle_init():
        if not init_facts(cls)[1]:
            raise Missing("__init__: self._thrd = None")
        return lean_bool(True)

    o.d("initFlagClear", "Bool", flag_init, note="__init__ creates the stop flag with threading.Event() (clear)")
    o.d("initHandleNone", "Bool", handle_init, note="__init__ sets self._thrd = None")
    return o


if __name__ == "__main__":
    import sys
    print(gen_thread(sys.argv[1] if len(sys.argv) > 1 else "/repo").text())
