"""Session-level execution of the real CommHandler / NxscopeHandler under vsim against the reference device."""
import vsim
import refdev
from common import hexs, exc_name


def bits(l):
    return "".join("1" if b else "0" for b in l) or "-"


def ints(l):
    return ",".join(str(int(x)) for x in l) or "-"


def mk_chans(en, div, types=None):
    out = []
    for i, (e, d) in enumerate(zip(en, div)):
        t = (types[i] if types else 10)
        out.append(dict(en=bool(e), type=t, vdim=1 if (t & 0x1F) != 1 else 0, div=int(d), mlen=0, name=f"ch{i}"))
    return out


class OutcomePolicy:
    """ack everything except set requests for which an outcome is queued"""

    def __init__(self):
        self.pending = {"div": [], "enable": [], "start": []}

    def __call__(self, dev, kind, req):
        q = self.pending.get(kind)
        if q:
            o = q.pop(0)
            return {"a": "ack", "x": "applied-ack-lost", "l": "lost"}.get(o) or ("nack", int(o[1:]))
        return "ack"


def parse_ops(s):
    return s.split(";")


def run_cfg_history(flags, init_en, init_div, ops, rxpadding=0, started=False, codec_factory=None, frame_cls=None,
                    seed=None, high=False):
    """returns (list of per-op state strings, info dict) in the format of the Lean driver `cfg run`.
    high: drive the calls through the NxscopeHandler wrappers, each called WITHOUT its `writenow` argument (the
    documented default: buffered) and with a bare int for a single channel"""
    info = {}

    def scenario(sim):
        from nxslib.comm import CommHandler
        from nxslib.proto.parse import Parser
        pol = OutcomePolicy()
        dev = refdev.RefDevice(mk_chans(init_en, init_div), flags=flags, rxpadding=rxpadding, policy=pol,
                               codec=codec_factory() if codec_factory else None)
        dev.started = started
        link = refdev.make_link(sim, dev, stream_every=3 if started else None)
        if high:
            from nxslib.nxscope import NxscopeHandler
            nx = NxscopeHandler(link, Parser(frame=frame_cls) if frame_cls else Parser())
            nx.connect()
            comm = nx._comm
        else:
            nx = None
            comm = CommHandler(link, Parser(frame=frame_cls) if frame_cls else Parser())
            comm.connect()
        api = nx if high else comm

        def chans_arg(txt):
            cs = [int(x) for x in txt.split(",") if x != ""]
            return cs[0] if (high and len(cs) == 1) else cs
        info["connect_time"] = sim.now
        info["dev_started_after_connect"] = dev.started
        n = len(init_en)
        out = []
        for op in ops:
            w0 = len(link.writes)
            t0 = sim.now
            err = "-"
            try:
                if op == "D":
                    api.channels_default_cfg()
                elif op == "A":
                    comm.ch_enable_all()
                elif op == "N":
                    api.ch_disable_all()
                elif op.startswith("W:"):
                    _, od, oe = op.split(":")
                    if comm.dev.data.div_supported:
                        pol.pending["div"].append(od)
                    pol.pending["enable"].append(oe)
                    api.channels_write()
                    pol.pending["div"].clear()
                    pol.pending["enable"].clear()
                elif op[0] == "e":
                    api.ch_enable(chans_arg(op[1:]))
                elif op[0] == "d":
                    api.ch_disable(chans_arg(op[1:]))
                elif op[0] == "v":
                    v, cs = op[1:].split(":")
                    api.ch_divider(chans_arg(cs), int(v))
                else:
                    raise ValueError(op)
            except Exception as e:
                err = exc_name(e)
            sent = link.writes[w0:]
            if rxpadding:
                for x in sent:
                    if len(x) % rxpadding:
                        info.setdefault("unaligned", []).append((op, len(x), rxpadding))
                sent = [strip_pad(x) for x in sent]
            ch = comm._channels
            cp_en = [comm.dev.channel_get(i).data.en for i in range(n)]
            cp_div = [comm.dev.channel_get(i).data.div for i in range(n)]
            out.append(f"s={','.join(hexs(x) for x in sent) or '-'};t={round((sim.now - t0) * 10)};e={err};"
                       f"now={bits(comm.ch_is_enabled(i) for i in range(n))}/{ints(comm.ch_div_get(i) for i in range(n))};"
                       f"new={bits(ch.en_new)}/{ints(ch.div_new)};dev={bits(dev.en)}/{ints(dev.div)};"
                       f"cp={bits(cp_en)}/{ints(cp_div)};rs={int(ch.en_resync)}{int(ch.div_resync)}")
        (nx or comm).disconnect()
        info["live_after"] = [t.name for t in sim.live_tasks()]
        info["log"] = list(dev.log)
        return out

    r, sim = vsim.run_sim(scenario, seed=seed, time_limit=3000.0, real_limit=30.0)
    info["errors"] = [(n, repr(e)) for n, e, _ in sim.errors]
    if isinstance(r, BaseException):
        raise r
    return r, info


def strip_pad(data):
    """remove trailing zero padding beyond the declared frame length (serial framing)"""
    if len(data) >= 4 and data[0] == 0x55:
        flen = data[1] | data[2] << 8
        if 6 <= flen <= len(data) and not any(data[flen:]):
            return data[:flen]
    return data
