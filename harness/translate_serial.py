"""Translator part for C18: facts about the serial-port interface.

`gen_serialintf(repo) -> translate.Out`  →  lean/NxsModel/Gen/SerialIntf.lean

From intf/serial.py (class SerialDevice):
  readCount        the argument of `self._ser.read(…)` in `_read`, translated to a Lean function of the
                   number of bytes waiting (`self._ser.in_waiting`); accepted expression language:
                   `self._ser.in_waiting`, non-negative int literals, `min(a, b)`, `max(a, b)`, `a or b`
  readShape        `_read` is `assert …; [try:] return self._ser.read(<expr>)` (nothing else touches the port)
  readErrorEmpty   the `try` has a handler for `serial.SerialException` that returns `b""`
  writePassesData  `_write` is `assert …; self._ser.write(data)` — the argument is the parameter, unchanged
  dropAllPolls     `drop_all`: `cntr = <n>; while cntr > 0: ret = self._read(); if not ret: cntr -= 1`
  readTimeout / writeTimeout   `timeout=` / `write_timeout=` of the `serial.Serial(…)` call, in tenths of a
                   second (`none` = no timeout = a blocking port)
  openArgs         the EXACT set of pyserial settings the `serial.Serial(…)` call passes (positional arguments
                   mapped to pyserial's parameter names, keywords by name), sorted
  openDataBits / openParity / openStopBits / openXonXoff / openRtsCts / openDsrDtr
                   the line settings a `SerialDevice(port)` built with its DEFAULT arguments opens the port with:
                   a literal in the call, or the literal default of the `__init__` parameter handed through, or —
                   when the call does not pass the setting — pyserial's own default (8, "N", 1, False, False, False)
  serAttrs         every attribute of the port object `self._ser` the class touches, anywhere (sorted)
  serHandleShape   `self._ser` occurs only as `self._ser.<attr>` (read, never an assignment / deletion target),
                   as the test of an `assert` / `if`, and as the target of `self._ser = serial.Serial(…)` /
                   `self._ser = None` inside `__init__`: the port object is never aliased, handed to other code,
                   replaced or reconfigured after it was opened
From intf/iintf.py (CommInterfaceCommon / ICommInterface):
  writeAligns      `write` hands `self.data_align(data)` to `self._fwrite`, and nothing else
  readIsFread      `read` returns the result of `self._fread()` unchanged
  wiring           `_fread`/`_fwrite` are the constructor arguments and ICommInterface passes `self._read`,
                   `self._write`

Unknown shape ⇒ `translator_site_missing_SerialIntf_<what>` (the generated file does not compile; for the Bool facts
and the port-settings facts the definition gets a value no theorem accepts instead, so that the driver still builds).
"""
from __future__ import annotations

import ast

from translate import Missing, Out, find_class, find_func, parse, unparse


def _is_logger_call(st):
    return (isinstance(st, ast.Expr) and isinstance(st.value, ast.Call)
            and unparse(st.value.func).startswith("logger."))


def _body(func):
    """statements of a function without the docstring, `assert`s on the port handle and logger calls"""
    out = []
    for i, st in enumerate(func.body):
        if i == 0 and isinstance(st, ast.Expr) and isinstance(st.value, ast.Constant) and isinstance(st.value.value, str):
            continue
        if isinstance(st, ast.Assert) and unparse(st.test) == "self._ser":
            continue
        if _is_logger_call(st):
            continue
        out.append(st)
    return out


def _count_expr(e):
    """Python expression over `self._ser.in_waiting` → Lean term over `w : Nat`"""
    if unparse(e) == "self._ser.in_waiting":
        return "w"
    if isinstance(e, ast.Constant) and isinstance(e.value, int) and not isinstance(e.value, bool) and e.value >= 0:
        return str(e.value)
    if (isinstance(e, ast.Call) and isinstance(e.func, ast.Name) and e.func.id in ("min", "max")
            and len(e.args) == 2 and not e.keywords):
        return f"({e.func.id} {_count_expr(e.args[0])} {_count_expr(e.args[1])})"
    if isinstance(e, ast.BoolOp) and isinstance(e.op, ast.Or) and len(e.values) == 2:
        a, b = _count_expr(e.values[0]), _count_expr(e.values[1])
        return f"(if {a} ≠ 0 then {a} else {b})"
    raise Missing("_read: size passed to self._ser.read is not an expression over self._ser.in_waiting: " + unparse(e)[:60])


def gen_serialintf(repo):
    o = Out("SerialIntf", imports=())
    try:
        S = find_class(parse(repo, "intf/serial.py"), "SerialDevice")
    except (Missing, SyntaxError, FileNotFoundError) as e:
        S = None
        s_err = str(e)
    try:
        it = parse(repo, "intf/iintf.py")
        CC = find_class(it, "CommInterfaceCommon")
        IC = find_class(it, "ICommInterface")
    except (Missing, SyntaxError, FileNotFoundError) as e:
        CC = IC = None
        i_err = str(e)

    def sfunc(name):
        if S is None:
            raise Missing("intf/serial.py: " + s_err)
        return find_func(S, name)

    def ifunc(cls, name):
        if cls is None:
            raise Missing("intf/iintf.py: " + i_err)
        return find_func(cls, name)

    # ---- _read ------------------------------------------------------------------------------------------
    def read_try():
        """(the try statement or None, the size expression) — `return self._ser.read(<size>)`, bare or in a try"""
        b = _body(sfunc("_read"))
        t = None
        if len(b) == 1 and isinstance(b[0], ast.Try) and not b[0].orelse and not b[0].finalbody:
            t = b[0]
            b = t.body
        if len(b) != 1 or not isinstance(b[0], ast.Return):
            raise Missing("_read: body is not a single `return self._ser.read(<size>)`, bare or inside one try")
        c = b[0].value
        if not (isinstance(c, ast.Call) and unparse(c.func) == "self._ser.read" and len(c.args) == 1 and not c.keywords):
            raise Missing("_read: return self._ser.read(<size>)")
        return t, c.args[0]

    def read_count():
        return "fun w => " + _count_expr(read_try()[1])
    o.d("readCount", "Nat → Nat", read_count, "size passed to self._ser.read, as a function of in_waiting")

    def read_shape():
        read_try()
        return "true"
    o.d("readShape", "Bool", read_shape, "_read = return self._ser.read(<size>) and nothing else touches the port")

    def read_error():
        t, _ = read_try()
        if t is None:
            raise Missing("_read: no `except serial.SerialException` returning b\"\"")
        for h in t.handlers:
            types = []
            if h.type is not None:
                types = [unparse(x) for x in (h.type.elts if isinstance(h.type, ast.Tuple) else [h.type])]
            if "serial.SerialException" not in types:
                continue
            hb = [st for st in h.body if not _is_logger_call(st)]
            if (len(hb) == 1 and isinstance(hb[0], ast.Return) and isinstance(hb[0].value, ast.Constant)
                    and hb[0].value.value == b""):
                return "true"
        raise Missing("_read: no `except serial.SerialException` returning b\"\"")
    o.d("readErrorEmpty", "Bool", read_error, "serial.SerialException in _read -> b\"\"")

    # ---- _write -----------------------------------------------------------------------------------------
    def write_shape():
        f = sfunc("_write")
        args = [a.arg for a in f.args.args]
        if len(args) != 2:
            raise Missing("_write(self, data)")
        b = _body(f)
        if len(b) != 1 or not isinstance(b[0], ast.Expr) or not isinstance(b[0].value, ast.Call):
            raise Missing("_write: body is not a single call")
        c = b[0].value
        if not (unparse(c.func) == "self._ser.write" and len(c.args) == 1 and not c.keywords
                and isinstance(c.args[0], ast.Name) and c.args[0].id == args[1]):
            raise Missing("_write: self._ser.write(data) with the parameter unchanged; found " + unparse(c)[:60])
        return "true"
    o.d("writePassesData", "Bool", write_shape, "_write hands its argument to self._ser.write unchanged")

    # ---- drop_all ---------------------------------------------------------------------------------------
    def drop_all():
        b = _body(sfunc("drop_all"))
        ok = (len(b) == 2 and isinstance(b[0], ast.Assign) and unparse(b[0].targets[0]) == "cntr"
              and isinstance(b[0].value, ast.Constant) and isinstance(b[0].value.value, int)
              and isinstance(b[1], ast.While) and unparse(b[1].test) == "cntr > 0" and not b[1].orelse
              and [unparse(x) for x in b[1].body] == ["ret = self._read()", "if not ret:\n    cntr -= 1"])
        if not ok:
            raise Missing("drop_all: cntr = <n>; while cntr > 0: ret = self._read(); if not ret: cntr -= 1")
        return str(b[0].value.value)
    o.d("dropAllPolls", "Nat", drop_all, "empty reads after which drop_all returns")

    # ---- constructor ------------------------------------------------------------------------------------
    def timeout(kw):
        f = sfunc("__init__")
        calls = [n for n in ast.walk(f) if isinstance(n, ast.Call) and unparse(n.func) == "serial.Serial"]
        if len(calls) != 1:
            raise Missing("__init__: exactly one serial.Serial(…) call")
        tgt = [n for n in ast.walk(f) if isinstance(n, ast.Assign) and n.value is calls[0]]
        if not tgt or unparse(tgt[0].targets[0]) != "self._ser":
            raise Missing("__init__: self._ser = serial.Serial(…)")
        for k in calls[0].keywords:
            if k.arg == kw:
                if isinstance(k.value, ast.Constant) and k.value.value is None:
                    return "none"
                if isinstance(k.value, ast.Constant) and isinstance(k.value.value, (int, float)) \
                        and not isinstance(k.value.value, bool) and k.value.value >= 0:
                    v = round(float(k.value.value) * 10)
                    if abs(v - float(k.value.value) * 10) > 1e-9:
                        raise Missing(f"{kw} is not a multiple of 0.1 s")
                    return f"some {v}"
                raise Missing(f"__init__: {kw}=<literal>")
        return "none"   # pyserial default: no timeout (blocking)
    o.d("readTimeout", "Option Nat", lambda: timeout("timeout"), "tenths of a second; none = blocking port")
    o.d("writeTimeout", "Option Nat", lambda: timeout("write_timeout"))

    # ---- how the port is opened ---------------------------------------------------------------------------
    # pyserial 3.5: Serial.__init__(self, port=None, baudrate=9600, bytesize=8, parity='N', stopbits=1, timeout=None,
    #               xonxoff=False, rtscts=False, write_timeout=None, dsrdtr=False, inter_byte_timeout=None, exclusive=None)
    PYSERIAL_ORDER = ["port", "baudrate", "bytesize", "parity", "stopbits", "timeout", "xonxoff", "rtscts",
                      "write_timeout", "dsrdtr", "inter_byte_timeout", "exclusive"]
    PYSERIAL_DEFAULT = {"bytesize": 8, "parity": "N", "stopbits": 1, "xonxoff": False, "rtscts": False, "dsrdtr": False}

    def open_call():
        f = sfunc("__init__")
        calls = [n for n in ast.walk(f) if isinstance(n, ast.Call) and unparse(n.func) == "serial.Serial"]
        if len(calls) != 1:
            raise Missing("__init__: exactly one serial.Serial(…) call")
        c = calls[0]
        if any(isinstance(a, ast.Starred) for a in c.args) or any(k.arg is None for k in c.keywords):
            raise Missing("__init__: serial.Serial(…) called with *args / **kwargs")
        if len(c.args) > len(PYSERIAL_ORDER):
            raise Missing("__init__: too many positional arguments in serial.Serial(…)")
        given = {}
        for name, a in zip(PYSERIAL_ORDER, c.args):
            given[name] = a
        for k in c.keywords:
            if k.arg in given:
                raise Missing(f"__init__: serial.Serial(…) gets {k.arg} twice")
            given[k.arg] = k.value
        # defaults of the constructor's own parameters
        a = f.args
        if a.vararg or a.kwarg:
            raise Missing("__init__: *args / **kwargs in the signature of SerialDevice.__init__")
        names = [x.arg for x in a.posonlyargs + a.args]
        defaults = dict(zip(names[len(names) - len(a.defaults):], a.defaults))
        for x, d in zip(a.kwonlyargs, a.kw_defaults):
            names.append(x.arg)
            if d is not None:
                defaults[x.arg] = d
        # a parameter handed through must not be rebound before the call
        rebound = {unparse(t) for n in ast.walk(f) if isinstance(n, (ast.Assign, ast.AugAssign, ast.AnnAssign))
                   for t in (n.targets if isinstance(n, ast.Assign) else [n.target])}
        return given, names, defaults, rebound

    def setting(name):
        """the value of a pyserial setting when SerialDevice is built with its default arguments"""
        given, names, defaults, rebound = open_call()
        if name not in given:
            return PYSERIAL_DEFAULT[name]
        e = given[name]
        if isinstance(e, ast.Name) and e.id in names:
            if e.id in rebound:
                raise Missing(f"__init__: parameter {e.id} is reassigned before it reaches serial.Serial(…)")
            if e.id not in defaults:
                raise Missing(f"__init__: {name}={e.id} has no default (the caller decides)")
            e = defaults[e.id]
        if not isinstance(e, ast.Constant):
            raise Missing(f"__init__: {name} is not a literal or a parameter with a literal default: " + unparse(e)[:40])
        return e.value

    def port_fact(name, typ, fn, sentinel, note=""):
        """like Out.d, but a site that is gone gets a value no theorem accepts (the module still compiles)"""
        try:
            val = fn()
            o.facts[name] = val
        except Missing as e:
            val = f"{sentinel}  -- translator_site_missing_SerialIntf_{name}  -- {e}"
            o.facts[name] = None
            note = ""
        o.raw(f"def {name} : {typ} := {val}" + (f"  -- {note}" if note else ""))

    def lean_str(x):
        if not isinstance(x, str) or not x.isascii() or not x.isprintable() or '"' in x or "\\" in x:
            raise Missing("not a plain string literal: " + repr(x)[:40])
        return '"' + x + '"'

    def open_args():
        given = open_call()[0]
        return "[" + ", ".join(lean_str(k) for k in sorted(given)) + "]"
    port_fact("openArgs", "List String", open_args, '["?"]', "pyserial settings passed by the serial.Serial(…) call")

    def nat_setting(name):
        v = setting(name)
        if isinstance(v, bool) or not isinstance(v, int) or v < 0:
            raise Missing(f"__init__: {name} = {v!r} is not a natural number")
        return str(v)

    def bool_setting(name):
        v = setting(name)
        if not isinstance(v, bool):
            raise Missing(f"__init__: {name} = {v!r} is not True / False")
        return "true" if v else "false"
    port_fact("openDataBits", "Nat", lambda: nat_setting("bytesize"), "0", "data bits with the default arguments")
    port_fact("openParity", "String", lambda: lean_str(setting("parity")), '"?"', "parity with the default arguments")
    port_fact("openStopBits", "Nat", lambda: nat_setting("stopbits"), "0", "stop bits with the default arguments")
    port_fact("openXonXoff", "Bool", lambda: bool_setting("xonxoff"), "true", "software flow control")
    port_fact("openRtsCts", "Bool", lambda: bool_setting("rtscts"), "true", "RTS/CTS hardware flow control")
    port_fact("openDsrDtr", "Bool", lambda: bool_setting("dsrdtr"), "true", "DSR/DTR hardware flow control")

    # ---- the port object is only used, never reconfigured ------------------------------------------------------
    def ser_uses():
        """(sorted attribute names, shape ok?) over every occurrence of `self._ser` in the class"""
        if S is None:
            raise Missing("intf/serial.py: " + s_err)

        def is_ser(n):
            return (isinstance(n, ast.Attribute) and n.attr == "_ser" and isinstance(n.value, ast.Name)
                    and n.value.id == "self")
        parent = {}
        for n in ast.walk(S):
            for ch in ast.iter_child_nodes(n):
                parent[ch] = n
        init = find_func(S, "__init__")
        init_nodes = set(ast.walk(init))
        attrs = set()
        for n in ast.walk(S):
            if not is_ser(n):
                continue
            p = parent.get(n)
            if isinstance(p, ast.Attribute) and p.value is n:
                if not isinstance(p.ctx, ast.Load):
                    raise Missing(f"self._ser.{p.attr} is assigned or deleted")
                attrs.add(p.attr)
            elif isinstance(p, (ast.Assert, ast.If)) and p.test is n:
                pass
            elif (isinstance(p, ast.Assign) and len(p.targets) == 1 and p.targets[0] is n and n in init_nodes
                  and ((isinstance(p.value, ast.Constant) and p.value.value is None)
                       or (isinstance(p.value, ast.Call) and unparse(p.value.func) == "serial.Serial"))):
                pass
            else:
                raise Missing("self._ser is used other than as self._ser.<attr>: " + unparse(p)[:60])
        # the name is not reached in another way either
        for n in ast.walk(S):
            if isinstance(n, ast.Constant) and n.value == "_ser":
                raise Missing("the string '_ser' occurs in the class (getattr / setattr)")
            if isinstance(n, ast.Call) and unparse(n.func) in ("setattr", "delattr", "vars", "object.__setattr__") \
                    or isinstance(n, ast.Attribute) and n.attr == "__dict__":
                raise Missing("setattr / vars / __dict__ used in the class")
        return sorted(attrs)

    port_fact("serAttrs", "List String", lambda: "[" + ", ".join(lean_str(a) for a in ser_uses()) + "]", '["?"]',
              "attributes of self._ser touched anywhere in the class")

    def ser_shape():
        ser_uses()
        return "true"
    o.d("serHandleShape", "Bool", ser_shape, "self._ser only read as self._ser.<attr>; assigned only in __init__")

    # ---- iintf.py ---------------------------------------------------------------------------------------
    def write_aligns():
        f = ifunc(CC, "write")
        args = [a.arg for a in f.args.args]
        if len(args) != 2:
            raise Missing("write(self, data)")
        d = args[1]
        b = [unparse(x) for x in _body(f)]
        if b not in ([f"{d} = self.data_align({d})", f"self._fwrite({d})"], [f"self._fwrite(self.data_align({d}))"]):
            raise Missing("CommInterfaceCommon.write: self._fwrite(self.data_align(data)); found " + " ; ".join(b)[:80])
        return "true"
    o.d("writeAligns", "Bool", write_aligns, "write = _fwrite(data_align(data))")

    def read_is_fread():
        f = ifunc(CC, "read")
        b = []
        for st in _body(f):
            # `if len(data) > 0: logger.debug(…)` only logs
            if isinstance(st, ast.If) and not st.orelse and all(_is_logger_call(x) for x in st.body):
                continue
            b.append(unparse(st))
        if b not in (["data = self._fread()", "return data"], ["return self._fread()"]):
            raise Missing("CommInterfaceCommon.read: return self._fread(); found " + " ; ".join(b)[:80])
        return "true"
    o.d("readIsFread", "Bool", read_is_fread, "read = _fread()")

    def wiring():
        f = ifunc(CC, "__init__")
        args = [a.arg for a in f.args.args]
        b = [unparse(x) for x in _body(f)]
        if len(args) != 3 or f"self._fread = {args[1]}" not in b or f"self._fwrite = {args[2]}" not in b:
            raise Missing("CommInterfaceCommon.__init__: self._fread = read; self._fwrite = write")
        if sum(1 for x in b if x.startswith("self._fread =") or x.startswith("self._fwrite =")) != 2:
            raise Missing("CommInterfaceCommon.__init__: _fread/_fwrite assigned once")
        g = [unparse(x) for x in _body(ifunc(IC, "__init__"))]
        if g != ["CommInterfaceCommon.__init__(self, self._read, self._write)"]:
            raise Missing("ICommInterface.__init__: CommInterfaceCommon.__init__(self, self._read, self._write)")
        return "true"
    o.d("wiring", "Bool", wiring, "_fread = self._read, _fwrite = self._write")
    return o


if __name__ == "__main__":
    import sys
    print(gen_serialintf(sys.argv[1] if len(sys.argv) > 1 else "/repo").text())
