"""Translator part for C18: facts about the serial-port interface.

`gen_serialintf(repo) -> translate.Out`  →  lean/NxsModel/Gen/SerialIntf.lean

From intf/serial.py (class SerialDevice):
  readCount        the argument of `self._ser.read(…)` in `_read`, translated to a Lean function of the
                   number of bytes waiting (`self._ser.in_waiting`); accepted expression language:
                   `self._ser.in_waiting`, non-negative int literals, `min(a, b)`, `max(a, b)`, `a or b`
  readShape        `_read` is `assert …; [try:] return self._ser.read(<expr>)` (nothing else touches the port)
  readErrorEmpty   the `try` has a handler for `serial.SerialException` that returns `b""`
  writePassesData  `_write` is `assert …; self._ser.write(data)` — the argument is the parameter, unchanged
  dropAllPolls     `drop_all`: `cntr = <n>; while cntr > 0: ret = self._read(); if not ret: cntr -= 1`
  readTimeout / writeTimeout   `timeout=` / `write_timeout=` of the `serial.Serial(…)` call, in tenths of a
                   second (`none` = no timeout = a blocking port)
From intf/iintf.py (CommInterfaceCommon / ICommInterface):
  writeAligns      `write` hands `self.data_align(data)` to `self._fwrite`, and nothing else
  readIsFread      `read` returns the result of `self._fread()` unchanged
  wiring           `_fread`/`_fwrite` are the constructor arguments and ICommInterface passes `self._read`,
                   `self._write`

Unknown shape ⇒ `translator_site_missing_SerialIntf_<what>` (the generated file does not compile).
"""
from __future__ import annotations

import ast

from translate import Missing, Out, find_class, find_func, parse, unparse


def _is_logger_call(st):
    return (isinstance(st, ast.Expr) and isinstance(st.value, ast.Call)
            and unparse(st.value.func).startswith("logger."))


def _body(func):
    """statements of a function without the docstring, `assert`s on the port handle and logger calls"""
    out = []
    for i, st in enumerate(func.body):
        if i == 0 and isinstance(st, ast.Expr) and isinstance(st.value, ast.Constant) and isinstance(st.value.value, str):
            continue
        if isinstance(st, ast.Assert) and unparse(st.test) == "self._ser":
            continue
        if _is_logger_call(st):
            continue
        out.append(st)
    return out


def _count_expr(e):
    """Python expression over `self._ser.in_waiting` → Lean term over `w : Nat`"""
    if unparse(e) == "self._ser.in_waiting":
        return "w"
    if isinstance(e, ast.Constant) and isinstance(e.value, int) and not isinstance(e.value, bool) and e.value >= 0:
        return str(e.value)
    if (isinstance(e, ast.Call) and isinstance(e.func, ast.Name) and e.func.id in ("min", "max")
            and len(e.args) == 2 and not e.keywords):
        return f"({e.func.id} {_count_expr(e.args[0])} {_count_expr(e.args[1])})"
    if isinstance(e, ast.BoolOp) and isinstance(e.op, ast.Or) and len(e.values) == 2:
        a, b = _count_expr(e.values[0]), _count_expr(e.values[1])
        return f"(if {a} ≠ 0 then {a} else {b})"
    raise Missing("_read: size passed to self._ser.read is not an expression over self._ser.in_waiting: " + unparse(e)[:60])


def gen_serialintf(repo):
    o = Out("SerialIntf", imports=())
    try:
        S = find_class(parse(repo, "intf/serial.py"), "SerialDevice")
    except (Missing, SyntaxError, FileNotFoundError) as e:
        S = None
        s_err = str(e)
    try:
        it = parse(repo, "intf/iintf.py")
        CC = find_class(it, "CommInterfaceCommon")
        IC = find_class(it, "ICommInterface")
    except (Missing, SyntaxError, FileNotFoundError) as e:
        CC = IC = None
        i_err = str(e)

    def sfunc(name):
        if S is None:
            raise Missing("intf/serial.py: " + s_err)
        return find_func(S, name)

    def ifunc(cls, name):
        if cls is None:
            raise Missing("intf/iintf.py: " + i_err)
        return find_func(cls, name)

    # ---- _read ------------------------------------------------------------------------------------------
    def read_try():
        """(the try statement or None, the size expression) — `return self._ser.read(<size>)`, bare or in a try"""
        b = _body(sfunc("_read"))
        t = None
        if len(b) == 1 and isinstance(b[0], ast.Try) and not b[0].orelse and not b[0].finalbody:
            t = b[0]
            b = t.body
        if len(b) != 1 or not isinstance(b[0], ast.Return):
            raise Missing("_read: body is not a single `return self._ser.read(<size>)`, bare or inside one try")
        c = b[0].value
        if not (isinstance(c, ast.Call) and unparse(c.func) == "self._ser.read" and len(c.args) == 1 and not c.keywords):
            raise Missing("_read: return self._ser.read(<size>)")
        return t, c.args[0]

    def read_count():
        return "fun w => " + _count_expr(read_try()[1])
    o.d("readCount", "Nat → Nat", read_count, "size passed to self._ser.read, as a function of in_waiting")

    def read_shape():
        read_try()
        return "true"
    o.d("readShape", "Bool", read_shape, "_read = return self._ser.read(<size>) and nothing else touches the port")

    def read_error():
        t, _ = read_try()
        if t is None:
            raise Missing("_read: no `except serial.SerialException` returning b\"\"")
        for h in t.handlers:
            types = []
            if h.type is not None:
                types = [unparse(x) for x in (h.type.elts if isinstance(h.type, ast.Tuple) else [h.type])]
            if "serial.SerialException" not in types:
                continue
            hb = [st for st in h.body if not _is_logger_call(st)]
            if (len(hb) == 1 and isinstance(hb[0], ast.Return) and isinstance(hb[0].value, ast.Constant)
                    and hb[0].value.value == b""):
                return "true"
        raise Missing("_read: no `except serial.SerialException` returning b\"\"")
    o.d("readErrorEmpty", "Bool", read_error, "serial.SerialException in _read -> b\"\"")

    # ---- _write -----------------------------------------------------------------------------------------
    def write_shape():
        f = sfunc("_write")
        args = [a.arg for a in f.args.args]
        if len(args) != 2:
            raise Missing("_write(self, data)")
        b = _body(f)
        if len(b) != 1 or not isinstance(b[0], ast.Expr) or not isinstance(b[0].value, ast.Call):
            raise Missing("_write: body is not a single call")
        c = b[0].value
        if not (unparse(c.func) == "self._ser.write" and len(c.args) == 1 and not c.keywords
                and isinstance(c.args[0], ast.Name) and c.args[0].id == args[1]):
            raise Missing("_write: self._ser.write(data) with the parameter unchanged; found " + unparse(c)[:60])
        return "true"
    o.d("writePassesData", "Bool", write_shape, "_write hands its argument to self._ser.write unchanged")

    # ---- drop_all ---------------------------------------------------------------------------------------
    def drop_all():
        b = _body(sfunc("drop_all"))
        ok = (len(b) == 2 and isinstance(b[0], ast.Assign) and unparse(b[0].targets[0]) == "cntr"
              and isinstance(b[0].value, ast.Constant) and isinstance(b[0].value.value, int)
              and isinstance(b[1], ast.While) and unparse(b[1].test) == "cntr > 0" and not b[1].orelse
              and [unparse(x) for x in b[1].body] == ["ret = self._read()", "if not ret:\n    cntr -= 1"])
        if not ok:
            raise Missing("drop_all: cntr = <n>; while cntr > 0: ret = self._read(); if not ret: cntr -= 1")
        return str(b[0].value.value)
    o.d("dropAllPolls", "Nat", drop_all, "empty reads after which drop_all returns")

    # ---- constructor ------------------------------------------------------------------------------------
    def timeout(kw):
        f = sfunc("__init__")
        calls = [n for n in ast.walk(f) if isinstance(n, ast.Call) and unparse(n.func) == "serial.Serial"]
        if len(calls) != 1:
            raise Missing("__init__: exactly one serial.Serial(…) call")
        tgt = [n for n in ast.walk(f) if isinstance(n, ast.Assign) and n.value is calls[0]]
        if not tgt or unparse(tgt[0].targets[0]) != "self._ser":
            raise Missing("__init__: self._ser = serial.Serial(…)")
        for k in calls[0].keywords:
            if k.arg == kw:
                if isinstance(k.value, ast.Constant) and k.value.value is None:
                    return "none"
                if isinstance(k.value, ast.Constant) and isinstance(k.value.value, (int, float)) \
                        and not isinstance(k.value.value, bool) and k.value.value >= 0:
                    v = round(float(k.value.value) * 10)
                    if abs(v - float(k.value.value) * 10) > 1e-9:
                        raise Missing(f"{kw} is not a multiple of 0.1 s")
                    return f"some {v}"
                raise Missing(f"__init__: {kw}=<literal>")
        return "none"   # pyserial default: no timeout (blocking)
    o.d("readTimeout", "Option Nat", lambda: timeout("timeout"), "tenths of a second; none = blocking port")
    o.d("writeTimeout", "Option Nat", lambda: timeout("write_timeout"))

    # ---- iintf.py ---------------------------------------------------------------------------------------
    def write_aligns():
        f = ifunc(CC, "write")
        args = [a.arg for a in f.args.args]
        if len(args) != 2:
            raise Missing("write(self, data)")
        d = args[1]
        b = [unparse(x) for x in _body(f)]
        if b not in ([f"{d} = self.data_align({d})", f"self._fwrite({d})"], [f"self._fwrite(self.data_align({d}))"]):
            raise Missing("CommInterfaceCommon.write: self._fwrite(self.data_align(data)); found " + " ; ".join(b)[:80])
        return "true"
    o.d("writeAligns", "Bool", write_aligns, "write = _fwrite(data_align(data))")

    def read_is_fread():
        f = ifunc(CC, "read")
        b = []
        for st in _body(f):
            # `if len(data) > 0: logger.debug(…)` only logs
            if isinstance(st, ast.If) and not st.orelse and all(_is_logger_call(x) for x in st.body):
                continue
            b.append(unparse(st))
        if b not in (["data = self._fread()", "return data"], ["return self._fread()"]):
            raise Missing("CommInterfaceCommon.read: return self._fread(); found " + " ; ".join(b)[:80])
        return "true"
    o.d("readIsFread", "Bool", read_is_fread, "read = _fread()")

    def wiring():
        f = ifunc(CC, "__init__")
        args = [a.arg for a in f.args.args]
        b = [unparse(x) for x in _body(f)]
        if len(args) != 3 or f"self._fread = {args[1]}" not in b or f"self._fwrite = {args[2]}" not in b:
            raise Missing("CommInterfaceCommon.__init__: self._fread = read; self._fwrite = write")
        if sum(1 for x in b if x.startswith("self._fread =") or x.startswith("self._fwrite =")) != 2:
            raise Missing("CommInterfaceCommon.__init__: _fread/_fwrite assigned once")
        g = [unparse(x) for x in _body(ifunc(IC, "__init__"))]
        if g != ["CommInterfaceCommon.__init__(self, self._read, self._write)"]:
            raise Missing("ICommInterface.__init__: CommInterfaceCommon.__init__(self, self._read, self._write)")
        return "true"
    o.d("wiring", "Bool", wiring, "_fread = self._read, _fwrite = self._write")
    return o


if __name__ == "__main__":
    import sys
    print(gen_serialintf(sys.argv[1] if len(sys.argv) > 1 else "/repo").text())
