"""C08 — stream samples reach every subscriber exactly once and in device order.

Three layers of correspondence (K), all executing the REAL stream thread under the virtual-time runtime
(harness/vsim.py), so that an exception inside `_stream_thread` really ends the thread (R-C08-2):

 A  `fan sys <initbits> <events>`          abstract frames (UINT32 samples `<chan>.<tag>`), frames put straight on
                                           `_q_stream`, no receive thread; model: `Fanout.Sys` under the harness schedule
 B  `fan wire <layout> <user> <initbits> <events>`   the same with real STREAM payloads over random channel layouts
                                           (types, vdim, mlen, user types): decoder (C04 model) ∘ fan-out
 C  sessions (extra_checks): connect to the reference device (channels possibly enabled already), both library
                                           threads running, frames in flight at subscribe / unsubscribe / enable-change /
                                           stop;start time, stalled stream thread, byte-identical consecutive frames, bursts
                                           of > 2000 frames (more than any plausible bound on the stream-frame queue), a
                                           device that streams a newly enabled channel BEFORE it acknowledges the request, a
                                           repeated `connect()` on the connected handler while subscribed and streaming, single
                                           stream frames of > 16 KiB, > 32 KiB and of exactly 65535 bytes (the largest the 16-bit
                                           length field allows) between ordinary ones; the
                                           linearised trace of what happened (arrivals at `_q_stream.put`, iterations at
                                           `_q_stream.get`, calls) is replayed through the model (`fan sys`, events I/T) and
                                           the final queue contents are compared.  The trace is OBSERVED: method wrappers on
                                           the library's own queue object and on `ch_is_enabled`; no library object is
                                           replaced, threads are told apart by task identity (application thread vs the
                                           rest), never by name.
 D  schedules (extra_checks, both tiers): a second application thread unsubscribes / subscribes while the stream thread is
                                           delivering, pre-emption at every lock / queue / link operation (`concurrent_unsub`),
                                           judged at the subscriber queues AFTER `stream_unsub` returned.
The oracle (O) is a per-queue reference written from the property text; for sessions it judges what the device
SENT against what the queues RECEIVED (must / may / must-not per sample, by the order of sends, calls, the device's
"request applied" moments and quiesce times only — no library internals).  Text samples that are not valid UTF-8 are
accepted in any rendering (the property does not say how they are shown).

Event language of the lines: see lean/NxsModel/Driver/Fanout.lean.  SCHEDULE of layers A/B: the application
thread runs without interruption except in `i` (virtual sleep: the stream thread drains `_q_stream` or dies) and `P`
(`stream_stop`: a thread that has run before is parked in `_q_stream.get` and finishes that get — one more frame —
before it sees the stop flag; a thread that has never run sees the flag at once).
"""
import struct
from common import Prop, exc_name
import common
import streamglue as sg
import streamgen as gen

U32 = (6, 1, 0)


# ---------------------------------------------------------------------------------------------- lines

def bits(s):
    return [] if s == "-" else [c == "1" for c in s]


def bitstr(l):
    return "".join("1" if b else "0" for b in l) or "-"


def parse_layout(s):
    return [] if s == "-" else [tuple(int(x) for x in c.split(":")) for c in s.split(",")]


def parse_user(s):
    if s == "-":
        return {}
    out = {}
    for u in s.split(";"):
        ty, dt, items = u.split("/")
        out[int(ty)] = (int(dt), [(int(i.split(".")[0]), i.split(".")[1]) for i in items.split("+")] if items else [])
    return out


def parse_line(line):
    """-> dict(kind, layout, user, init, events)"""
    t = line.split(" ")
    evs = lambda s: [] if s == "-" else s.split(";")
    if t[1] == "run":      # legacy corpus / replay form: stream running, every frame processed when it arrives
        n = int(t[2])
        out = ["S"]
        for op in evs(t[3]):
            out.append(op)
            if op[0] in "fx":
                out.append("i")
        return dict(kind="sys", layout=[U32] * n, user={}, init=[False] * n, events=out)
    if t[1] == "sys":
        init = bits(t[2])
        return dict(kind="sys", layout=[U32] * len(init), user={}, init=init, events=evs(t[3]))
    if t[1] == "wire":
        return dict(kind="wire", layout=parse_layout(t[2]), user=parse_user(t[3]), init=bits(t[4]), events=evs(t[5]))
    raise ValueError(line)


def abstract_samples(ev):
    fl, ss = ev[1:].split(":")
    return int(fl), [tuple(int(x) for x in s.split(".")) for s in ss.split(",")] if ss else []


def payload_of(ev):
    """STREAM payload of a frame event"""
    if ev[0] == "w":
        return common.unhex(ev[1:])
    if ev[0] == "x":
        return bytes([0, 0, 1, 2])                      # channel 0, two of the four bytes of a UINT32
    fl, smp = abstract_samples(ev)
    body = bytes([fl & 0xFF])
    for c, v in smp:
        body += bytes([c & 0xFF]) + struct.pack("<I", v)
    return body


def frame_samples(case, ev):
    """independent reading of a frame event: [(chan, item)] or None when the decoder must reject the frame.
    item: the tag (sys) or (tuple of python values, tuple of meta ints) (wire)"""
    n = len(case["layout"])
    if ev[0] == "x":
        return None
    if ev[0] == "f":
        _, smp = abstract_samples(ev)
        return None if any(c >= n for c, _ in smp) else smp
    payload = common.unhex(ev[1:])
    if not payload:
        return []
    parsed = sg.ref_parse(case["layout"], case["user"], payload)
    if parsed is None:
        return None
    out = []
    for chan, vals, metas in parsed:
        ty, vdim, mlen = case["layout"][chan]
        out.append((chan, (tuple(ref_value(code, raw, ty, case["user"], len(vals)) for code, raw in vals),
                           tuple(int.from_bytes(m, "little") for m in metas))))
    return out


class _AnyStr:
    """compares equal to every str (the rendering of undecodable text is the library's choice)"""
    def __eq__(self, other):
        return isinstance(other, (str, _AnyStr))

    def __ne__(self, other):
        return not self.__eq__(other)

    def __hash__(self):
        return 0

    def __repr__(self):
        return "<any str>"


ANY_STR = _AnyStr()


def text_sequence(case):
    """{chan: [(str the sample decodes to (undecodable bytes replaced), raw length if the wire bytes are NOT valid UTF-8
    else None)]} of the single-atom CHAR samples of the case's frames, in wire order.  The model prints undecodable text
    as `t~<len>` (like C04's glue does: the replacement text is not part of the model)"""
    out = {}
    for ev in case["events"]:
        if ev[0] != "w":
            continue
        parsed = sg.ref_parse(case["layout"], case["user"], common.unhex(ev[1:]))
        for chan, vals, _ in parsed or []:
            ty = case["layout"][chan][0]
            if sg.dtype_of(ty, case["user"]) == sg.CHAR and len(vals) == 1:
                raw = bytes(vals[0][1])
                out.setdefault(chan, []).append((raw.decode("utf-8", "replace"), None if sg.valid_utf8(raw) else len(raw)))
    return out


def ref_value(code, raw, ty, user, natoms):
    """the python value a sample atom stands for, straight from the wire bytes (independent of nxslib)"""
    dt = sg.dtype_of(ty, user)
    frac = sg.frac_of(ty)
    if dt == sg.CHAR and natoms == 1:
        # text that is not valid UTF-8: the property does not say how it is rendered -> any str is accepted
        return raw.decode("utf-8") if sg.valid_utf8(raw) else ANY_STR
    if code in "BHIQbhiq":
        r = int.from_bytes(raw, "little", signed=code.islower())
        return r / (1 << frac) if frac else r
    if code in "fd":
        return struct.unpack("<" + code, raw)[0]
    if code == "?":
        return raw != b"\x00"
    return bytes(raw)


# ---------------------------------------------------------------------------- layers A / B: real execution

def drive(case, events=None):
    """the real NxscopeHandler with its real stream thread (vsim), frames put on `_q_stream`; -> result dict"""
    import vsim
    events = case["events"] if events is None else events
    layout, user, init = case["layout"], case["user"], case["init"]
    n = len(layout)
    res = {}

    def scenario(sim):
        from nxslib.nxscope import NxscopeHandler
        from nxslib.dev import Device
        from nxslib.intf.iintf import ICommInterface
        from nxslib.proto.parse import Parser
        from nxslib.proto.iframe import DParseFrame, EParseId
        import queue as realqueue

        class Null(ICommInterface):
            def start(self): pass
            def stop(self): pass
            def drop_all(self): pass
            def _read(self): return b""
            def _write(self, data): pass

        parser = Parser(user_types=sg.real_user(user))
        nx = NxscopeHandler(Null(), parser)
        comm = nx._comm
        # the device description exactly as connect() builds it: every channel through the real CHINFO decoder
        # (the enable byte arrives as an int), the channel state through `_channels_init`
        chans = [parser.frame_chinfo_decode(
            DParseFrame(EParseId.CHINFO, bytes([int(init[i]), ty, vdim, 0, mlen]) + b"c%d" % i), i)
            for i, (ty, vdim, mlen) in enumerate(layout)]
        comm._dev = Device(n, 0, 0, chans)              # flags 0: no divider, no ACK frames -> requests need no device
        comm._channels_init(comm._dev)
        comm.connect = lambda: None                     # the low-level handshake is C06/C09's business ...
        nx.connect()                                    # ... the high-level connect (subscriber lists) is the real one
        queues = []
        qchan = []
        errs = []
        for i, ev in enumerate(events):
            try:
                k = ev[0]
                if k in "fxw":
                    comm._q_stream.put(DParseFrame(EParseId.STREAM, payload_of(ev)))
                elif k == "i":
                    vsim.vsleep(0.02)
                elif k == "s":
                    c = int(ev[1:])
                    queues.append(nx.stream_sub(c))
                    qchan.append(c)
                elif k == "n":
                    c = -(int(ev[1:]) + 1)
                    queues.append(nx.stream_sub(c))
                    qchan.append(n + c)
                elif k == "u":
                    j = int(ev[1:])
                    # a queue that was never subscribed (foreign / stale): a legal no-op
                    nx.stream_unsub(queues[j] if j < len(queues) else realqueue.Queue())
                elif k == "e":
                    for c, b in enumerate(ev[1:]):
                        (comm.ch_enable if b == "1" else comm.ch_disable)(c)
                    nx.channels_write()
                elif k == "S":
                    nx.stream_start()
                elif k == "P":
                    nx.stream_stop()
                else:
                    raise ValueError(ev)
            except Exception as e:
                errs.append((i, exc_name(e)))
        groups = []
        for q in queues:
            gs = []
            while not q.empty():
                gs.append([(tuple(x.data), tuple(x.meta)) for x in q.get_nowait()])
            groups.append(gs)
        started = bool(nx._stream_started)
        res.update(groups=groups, qchan=qchan, ovf=nx._ovf_cntr, errs=errs, started=started,
                   subs=[[queues.index(q) for q in l if q in queues] for l in nx._sub_q],
                   dead=bool(started and not nx._thrd.thread_is_alive()), qlen=comm._q_stream.qsize())
        nx._connected = False
        nx._thrd.thread_stop()
        comm._dev = None

    r, sim = vsim.run_sim(scenario, time_limit=5000.0, real_limit=20.0)
    if isinstance(r, BaseException):
        raise r
    res["thread_errors"] = [(name, exc_name(e)) for name, e, _ in sim.errors]
    return res


def canon_item(item, ty, vdim, mlen, user, bad_len=None):
    """delivered (data, meta) -> the model's `[v;v],[m;m]` (values rendered from the python objects alone; `bad_len`:
    raw length when this sample's text was not valid UTF-8 on the wire -> `t~<len>`)"""
    data, meta = item
    atoms = sg.sample_atoms(ty, vdim, user)
    dt = sg.dtype_of(ty, user)
    frac = sg.frac_of(ty)
    vals = []
    for j, v in enumerate(data):
        code = atoms[j][0] if j < len(atoms) else "?"
        if dt == sg.CHAR and len(data) == 1:
            if isinstance(v, str) and bad_len is not None:
                vals.append(f"t~{bad_len}")
            else:
                vals.append("t:" + sg.hexs(v.encode("utf-8")) if isinstance(v, str) else f"t!:{v!r}")
        elif code in "BHIQbhiq":
            if frac:
                raw = round(v * (1 << frac)) if isinstance(v, float) else None
                vals.append(f"x:{raw}:{frac}" if raw is not None and raw / (1 << frac) == v else f"x!:{v!r}")
            else:
                vals.append(f"i:{v}" if type(v) is int else f"i!:{v!r}")
        elif code in "fd":
            w = 4 if code == "f" else 8
            vals.append(f"{code}:" + format(int.from_bytes(struct.pack("<" + code, v), "little"), f"0{2 * w}x")
                        if type(v) is float else f"{code}!:{v!r}")
        elif code == "?":
            vals.append(f"o:{int(v)}" if type(v) is bool else f"o!:{v!r}")
        else:
            vals.append("b:" + sg.hexs(v) if isinstance(v, bytes) else f"b!:{v!r}")
    return f"[{';'.join(vals)}],[{';'.join(str(int(m)) for m in meta)}]"


def fmt(case, res):
    layout, user = case["layout"], case["user"]
    qs = []
    texts = text_sequence(case) if case["kind"] == "wire" else {}
    for i, gs in enumerate(res["groups"]):
        if case["kind"] == "sys":
            qs.append(f"q{i}=" + "/".join(".".join(str(int(it[0][0])) for it in g) for g in gs))
        else:
            c = res["qchan"][i]
            seq, pos = texts.get(c, []), 0
            parts = []
            for g in gs:
                its = []
                for it in g:
                    bad_len = None
                    if seq and len(it[0]) == 1:
                        # in-order match of the delivered text against the channel's samples on the wire
                        j = next((j for j in range(pos, len(seq)) if seq[j][0] == it[0][0]), None)
                        if j is not None:
                            bad_len, pos = seq[j][1], j + 1
                    its.append(canon_item(it, *layout[c], user, bad_len))
                parts.append("|".join(its))
            qs.append(f"q{i}=" + "/".join(parts))
    return ("ok " + " ".join(qs) + f" ovf={res['ovf']} subs=" + ",".join(".".join(map(str, l)) for l in res["subs"])
            + f" dead={int(res['dead'])} started={int(res['started'])} qlen={res['qlen']} errs="
            + ".".join(str(i) for i, _ in res["errs"]))


# ------------------------------------------------------------------------------------- layers A / B: oracle

def reference(case, events):
    """the property, per queue, under the harness schedule: what every queue must hold, how many frames must
    still be waiting, which calls must raise.  Written from the property text; knows nothing of nxslib."""
    n = len(case["layout"])
    en = list(case["init"])
    sub_of, want = [], []
    pend = []
    started = parked = False
    bad_calls = set()

    def process(frame):
        for q, c in enumerate(sub_of):
            if c is not None and en[c]:
                want[q] += [it for ch, it in frame if ch == c]

    for i, ev in enumerate(events):
        k = ev[0]
        if k in "fw":
            pend.append(frame_samples(case, ev))
        elif k == "i":
            if started:
                while pend:
                    process(pend.pop(0))
                parked = True
        elif k in "sn":
            c = int(ev[1:]) if k == "s" else n - 1 - int(ev[1:])
            if 0 <= c < n:
                sub_of.append(c)
                want.append([])
            else:
                bad_calls.add(i)
        elif k == "u":
            j = int(ev[1:])
            if j < len(sub_of):
                sub_of[j] = None
        elif k == "e":
            en = [b == "1" for b in ev[1:]]
        elif k == "S":
            if not started:
                started, parked = True, False
        elif k == "P":
            if started:
                if parked and pend:
                    process(pend.pop(0))
                started = parked = False
    return want, len(pend), bad_calls


def judge(case, line=None):
    """oracle for a frame-level case: the real code against `reference`, on the history up to (excluding) the
    first frame the decoder must reject (the property quantifies over frames a device may send)"""
    events = case["events"]
    cut = next((i for i, ev in enumerate(events) if ev[0] in "fxw" and frame_samples(case, ev) is None), len(events))
    events = events[:cut]
    res = drive(case, events)
    want, pending, bad_calls = reference(case, events)
    hist = ";".join(events)
    real_err = [(i, e) for i, e in res["errs"] if i not in bad_calls]
    if real_err:
        i, e = real_err[0]
        return {"key": "call-raises", "what": f"call {events[i]} (event {i}) raised {e}", "expected": "no exception",
                "observed": e, "history": hist}
    if res["thread_errors"] or res["dead"]:
        return {"key": "stream-thread-raises", "what": "the stream thread ended with an exception on a history of well-formed "
                f"frames: {res['thread_errors']}", "expected": "thread alive", "observed": str(res["thread_errors"]), "history": hist}
    if case["kind"] == "sys":
        flat = [[int(it[0][0]) for g in gs for it in g] for gs in res["groups"]]
    else:
        flat = [[it for g in gs for it in g] for gs in res["groups"]]
    if flat != want:
        q = next(i for i in range(max(len(flat), len(want))) if i >= len(flat) or i >= len(want) or flat[i] != want[i])
        w, f = (want[q] if q < len(want) else None), (flat[q] if q < len(flat) else None)
        return {"key": "delivery", "what": f"subscriber queue {q} did not receive exactly the in-order run of its channel's "
                f"samples: expected {len(w) if w is not None else '-'} samples {w}, received "
                f"{len(f) if f is not None else '-'} samples {f}", "expected": str(want)[:600], "observed": str(flat)[:600],
                "history": hist}
    if res["qlen"] != pending:
        return {"key": "not-consumed", "what": f"{res['qlen']} stream frames are still waiting in the stream queue, {pending} "
                "should be (a running stream thread must consume every frame, a stopped one none)",
                "expected": str(pending), "observed": str(res["qlen"]), "history": hist}
    if any(len(g) == 0 for gs in res["groups"] for g in gs):
        return {"key": "empty-group", "what": "an empty group was delivered", "expected": "-", "observed": str(res["groups"])[:300],
                "history": hist}
    return None


# ------------------------------------------------------------------------------------------- generators

def gen_events(rng, n, init, length, values, wire=None):
    """a history; `values(c)` draws the tag of a sample of channel c (abstract) ; wire=(layout,user) -> real payloads"""
    evs = []
    nq = 0
    if n and rng.random() < 0.7:
        # most histories begin with a useful configuration: some queues, some channels enabled
        for _ in range(rng.randrange(1, 4)):
            evs.append(f"s{rng.randrange(n)}")
            nq += 1
        if rng.random() < 0.7:
            evs.append("e" + "".join("1" if rng.random() < 0.7 else "0" for _ in range(n)))
    started = rng.random() < 0.75
    if started:
        evs.append("S")
    auto_i = rng.random() < 0.6          # most histories let the thread run after every frame
    last_frame = None
    for _ in range(length):
        r = rng.random()
        if r < 0.17:
            if rng.random() < 0.15 and n:
                evs.append(f"n{rng.randrange(n) if rng.random() < 0.9 else n + rng.randrange(2)}")
            else:
                evs.append(f"s{rng.randrange(n) if (n and rng.random() < 0.93) else n + rng.randrange(3)}")
            nq += 1
        elif r < 0.25 and nq:
            evs.append(f"u{rng.randrange(nq + 2)}")
        elif r < 0.35 and n:
            evs.append("e" + "".join(rng.choice("01") if rng.random() < 0.8 else "1" for _ in range(n)))
        elif r < 0.40:
            evs.append("S")
        elif r < 0.44:
            evs.append("P")
        elif r < 0.52:
            evs.append("i")
        else:
            if last_frame is not None and rng.random() < 0.2:
                fr = last_frame                     # byte-identical consecutive frame
            elif wire is None:
                rr = rng.random()
                if rr < 0.025:
                    fr = "x"
                else:
                    k = rng.choice([0, 0, 1, 1, 2, 3, 5, rng.randrange(0, 12)])
                    ss = []
                    for _ in range(k):
                        c = rng.randrange(n) if (n and rng.random() < 0.985) else n + rng.randrange(3)
                        ss.append(f"{c}.{values(c)}")
                    fr = f"f{rng.choice([0, 0, 0, 1, rng.randrange(256)])}:" + ",".join(ss)
            else:
                layout, user = wire
                k = rng.choice([0, 1, 1, 2, 3, 5])
                smps = [gen_wire_sample(rng, layout, user, rng.randrange(n)) for _ in range(k)] if n else []
                payload = sg.ref_wire(layout, user, smps, flags=rng.choice([0, 0, 1, rng.randrange(256)]))
                rr = rng.random()
                if rr < 0.03 and len(payload) > 1:
                    payload = payload[:rng.randrange(1, len(payload))]
                elif rr < 0.05 and n < 250:
                    payload += bytes([n + rng.randrange(3)])
                elif rr < 0.07:
                    payload = b""
                fr = "w" + sg.hexs(payload)
            evs.append(fr)
            last_frame = fr
            if auto_i:
                evs.append("i")
    if rng.random() < 0.8:
        evs.append("i")
    return evs


def gen_wire_sample(rng, layout, user, chan):
    """a sample whose values survive a python round trip bit for bit (no NaN / inf); text also NUL-padded / not valid UTF-8"""
    c, vals, meta = gen.gen_sample(rng, layout, user, chan, for_encode=True)
    out = []
    ty, vdim, _ = layout[chan]
    atoms = sg.sample_atoms(ty, vdim, user)
    if sg.dtype_of(ty, user) == sg.CHAR and len(atoms) == 1 and rng.random() < 0.6:
        # text as a device may send it: NUL padding, bytes that are not valid UTF-8 (rendered by the library as it likes)
        vals = [gen.gen_atom_value(rng, atoms[0][0], atoms[0][1], sg.frac_of(ty), False, True)]
    for v in vals:
        if v[:2] == "f:" and (int(v[2:], 16) & 0x7f800000) == 0x7f800000:
            v = "f:" + format(rng.choice([0x3f800000, 0xc0490fdb, 0x00000001]), "08x")
        if v[:2] == "d:" and (int(v[2:], 16) & 0x7ff0000000000000) == 0x7ff0000000000000:
            v = "d:" + format(rng.choice([0x3ff0000000000000, 0xc00921fb54442d18, 0x1]), "016x")
        out.append(v)
    return c, out, meta


def value_source(rng):
    """tags: globally unique (position), or drawn from {0,1} (constant / repeating signals)"""
    mode = rng.choice(["unique", "bits", "bits", "const"])
    cnt = [0]

    def nxt(c):
        if mode == "unique":
            cnt[0] += 1
            return cnt[0]
        if mode == "const":
            return 1
        return rng.randrange(2)
    return nxt, mode


# ------------------------------------------------------------------------------------- layer C: sessions

def gen_session(rng, kind=None):
    """a session script (JSON-able dict)"""
    kind = kind or rng.choice(["mixed", "mixed", "mixed", "inflight", "enabled-at-connect", "stall", "identical", "restart",
                               "badframe", "enable-race", "enable-race", "long", "reconnect", "big"])
    n = rng.choice([1, 2, 2, 3, 5, 8])
    types = [rng.choice([2, 3, 4, 6, 7, 9, 10, 11, 12, 15]) for _ in range(n)]
    layout = [(t, rng.choice([1, 1, 2, 3]), rng.choice([0, 0, 1, 2, 4])) for t in types]
    init = [rng.random() < (0.6 if kind == "enabled-at-connect" else 0.3) for _ in range(n)]
    if kind == "enabled-at-connect" and not any(init):
        init[rng.randrange(n)] = True
    flags = rng.choice([3, 3, 2, 1, 0])
    small = rng.random() < 0.5 or kind == "identical"
    dev_en = list(init)                    # what the device will have enabled (requests are always acknowledged)
    new = list(init)
    ev = []
    nq = 0
    started = False

    def frames(k, en=None):
        out = []
        for _ in range(k):
            cs = [c for c in range(n) if (dev_en if en is None else en)[c]]
            if rng.random() < 0.12:
                cs = list(range(n))          # a device that is slow to apply a disable: samples of disabled channels
            ns = rng.choice([0, 1, 1, 2, 3, 4]) if cs else 0
            smp = []
            for _ in range(ns):
                c = rng.choice(cs)
                smp.append([c, rng.randrange(2) if small else rng.randrange(100)])
            fr = {"flags": rng.choice([0, 0, 1, rng.randrange(256)]), "smp": smp}
            if out and rng.random() < 0.25:
                fr = dict(out[-1])          # byte-identical retransmission
            out.append(fr)
        return out

    def commit():
        nonlocal dev_en
        dev_en = list(new)

    # the client does NOT (re-)enable channels that are enabled at connect in 'enabled-at-connect' sessions
    for c in range(n):
        if rng.random() < 0.5:
            ev.append(["sub", c])
            nq += 1
    if kind != "enabled-at-connect" or rng.random() < 0.3:
        cs = [c for c in range(n) if not new[c] and rng.random() < 0.6]
        if cs:
            for c in cs:
                new[c] = True
            ev.append(["en", cs, False])
    ev.append(["start"])
    commit()
    started = True
    steps = rng.randrange(4, 14)
    for _ in range(steps):
        r = rng.random()
        quiet = kind not in ("inflight",) and (rng.random() < 0.55 or kind == "big")
        if rng.random() < (0.35 if kind == "reconnect" else 0.04):
            # a second module that shares the handler "makes sure it is connected": a no-op on a connected handler
            ev.append(["connect"])
        if kind == "big" and r < 0.30 and any(dev_en):
            # ONE stream frame with very many samples of one channel ("zero to many samples per frame"): longer than
            # 16 KiB, longer than 32 KiB, or as long as the 16-bit length field allows (<= 65535 bytes)
            c = rng.choice([c for c in range(n) if dev_en[c]])
            total = rng.choice([rng.randrange(16400, 20000), rng.randrange(32800, 36000), 65535, rng.randrange(60000, 65536)])
            ev.append(["big", c, big_count(layout, c, total), rng.choice([0, 1000])])
        elif r < 0.40:
            ev.append(["frames", frames(rng.choice([1, 1, 2, 3, 5]))])
        elif r < 0.52:
            ev.append(["sub", rng.randrange(n)] if rng.random() < 0.9 else ["subneg", rng.randrange(n)])
            nq += 1
        elif r < 0.60 and nq:
            ev.append(["unsub", rng.randrange(nq + 1)])
        elif r < 0.72:
            c = rng.randrange(n)
            wn = rng.random() < 0.7
            new[c] = not new[c]
            if wn and started and new != dev_en and kind != "big" and (kind == "enable-race" or rng.random() < 0.15):
                # the device streams the new configuration between applying the request and acknowledging it
                ev.append(["arm", frames(rng.choice([1, 1, 2, 3]), new)])
            ev.append(["en" if new[c] else "dis", [c], wn])
            if wn:
                commit()
        elif r < 0.78:
            if started and new != dev_en and kind != "big" and (kind == "enable-race" or rng.random() < 0.15):
                ev.append(["arm", frames(rng.choice([1, 1, 2, 3]), new)])
            ev.append(["write"])
            commit()
        elif r < 0.86 and kind in ("restart", "mixed", "inflight", "badframe"):
            if started:
                ev.append(["stop"])
                started = False
            else:
                ev.append(["start"])
                commit()
                started = True
        elif r < 0.92 and kind == "stall" and started:
            ev.append(["stall", rng.choice([0.3, 1.2, 1.6, 1.9])])
            ev.append(["frames", frames(1)])
            ev.append(["sleep", 0.05])
            if rng.random() < 0.7:
                ev.append(["stop"])
                ev.append(["start"])
                commit()
                ev.append(["frames", frames(rng.choice([1, 2]))])
            quiet = True
        elif r < 0.97 and kind == "badframe":
            # a frame the decoder rejects (unknown channel / truncated sample): the stream thread ends; K only
            ty, vdim, mlen = layout[0]
            size = sg.STD[ty][1] * vdim + mlen
            bad = bytes([0, n + rng.randrange(3)]) if rng.random() < 0.5 else bytes([0, 0]) + bytes(max(0, size - 1))
            ev.append(["raw", bad.hex()])
        else:
            ev.append(["sleep", rng.choice([0.0, 0.005, 0.02, 0.3])])
        if quiet:
            ev.append(["quiesce"])
    if not started:
        ev.append(["start"])
        commit()
    ev.append(["frames", frames(2)])
    ev.append(["quiesce"])
    if kind == "long":
        # more frames in one go than any plausible bound on the stream-frame queue: nothing may be lost or reordered
        cs = [c for c in range(n) if dev_en[c]]
        if not cs:
            cs = [rng.randrange(n)]
            new[cs[0]] = True
            ev.append(["en", cs, True])
            commit()
        if not any(e[0] == "sub" and e[1] in cs for e in ev):
            ev.append(["sub", cs[0]])
        ev.append(["burst", rng.choice([2050, 2200, 2600]), cs[:2], 1000])
        ev.append(["quiesce"])
    return {"kind": kind, "layout": layout, "init": init, "flags": flags, "events": ev, "small": small}


def session_payload(layout, fr):
    """STREAM payload of a scripted frame + the python values of its samples [(chan, (data, meta))]"""
    body = bytes([fr["flags"] & 0xFF])
    smp = []
    for c, v in fr["smp"]:
        ty, vdim, mlen = layout[c]
        code, size, frac = sg.STD[ty]
        data = []
        body += bytes([c])
        mod = 100 if v < 100 else min(1 << (8 * size - 1), 1 << 20)     # long runs: values as distinct as the type allows
        for k in range(vdim):
            x = (v + k) % mod
            if code in "fd":
                body += struct.pack("<" + code, float(x))
                data.append(float(x))
            else:
                body += x.to_bytes(size, "little")
                data.append(x / (1 << frac) if frac else x)
        mb = bytes((v + 7 * k) & 0xFF for k in range(mlen))
        body += mb
        if mlen == 0:
            meta = ()
        elif mlen in sg.META_SINGLE:
            meta = (int.from_bytes(mb, "little"),)
        else:
            meta = tuple(mb)
        smp.append((c, (tuple(data), meta)))
    return body, smp


def burst_frames(e):
    """["burst", count, [channels], base] -> count frames, frame i carrying one sample (value base + i) of every listed channel"""
    _, count, chs, base = e
    return [{"flags": 0, "smp": [[c, base + i] for c in chs]} for i in range(count)]


FRAME_OVERHEAD = 6          # start byte, 16-bit length, frame id; 16-bit checksum
FRAME_MAX = 65535           # the length field of a frame is 16 bit


def sample_size(layout, c):
    ty, vdim, mlen = layout[c]
    return 1 + sg.STD[ty][1] * vdim + mlen


def big_count(layout, c, total):
    """the number of samples of channel c in the longest STREAM frame of at most `total` bytes on the wire"""
    return (min(total, FRAME_MAX) - FRAME_OVERHEAD - 1) // sample_size(layout, c)


def big_frame(e):
    """["big", chan, count, base] -> ONE frame carrying `count` samples (values base, base + 1, ...) of channel chan"""
    _, c, count, base = e
    return {"flags": 0, "smp": [[c, base + i] for i in range(count)]}


def run_session(script, preempt_seed=None):
    """execute a session script on the real library (vsim, reference device); -> dict(log, timeline, delivered, ...)"""
    import vsim
    import refdev
    layout, init, n = script["layout"], script["init"], len(script["layout"])
    out = {}

    def scenario(sim):
        from nxslib.nxscope import NxscopeHandler
        from nxslib.proto.parse import Parser
        import queue as realqueue

        log = []          # raw linearisation log (K)
        timeline = []     # (kind, detail, begin, end, err): what an observer outside the library sees (O); begin / end
        #                   are ORDER stamps of the harness's own actions (virtual times can tie)
        stamp = [0]

        def tick():
            stamp[0] += 1
            return stamp[0]
        sent = []         # per sent frame: dict(payload, smp, t)
        matched = [0]

        class StallParser(Parser):
            stall_next = 0.0

            def frame_stream_decode(self, frame, dev):
                d, StallParser.stall_next = StallParser.stall_next, 0.0
                if d:
                    vsim.vsleep(d)
                return super().frame_stream_decode(frame, dev)

        armed = []        # frames the device emits right after APPLYING the next enable request, before its ACK

        def policy(dev, kind, req):
            if kind == "enable" and armed:
                # a device that starts emitting a newly enabled channel at once: apply, stream, then acknowledge
                dev._apply_set(kind, req)
                timeline.append(("applied", [bool(x) for x in dev.en], tick(), tick(), None))
                for fr in armed.pop(0):
                    payload, smp = session_payload(layout, fr)
                    sent.append({"payload": payload, "smp": smp, "t": tick(), "vt": sim.now, "flags": fr["flags"]})
                    dev._send(refdev.STREAM, payload)
            return "ack"

        chans = [dict(en=bool(init[i]), type=ty, vdim=vdim, div=0, mlen=mlen, name=f"c{i}") for i, (ty, vdim, mlen) in enumerate(layout)]
        dev = refdev.RefDevice(chans, flags=script["flags"], policy=policy)
        r = __import__("random").Random(script.get("chunk_seed", 0))
        link = refdev.make_link(sim, dev, chunker=(lambda k: r.randrange(1, k + 1)) if script.get("chunk_seed") else None)
        nx = NxscopeHandler(link, StallParser())
        comm = nx._comm
        nx.connect()
        main_task = sim.cur
        at_connect = set(map(id, sim.live_tasks()))      # the library's threads that exist before any stream_start
        # K only: the linearisation is OBSERVED on the library's own objects (method wrappers on the existing stream-frame
        # queue and on `ch_is_enabled`); nothing the library created is replaced.  The oracle never looks at this log.
        sq = getattr(comm, "_q_stream", None)
        traced = sq is not None and callable(getattr(sq, "put", None)) and callable(getattr(sq, "get", None))
        if traced:
            lib_put, lib_get = sq.put, sq.get

            def rec_put(item, *a, **kw):
                k = next((j for j in range(matched[0], len(sent)) if sent[j]["payload"] == bytes(item.data)), None)
                if k is not None:
                    matched[0] = k + 1
                try:
                    item._c08_idx = k
                except Exception:
                    pass
                log.append(("arrive", k))
                return lib_put(item, *a, **kw)

            def rec_get(*a, **kw):
                item = lib_get(*a, **kw)
                # whoever takes a frame and is not the application thread is the stream thread (whatever its name)
                log.append(("drop" if sim.cur is main_task else "take", getattr(item, "_c08_idx", None)))
                return item
            try:
                sq.put, sq.get = rec_put, rec_get
            except Exception:
                traced = False
        real_chk = comm.ch_is_enabled

        def chk(chan):
            v = real_chk(chan)
            if sim.cur is not None and sim.cur is not main_task:
                log.append(("chk", chan, v))
            return v
        comm.ch_is_enabled = chk
        queues, qchan = [], []
        new = list(init)
        started = False

        def call(kind, detail, fn, rec=None):
            t0 = tick()
            err = None
            try:
                fn()
            except Exception as e:
                err = exc_name(e)
            if rec is not None and err is None:
                for x in rec():
                    log.append(x)
            timeline.append((kind, detail, t0, tick(), err))
            if kind in ("commit", "start"):
                armed.clear()         # an arm not consumed by this configuration write (nothing to request) is void

        for e in script["events"]:
            k = e[0]
            if k in ("frames", "burst", "big"):
                for fr in (e[1] if k == "frames" else burst_frames(e) if k == "burst" else [big_frame(e)]):
                    payload, smp = session_payload(layout, fr)
                    if len(payload) + FRAME_OVERHEAD > FRAME_MAX:
                        raise ValueError(f"script asks for a frame of {len(payload) + FRAME_OVERHEAD} bytes")
                    sent.append({"payload": payload, "smp": smp, "t": tick(), "vt": sim.now, "flags": fr["flags"]})
                    dev._send(refdev.STREAM, payload)
            elif k == "connect":
                # connect() on the connected handler (documented no-op); the stream keeps running, nothing is unsubscribed
                call("connect-again", None, nx.connect)
            elif k == "raw":
                sent.append({"payload": bytes.fromhex(e[1]), "smp": None, "t": tick(), "vt": sim.now, "flags": 0})
                dev._send(refdev.STREAM, bytes.fromhex(e[1]))
            elif k in ("sub", "subneg"):
                c = e[1] if k == "sub" else -(e[1] + 1)

                def do(c=c):
                    queues.append(nx.stream_sub(c))
                    qchan.append(c % n)
                call("sub", c % n, do, lambda k=k, e=e: [("api", ("s%d" if k == "sub" else "n%d") % e[1])])
            elif k == "unsub":
                j = e[1]
                q = queues[j] if j < len(queues) else realqueue.Queue()
                call("unsub" if j < len(queues) else "unsub-foreign", j, lambda q=q: nx.stream_unsub(q),
                     lambda j=j: [("api", f"u{j}" if j < len(queues) else "u99")])
            elif k in ("en", "dis"):
                cs, wn = e[1], e[2]
                for c in cs:
                    new[c] = (k == "en")
                fn = (nx.ch_enable if k == "en" else nx.ch_disable)
                arg = cs[0] if len(cs) == 1 else cs
                if wn:
                    call("commit", list(new), lambda: fn(arg, True), lambda: [("api", "e" + bitstr(new))])
                else:
                    call("buffer", list(new), lambda: fn(arg))
            elif k == "write":
                call("commit", list(new), nx.channels_write, lambda: [("api", "e" + bitstr(new))])
            elif k == "start":
                if not started:
                    call("start", list(new), nx.stream_start, lambda: [("api", "e" + bitstr(new)), ("api", "S")])
                    started = True
                else:
                    call("start-again", None, nx.stream_start)
            elif k == "stop":
                if started:
                    call("stop", None, nx.stream_stop, lambda: [("api", "T")])
                    started = False
                else:
                    call("stop-again", None, nx.stream_stop)
            elif k == "arm":
                armed.append(e[1])
            elif k == "stall":
                StallParser.stall_next = e[1]
            elif k == "sleep":
                vsim.vsleep(e[1])
            elif k == "quiesce":
                t0 = tick()
                vsim.vsleep(2.5)
                timeline.append(("quiesce", None, t0, tick(), None))
            else:
                raise ValueError(e)
        delivered = []
        for q in queues:
            items = []
            while not q.empty():
                items += [(tuple(x.data), tuple(x.meta)) for x in q.get_nowait()]
            delivered.append(items)
        # threads started after connect (= by stream_start), found without relying on their names
        later = [t for t in sim.live_tasks() if id(t) not in at_connect]
        out.update(log=list(log) if traced else None, timeline=timeline, sent=sent, delivered=delivered, qchan=qchan,
                   qlen=sq.qsize() if traced and callable(getattr(sq, "qsize", None)) else None, started=started,
                   dead=bool(nx._stream_started and not nx._thrd.thread_is_alive()),
                   subs=[[queues.index(q) for q in l if q in queues] for l in nx._sub_q],
                   stream_threads=len(later), unused_arms=len(armed))
        nx.disconnect()
        StallParser.stall_next = 0.0

    r, sim = vsim.run_sim(scenario, time_limit=5000.0, real_limit=30.0)
    out["errors"] = [(name, exc_name(e)) for name, e, _ in sim.errors]
    if isinstance(r, BaseException):
        out["failure"] = repr(r)
    return out


def session_trace(script, res):
    """the recorded log as a `fan sys` line + tag table.  Linearisation (see Fanout.lean): a frame takes effect when
    the stream thread fans it out; sub/unsub made while a frame is being processed go in front of it; an enable
    change between the enabled-tests of two samples splits the frame there."""
    sent = res["sent"]
    tags = {}            # tag -> (data, meta)
    frame_txt = {}       # frame index -> list of (chan, tag)
    g = 0
    for k, fr in enumerate(sent):
        if fr["smp"] is None:
            frame_txt[k] = None
            continue
        l = []
        for c, item in fr["smp"]:
            tags[g] = item
            l.append((c, g))
            g += 1
        frame_txt[k] = l
    log = res["log"]
    # pass 1: per taken frame, the API events that fall inside its processing window and the split points
    takes = {}           # position in log of a take -> dict(idx, subs=[...], splits=[(pos, ev)])
    cur = None
    consumed_api = set()
    for p, x in enumerate(log):
        if x[0] == "take":
            cur = {"idx": x[1], "pos": 0, "n": len(frame_txt.get(x[1]) or []), "subs": [], "splits": []}
            takes[p] = cur
        elif x[0] == "chk" and cur is not None:
            cur["pos"] += 1
        elif x[0] == "api" and cur is not None and cur["pos"] < cur["n"]:
            if x[1][0] in "snu":
                cur["subs"].append(x[1])
                consumed_api.add(p)
            elif x[1][0] == "e":
                cur["splits"].append((cur["pos"], x[1]))
                consumed_api.add(p)
            # S / T cannot happen while a frame is in progress (stop joins the thread)
    split_of = {t["idx"]: t for t in takes.values() if t["splits"]}
    evs = []

    def ftxt(flags, part):
        return f"f{flags}:" + ",".join(f"{c}.{t}" for c, t in part)

    for p, x in enumerate(log):
        if x[0] == "arrive":
            k = x[1]
            if k is None:
                evs.append("x")                     # a frame the device never sent: let the model die on it
            elif frame_txt[k] is None:
                evs.append("x")
            elif k in split_of:
                cuts = [0] + [pos for pos, _ in split_of[k]["splits"]] + [len(frame_txt[k])]
                for j in range(len(cuts) - 1):
                    evs.append(ftxt(sent[k]["flags"] if j == 0 else 0, frame_txt[k][cuts[j]:cuts[j + 1]]))
            else:
                evs.append(ftxt(sent[k]["flags"], frame_txt[k]))
        elif x[0] == "take":
            t = takes[p]
            evs += t["subs"]
            evs.append("I")
            for _, e in t["splits"]:
                evs.append(e)
                evs.append("I")
        elif x[0] == "api" and p not in consumed_api:
            evs.append(x[1])
    return "fan sys " + bitstr(script["init"]) + " " + (";".join(evs) or "-"), tags


def session_oracle(script, res):
    """what the device sent against what the queues received, from send / call / quiesce times only"""
    if res.get("failure"):
        return {"key": "session-failure", "what": "the streaming session did not complete: " + res["failure"],
                "expected": "-", "observed": res["failure"]}
    tl = res["timeline"]
    n = len(script["layout"])
    bad_t = min([fr["t"] for fr in res["sent"] if fr["smp"] is None], default=float("inf"))
    if res["errors"] and bad_t == float("inf"):
        nd = [len(x) for x in res["delivered"]]
        return {"key": "stream-thread-raises", "what": f"a library thread ended with an exception: {res['errors']} while the device "
                f"sent only well-formed stream frames (flags, [(channel, sample)]): "
                f"{[(fr['flags'], [(c, it[0]) for c, it in fr['smp']]) for fr in res['sent']][:16]}; samples received per queue {nd}",
                "expected": "no exception", "observed": str(res["errors"])}
    for kind, detail, t0, t1, err in tl:
        if err:
            return {"key": "call-raises", "what": f"{kind} {detail} raised {err}", "expected": "no exception", "observed": err}
    quiesces = [(t0, t1) for kind, _, t0, t1, _ in tl if kind == "quiesce"]
    end = max([t1 for _, _, _, t1, _ in tl] + [0.0])
    # intervals in which the stream is certainly started
    started_iv = []
    s0 = None
    for kind, _, t0, t1, _ in tl:
        if kind == "start":
            s0 = t1
        elif kind == "stop" and s0 is not None:
            started_iv.append((s0, t0))
            s0 = None
    if s0 is not None:
        started_iv.append((s0, float("inf")))
    # a configuration write: (begin, end, requested vector, step at which the DEVICE had applied it if the device told us)
    applied = [(t0, vec) for kind, vec, t0, _, _ in tl if kind == "applied"]
    commits = []
    for kind, vec, t0, t1, _ in tl:
        if kind in ("commit", "start"):
            ta = next((ta for ta, av in applied if t0 < ta < t1 and [bool(x) for x in av] == [bool(x) for x in vec]), None)
            commits.append((t0, t1, vec, ta))

    def enabled_state(c, a, b):
        """True / False if channel c is certainly enabled / disabled during all of [a, b], else None.  A channel the client
        asked to ENABLE counts as enabled from the moment the device has applied the request (a device emits samples of
        a channel only after that: they are samples of a channel the client has enabled); a disable counts from the
        return of the call"""
        v = bool(script["init"][c])
        for t0, t1, vec, ta in commits:
            sure = ta if (ta is not None and bool(vec[c])) else t1
            if sure <= a:
                v = bool(vec[c])
            elif t0 <= b:
                if bool(vec[c]) != v:
                    return None
        return v

    subs = [(d, t0, t1) for kind, d, t0, t1, err in tl if kind == "sub" and not err]
    unsubs = {d: (t0, t1) for kind, d, t0, t1, _ in reversed(tl) if kind == "unsub"}
    for q, (c, sb, se) in enumerate(subs):
        ub, ue = unsubs.get(q, (float("inf"), float("inf")))
        cand = []      # (label, item) of every sample of channel c the device sent, in order
        src = []       # per candidate: number of the stream frame that carried it
        for fno, fr in enumerate(res["sent"]):
            if fr["smp"] is None:
                continue
            ts = fr["t"]
            tq = next((t1 for t0, t1 in quiesces if t0 >= ts), None)
            for ch, item in fr["smp"]:
                if ch != c:
                    continue
                if ts >= bad_t or tq is None:
                    lab = "may"
                else:
                    en = enabled_state(c, ts, tq)
                    subscribed = True if (se <= ts and ub >= tq) else (False if (sb >= tq or ue <= ts) else None)
                    running = any(a <= ts and tq <= b for a, b in started_iv)
                    if not running:
                        lab = "may"      # not processed for certain before the quiesce: it waits in the stream queue
                    elif en is False or subscribed is False:
                        lab = "not"
                    elif en is True and subscribed is True:
                        lab = "must"
                    else:
                        lab = "may"
                cand.append((lab, item))
                src.append(fno)
        got = res["delivered"][q]
        musts = [it for lab, it in cand if lab == "must"]
        # increasing matching of `got` into `cand`: every must used, no not used, equal values.  Certain ends first (a
        # 'must' at either end can only be matched by the received sample at that end): long runs stay linear
        fits = True
        full_cand, full_got = cand, got
        cand, got = list(cand), list(got)
        lo_c = lo_g = 0
        while fits and lo_c < len(cand) and cand[lo_c][0] != "may":
            if cand[lo_c][0] == "must":
                fits = lo_g < len(got) and got[lo_g] == cand[lo_c][1]
                lo_g += 1
            lo_c += 1
        cand, got = cand[lo_c:], got[min(lo_g, len(got)):]
        while fits and cand and cand[-1][0] != "may":
            if cand[-1][0] == "must":
                fits = bool(got) and got[-1] == cand[-1][1]
                if got:
                    got.pop()
            cand.pop()
        if fits:
            m = len(cand)
            prev = [True] + [False] * m
            for j in range(1, m + 1):
                prev[j] = prev[j - 1] and cand[j - 1][0] != "must"
            for i in range(1, len(got) + 1):
                curr = [False] * (m + 1)
                for j in range(1, m + 1):
                    ok = curr[j - 1] and cand[j - 1][0] != "must"
                    if not ok and prev[j - 1] and cand[j - 1][0] != "not" and cand[j - 1][1] == got[i - 1]:
                        ok = True
                    curr[j] = ok
                prev = curr
            fits = prev[m]
        cand, got = full_cand, full_got
        if not fits:
            p = next((i for i in range(min(len(got), len(musts))) if got[i] != musts[i]), min(len(got), len(musts)))
            lo = max(0, p - 3)
            must_src = [f for (lab, _), f in zip(cand, src) if lab == "must"]
            where = ""
            if p < len(must_src):
                fr = res["sent"][must_src[p]]
                calls = [kind for kind, _, t0, _, _ in tl if t0 < fr["t"] and kind not in ("applied", "quiesce")]
                where = (f"  That certain sample was sent in stream frame #{must_src[p]} of the session: "
                         f"{len(fr['payload']) + FRAME_OVERHEAD} bytes on the wire, {len(fr['smp'])} samples, flags {fr['flags']}; "
                         f"calls made before it: {calls[-12:]}.")
            return {"key": "session-delivery",
                    "what": f"queue {q} (channel {c}, subscribed at step {se}"
                            + (f", unsubscribed at step {ub}" if ub != float("inf") else "")
                            + f") received {len(got)} samples; the device sent {len(cand)} samples for that channel, {len(musts)} of "
                            f"them 'must' (sent, subscribed, enabled and processed-by-quiesce for certain; 'not' = certainly not "
                            f"subscribed / not enabled): there is no in-order, duplicate-free assignment of the received samples "
                            f"to the sent ones that uses every 'must' and no 'not'.  First deviation from the certain run at "
                            f"position {p}: received {got[lo:p + 4]}, certain {musts[lo:p + 4]}.{where}  Received (head) {got[:30]}; "
                            f"sent (head) {[(lab, it) for lab, it in cand][:40]}",
                    "expected": str(musts[lo:lo + 40])[:500], "observed": str(got[lo:lo + 40])[:500]}
    if res["stream_threads"] > 1:
        return {"key": "two-stream-threads", "what": f"{res['stream_threads']} stream threads are alive at the end of the session",
                "expected": "1", "observed": str(res["stream_threads"])}
    return None


def session_check(script):
    """-> (violation dict | None, correspondence disagreement str | None, stats)"""
    res = run_session(script)
    v = session_oracle(script, res)
    if v:
        v["script"] = script
        v["case"] = "session " + script["kind"]
    dis = None
    if not res.get("failure") and res.get("log") is not None:
        line, tags = session_trace(script, res)
        try:
            mo = common.driver_run([line])[0]
        except Exception as e:      # no model driver (it does not build on this tree): the oracle alone judges
            return v, None, res
        want = model_queues(mo)
        if want is None:
            dis = f"model rejected the trace: {mo} for {line[:300]}"
        else:
            qs, dead, qlen = want
            exp = [[tags[t] for t in l] for l in qs]
            if exp != res["delivered"] or dead != res["dead"] or qlen != res["qlen"]:
                dis = (f"session trace {line[:1500]} : model queues {exp} dead={dead} qlen={qlen}; real queues {res['delivered']} "
                       f"dead={res['dead']} qlen={res['qlen']}")
    return v, dis, res


def model_queues(out):
    if not out.startswith("ok"):
        return None
    qs = []
    dead = qlen = None
    for part in out.split(" ")[1:]:
        if part.startswith("q") and "=" in part and part[1:part.index("=")].isdigit():
            body = part.split("=", 1)[1]
            qs.append([int(t) for g in body.split("/") if g for t in g.split(".")])
        elif part.startswith("dead="):
            dead = part[5:] == "1"
        elif part.startswith("qlen="):
            qlen = int(part[5:])
    return qs, dead, qlen


R3M2_SCRIPT = {"kind": "stall", "layout": [U32], "init": [False], "flags": 3, "small": False, "events": [
    ["sub", 0], ["en", [0], False], ["start"], ["frames", [{"flags": 0, "smp": [[0, 1], [0, 2]]}]], ["quiesce"],
    ["stall", 1.6], ["frames", [{"flags": 0, "smp": [[0, 3], [0, 4]]}]], ["sleep", 0.05], ["stop"], ["start"],
    ["frames", [{"flags": 0, "smp": [[0, 5], [0, 6]]}]], ["quiesce"]]}
R3M1_SCRIPT = {"kind": "enabled-at-connect", "layout": [U32, U32], "init": [True, False], "flags": 3, "small": False, "events": [
    ["sub", 0], ["sub", 1], ["en", [1], False], ["start"],
    ["frames", [{"flags": 0, "smp": [[0, 1], [1, 11], [0, 2], [1, 12]]}]], ["quiesce"]]}
BACKLOG_SCRIPT = {"kind": "inflight", "layout": [U32], "init": [True], "flags": 3, "small": True, "events": [
    ["sub", 0], ["start"], ["frames", [{"flags": 0, "smp": [[0, 1]]}, {"flags": 0, "smp": [[0, 1]]}, {"flags": 0, "smp": [[0, 0]]},
                                      {"flags": 0, "smp": [[0, 0]]}, {"flags": 0, "smp": [[0, 1], [0, 1]]}]], ["quiesce"]]}


# a channel enabled while the stream runs; the device streams it at once and acknowledges afterwards (C08-r4m1)
ENRACE_SCRIPT = {"kind": "enable-race", "layout": [U32, U32], "init": [False, False], "flags": 3, "small": False, "events": [
    ["sub", 0], ["sub", 1], ["en", [0], False], ["start"], ["frames", [{"flags": 0, "smp": [[0, 1]]}]], ["quiesce"],
    ["arm", [{"flags": 0, "smp": [[1, 10], [1, 11], [0, 2]]}]], ["en", [1], True],
    ["frames", [{"flags": 0, "smp": [[0, 3], [1, 12]]}]], ["quiesce"]]}
# more frames in one burst than any plausible bound on the stream-frame queue (R4-B-H1)
LONG_SCRIPT = {"kind": "long", "layout": [U32], "init": [False], "flags": 3, "small": False, "events": [
    ["sub", 0], ["en", [0], False], ["start"], ["burst", 2100, [0], 1000], ["quiesce"]]}
LONG2_SCRIPT = {"kind": "long", "layout": [U32, (2, 2, 1)], "init": [True, False], "flags": 1, "small": False, "events": [
    ["sub", 0], ["sub", 1], ["en", [1], False], ["start"], ["burst", 300, [0, 1], 1000], ["quiesce"], ["sub", 0],
    ["stall", 1.2], ["burst", 2050, [1, 0], 5000], ["quiesce"], ["unsub", 0], ["burst", 100, [0], 9000], ["quiesce"]]}
# overflow-flagged frames without samples between ordinary ones (C08-r4m2)
OVF_EMPTY_SCRIPT = {"kind": "identical", "layout": [U32, U32], "init": [True, True], "flags": 1, "small": False, "events": [
    ["sub", 0], ["sub", 0], ["sub", 1], ["start"],
    ["frames", [{"flags": 0, "smp": [[0, 1], [1, 50], [0, 2]]}, {"flags": 1, "smp": [[0, 3]]}, {"flags": 0, "smp": []},
                {"flags": 0, "smp": [[1, 51], [1, 52]]}, {"flags": 1, "smp": []}, {"flags": 0, "smp": [[0, 4], [1, 53], [0, 5]]},
                {"flags": 0, "smp": [[0, 6]]}]], ["quiesce"]]}
# connect() again on the connected handler while two queues are subscribed and the stream runs (C08-r5m1): nothing was
# stopped, nothing was unsubscribed, so every sample sent afterwards still reaches the old queues; a later unsubscribe works
RECONNECT_SCRIPT = {"kind": "reconnect", "layout": [(5, 1, 0), (5, 1, 0)], "init": [False, False], "flags": 3, "small": False, "events": [
    ["sub", 0], ["sub", 0], ["en", [0, 1], False], ["start"], ["frames", [{"flags": 0, "smp": [[0, 1], [0, 2], [0, 3]]}]], ["quiesce"],
    ["connect"], ["sub", 1], ["frames", [{"flags": 0, "smp": [[0, 4], [0, 5], [0, 6]]}, {"flags": 0, "smp": [[0, 7], [0, 8], [0, 9]]},
                                         {"flags": 0, "smp": [[1, 11]]}]], ["quiesce"],
    ["connect"], ["unsub", 0], ["sub", 0], ["frames", [{"flags": 0, "smp": [[0, 10], [1, 12]]}]], ["quiesce"]]}
# single stream frames of 18007 bytes (6000 INT16 samples, > 16 KiB), 35007 bytes (7000 UINT32 samples, > 32 KiB) and 65535
# bytes (32764 UINT8 samples: the largest frame the 16-bit length field allows) between ordinary frames (C08-r5m2)
BIG_SCRIPT = {"kind": "big", "layout": [(5, 1, 0), U32, (2, 1, 0)], "init": [False, True, False], "flags": 3, "small": False, "events": [
    ["sub", 0], ["sub", 1], ["sub", 2], ["sub", 2], ["en", [0, 2], False], ["start"],
    ["frames", [{"flags": 0, "smp": [[0, 1], [0, 2], [0, 3]]}]], ["big", 0, 6000, 1000], ["frames", [{"flags": 0, "smp": [[0, 4], [1, 5], [0, 6]]}]],
    ["quiesce"],
    ["big", 1, 7000, 2000], ["frames", [{"flags": 0, "smp": [[1, 7], [2, 8]]}]], ["quiesce"],
    ["big", 2, 32764, 0], ["frames", [{"flags": 1, "smp": [[2, 9], [0, 10], [1, 11]]}]], ["quiesce"]]}
BIG_CHUNKED_SCRIPT = dict(BIG_SCRIPT, chunk_seed=508, events=[
    ["sub", 0], ["sub", 1], ["en", [0], False], ["start"],
    ["frames", [{"flags": 0, "smp": [[1, 1]]}]], ["big", 1, 13105, 1000], ["big", 0, 5460, 0],
    ["frames", [{"flags": 0, "smp": [[0, 2], [1, 3]]}]], ["quiesce"]])
FIXED_SCRIPTS = [R3M1_SCRIPT, R3M2_SCRIPT, BACKLOG_SCRIPT, ENRACE_SCRIPT, OVF_EMPTY_SCRIPT, LONG_SCRIPT, LONG2_SCRIPT,
                 RECONNECT_SCRIPT, BIG_SCRIPT, BIG_CHUNKED_SCRIPT]


# ----------------------------------------------------------------------- schedules: concurrent unsubscribe

def concurrent_unsub(seed):
    """an application thread unsubscribes (and subscribes) WHILE the stream thread is delivering a frame, under
    pre-emption at every lock / queue / link operation.  Steering uses only what an application can see: the app thread
    waits until the first subscriber queue of the channel (never unsubscribed) has received a new group — the fan-out
    of that frame is then in progress — and then runs against the stream thread under the seeded scheduler.
    Judged at the subscriber queues only:
      * a queue subscribed throughout holds every sample the device sent, in order;
      * an unsubscribed queue holds a gap-free prefix, and NOTHING is put on it after `stream_unsub` returned;
      * a queue subscribed meanwhile holds a gap-free run that ends with the last sample sent and contains everything
        sent after `stream_sub` returned."""
    import random
    import vsim
    import refdev
    res = {}

    def scenario(sim):
        from nxslib.nxscope import NxscopeHandler
        from nxslib.proto.parse import Parser
        r = random.Random(seed)
        chans = [dict(en=False, type=6, vdim=1, div=0, mlen=0, name="c0"), dict(en=False, type=6, vdim=1, div=0, mlen=0, name="c1")]
        dev = refdev.RefDevice(chans, flags=r.choice([3, 3, 1]))
        link = refdev.make_link(sim, dev)
        nx = NxscopeHandler(link, Parser())
        nx.connect()
        nx.ch_enable([0])
        # fan-out order of channel 0: the gate queue first, then leaving and staying queues interleaved
        roles = ["gate"] + [r.choice(["gone", "stay"]) for _ in range(r.randrange(3, 8))] + ["gone", "stay"]
        qs = [nx.stream_sub(0) for _ in roles]
        other = nx.stream_sub(1)                      # a queue of a channel that never streams
        nx.stream_start()
        gone = [k for k, role in enumerate(roles) if role == "gone"]
        r.shuffle(gone)
        sent = []
        at_return = {}                                # queue -> number of groups on it when stream_unsub returned
        late = []                                     # (queue, samples sent when stream_sub returned)
        nframes = 12 + 3 * len(gone)

        def app():
            seen = 0
            for k in gone:
                # the fan-out of a new frame has begun: the gate queue got its group
                sim.block(lambda: qs[0].qsize() > seen, 0.5, "app-gate")
                seen = qs[0].qsize()
                for _ in range(r.randrange(0, 3)):
                    sim.yield_("app")
                if r.random() < 0.3:
                    q = nx.stream_sub(0)
                    late.append((q, len(sent)))
                nx.stream_unsub(qs[k])
                at_return[k] = qs[k].qsize()
        t = vsim.VThread(target=app, name="app")
        t.start()
        for _ in range(nframes):
            sent.append(dev.stream_cntr)
            dev.stream_tick()
            vsim.vsleep(r.choice([0.0, 0.001, 0.001]))
        t.join()
        vsim.vsleep(3.0)

        def drain(q):
            ngroups, vals = q.qsize(), []
            while not q.empty():
                vals += [int(x.data[0]) for x in q.get_nowait()]
            return ngroups, vals
        got = [drain(q) for q in qs]
        res.update(sent=sent, got=got, roles=roles, at_return=at_return, late=[(drain(q), k) for q, k in late],
                   other=drain(other))
        nx.disconnect()

    rr, sim = vsim.run_sim(scenario, seed=seed, preempt=True, real_limit=30.0)
    case = f"vsim preempt seed={seed}"
    if isinstance(rr, BaseException) or sim.errors:
        return {"key": "concurrent-delivery", "seed": seed, "what": "concurrent sub/unsub while streaming failed: " + repr(rr)
                + repr([(a, repr(b)) for a, b, _ in sim.errors]), "expected": "-", "observed": "-", "case": case}
    want = res["sent"]
    setting = (f"one frame per sample value {want[0]}..{want[-1]} of channel 0; fan-out order of the subscriber queues "
               f"{list(enumerate(res['roles']))}; the 'gone' queues are unsubscribed by a second application thread while frames "
               f"are being delivered (scheduler seed {seed})")

    def bad(what, exp, obs):
        return {"key": "concurrent-delivery", "seed": seed, "case": case, "what": what + "; " + setting, "expected": str(exp),
                "observed": str(obs)}
    for k, (ngroups, vals) in enumerate(res["got"]):
        role = res["roles"][k]
        if role != "gone" and vals != want:
            return bad(f"queue {k} (subscribed throughout) received {vals}, the device sent {want}", want, vals)
        if role == "gone":
            if vals != want[:len(vals)]:
                return bad(f"queue {k} (unsubscribed meanwhile) received {vals}: not a gap-free prefix of what the device sent {want}",
                           want, vals)
            if k in res["at_return"] and ngroups != res["at_return"][k]:
                return bad(f"queue {k} held {res['at_return'][k]} groups when stream_unsub(queue {k}) returned and {ngroups} at the end: "
                           f"samples {vals[res['at_return'][k]:]} were delivered to an unsubscribed queue", res["at_return"][k], ngroups)
    for j, ((ngroups, vals), k0) in enumerate(res["late"]):
        tail = want[len(want) - len(vals):] if vals else []
        if vals != tail or len(vals) < len(want) - k0:
            return bad(f"a queue subscribed when {k0} samples had been sent received {vals}: not a gap-free run up to the last sample "
                       f"that contains every sample sent after stream_sub returned ({want[k0:]})", want[k0:], vals)
    if res["other"][1]:
        return bad(f"the queue of channel 1 (never streamed) received {res['other'][1]}", [], res["other"][1])
    return None


# ------------------------------------------------------------------------------------------------- Prop

class C08(Prop):
    id = "C08"
    lean_module = "NxsModel.Props.C08"
    rule = ("A: histories of stream frames put on the stream queue (0..11 samples over random channels, tags unique or drawn "
            "from {0,1} / constant, byte-identical consecutive frames, flags incl. overflow, frames without samples or with only "
            "foreign samples, frames the decoder rejects: unknown channel, truncated sample), subscribe (also negative index, "
            "invalid channel) / unsubscribe (also twice, also a foreign queue) / enable-vector changes (real channels_write) / "
            "stream_start / stream_stop with frames waiting, on devices with 0..8 and 40 channels, some enabled at connect; "
            "executed with the REAL stream thread under the virtual-time runtime; queue contents (groups), subscriber lists, "
            "overflow counter, thread-dead flag, frames still waiting and raising calls compared with the model. "
            "B: the same with real payloads over random layouts (18 standard types, user types, vdim, mlen). "
            "C (extra_checks): whole sessions against the reference device (incl. bursts of > 2000 frames, a device streaming a "
            "newly enabled channel before its ACK, connect() repeated on the connected handler while subscribed and streaming, "
            "single frames of 18007 / 35007 / 65532 / 65535 bytes between ordinary ones, whole or in random chunks), trace observed on the library's own objects and replayed through the model. "
            "D (extra_checks): pre-emptive schedules, unsubscribe / subscribe while a frame is being delivered, judged at the "
            "subscriber queues after stream_unsub returned. "
            "distinct = distinct line; non-trivial = history with at least one delivered group")
    assumptions = ["lock-level atomicity of sub/unsub and the fan-out (both under the queue lock: C12 lock table); "
                   "pre-emption inside a critical section and queue.Queue internals are outside the model",
                   "the enabled test is per sample, outside the queue lock: executions in which the enable vector changes "
                   "inside a frame correspond to the history with the frame split there (Props/C08 frame_split)",
                   "'since the subscription' = processed since the subscription: frames waiting in the stream queue at "
                   "subscribe time are delivered to the new queue; stream_start does not drain the stream queue",
                   "a frame the decoder rejects ends the stream thread (no delivery until stream_stop; stream_start): the "
                   "oracle judges histories up to the first such frame only; the model is compared on all of them"]

    def cases(self, rng, tier):
        T = tier == "thorough"
        for it in range(2000 if T else 420):
            n = rng.choice([0, 1, 1, 2, 2, 3, 4, 8, 40] if it % 9 == 0 else [1, 2, 3, 4, 8])
            init = [rng.random() < 0.35 for _ in range(n)] if rng.random() < 0.6 else [False] * n
            values, mode = value_source(rng)
            evs = gen_events(rng, n, init, rng.randrange(1, 30), values)
            yield f"fan sys {bitstr(init)} {';'.join(evs) or '-'}", "sys-" + mode
        for it in range(600 if T else 110):
            user = gen.gen_user(rng)
            layout = gen.gen_layout(rng, user, nmax=6)
            n = len(layout)
            init = [rng.random() < 0.5 for _ in range(n)]
            evs = gen_events(rng, n, init, rng.randrange(1, 16), None, wire=(layout, user))
            yield f"fan wire {sg.layout_str(layout)} {sg.user_str(user)} {bitstr(init)} {';'.join(evs) or '-'}", "wire"
        for it in range(80 if T else 14):
            # text channels (CHAR): NUL padding, bytes that are not valid UTF-8 (R4-B latent false alarm)
            layout = [(18, rng.choice([1, 2, 3, 4, 6]), rng.choice([0, 0, 1])) for _ in range(rng.choice([1, 1, 2]))]
            if rng.random() < 0.4:
                layout.append((rng.choice([2, 6, 10]), 1, 0))
            n = len(layout)
            init = [rng.random() < 0.7 for _ in range(n)]
            evs = gen_events(rng, n, init, rng.randrange(2, 12), None, wire=(layout, {}))
            yield f"fan wire {sg.layout_str(layout)} - {bitstr(init)} {';'.join(evs) or '-'}", "wire-text"
        # the historical defect F9 and neighbours; the reviewer's histories
        for n in (1, 2, 3):
            one = "1" * n
            yield f"fan sys {'0' * n} S;s0;e{one};f0:;i;f0:0.1;i;f1:;i;f0:0.2;i", "empty-frames"
            yield f"fan sys {'0' * n} S;e{one};s0;f0:0.1;i;f0:;i;f0:;i;f0:0.2;i;s0;f0:0.3;i", "empty-frames"
            yield f"fan sys {'0' * n} S;f0:;i;f0:;i;s0", "empty-first"
            yield f"fan sys {one} S;s0;f0:0.1;i;f0:0.1;i;f0:0.1;f0:0.1;i", "identical-frames"
            yield f"fan sys {one} s0;S;i;f0:0.1;f0:0.2;f0:0.3;P;f0:0.4;S;i", "backlog"
            yield f"fan sys {one} s0;f0:0.1;f0:0.2;S;i;u0;u0;u5;f0:0.3;i", "backlog"
        yield "fan sys 11 S;s0;f0:0.1;i;f0:7.2;i;f0:0.3;i", "dead"                    # R-C08-2
        yield "fan sys 11 S;s0;f0:0.1;i;x;i;f0:0.3;i;s1;u0;P;S;i;f0:0.4,1.5;i", "dead"
        yield "fan sys 10 s0;s1;e11;S;f0:0.1,1.11,0.2,1.12;i", "enabled-at-connect"       # C08-r3m1
        yield "fan sys 111 n0;n2;n3;S;f0:0.1,2.2;i", "negative-index"

    def impl(self, line):
        case = parse_line(line)
        return fmt(case, drive(case))

    def nontrivial(self, line, out):
        return any(p.startswith("q") and "=" in p and p.split("=", 1)[1] != "" for p in out.split(" ")[1:]
                   if not p.startswith("qlen"))

    def oracle(self, line, impl_out=None):
        case = parse_line(line)
        v = judge(case)
        if v and len(case["events"]) > 3:
            # greedy shrink of the history (same violation key), bounded
            evs = list(case["events"])
            budget = 120
            i = len(evs) - 1
            while i >= 0 and budget > 0:
                trial = evs[:i] + evs[i + 1:]
                budget -= 1
                try:
                    w = judge(dict(case, events=trial))
                except Exception:
                    w = None
                if w and w.get("key") == v.get("key"):
                    evs, v = trial, w
                i -= 1
            v["minimal_history"] = ";".join(evs)
            v["original_case"] = line
            t = line.split(" ")
            v["case"] = (f"fan sys {bitstr(case['init'])} " if case["kind"] == "sys" else " ".join(t[:5]) + " ") + ";".join(evs)
        return v

    def search_cases(self, rng):
        for it in range(300):
            n = rng.choice([1, 2, 3])
            init = [rng.random() < 0.5 for _ in range(n)]
            values, mode = value_source(rng)
            yield f"fan sys {bitstr(init)} {';'.join(gen_events(rng, n, init, rng.randrange(4, 40), values))}", "search"

    def sessions(self, rng, count, ev=None, long_too=True):
        """run `count` generated sessions + the fixed ones (two of them bursts of > 2000 frames); -> (violations,
        disagreements).  long_too=False: no GENERATED session of kind 'long' (quick tier: time)"""
        viol, dis = [], []
        scripts = list(FIXED_SCRIPTS)
        kinds = {}
        for _ in range(count):
            s = gen_session(rng)
            while s["kind"] == "long" and not long_too:
                s = gen_session(rng)
            if rng.random() < 0.5:
                s["chunk_seed"] = rng.randrange(1, 1 << 20)
            scripts.append(s)
        for s in scripts:
            kinds[s["kind"]] = kinds.get(s["kind"], 0) + 1
            v, d, res = session_check(s)
            if v:
                viol.append(v)
            if d:
                dis.append(d)
            if len(viol) >= 3:
                break
        if ev is not None:
            ev["coverage"]["streaming_sessions"] = kinds
        return viol, dis

    def deep_search(self, rng):
        """sessions (frames in flight, enabled at connect, stalled thread, stop/start) and schedules: an application
        thread unsubscribes while the stream thread is fanning out (pre-emption at every lock and queue operation)"""
        out, _ = self.sessions(rng, 60)
        if out:
            return out[:2]
        for seed in range(150):
            v = concurrent_unsub(seed)
            if v:
                return [v]
        return []

    def replay(self, obj):
        if obj.get("key") == "concurrent-delivery":
            return concurrent_unsub(obj["seed"])
        if "script" in obj:
            return session_check(obj["script"])[0]
        return self.oracle(obj["case"])

    def extra_checks(self, rng, tier, ev):
        """layer C + schedules"""
        T = tier == "thorough"
        viol, dis = self.sessions(rng, 150 if T else 24, ev, long_too=T)
        # schedules: unsubscribe concurrently with the fan-out, pre-emption at every lock / queue operation
        nseeds = 300 if T else 16         # a seed exposes a missing / too narrow queue lock with probability ~0.75
        base = rng.randrange(1 << 20)
        for k in range(nseeds):
            v = concurrent_unsub(base + k)
            if v:
                viol.append(v)
                break
        ev["coverage"]["concurrent_unsub_schedules"] = nseeds
        ev["coverage"]["session_trace_disagreements"] = len(dis)
        if dis and not viol:
            # model and code differ on a recorded session although the oracle accepts the session: correspondence broken
            raise RuntimeError("session correspondence: " + dis[0][:2500])
        return viol[:5]


PROP = C08()
