"""C08 — stream samples reach every subscriber exactly once and in device order."""
import struct
from common import Prop, exc_name
import sessionlib as sl


def parse_ops(s):
    return [] if s == "-" else s.split(";")


def drive_real(n, ops):
    """the real NxscopeHandler fan-out driven frame by frame (no threads): returns (queues, ovf, subs, errs)"""
    from nxslib.nxscope import NxscopeHandler
    from nxslib.comm import DCommChannelsData
    from nxslib.dev import Device, DeviceChannel
    from nxslib.intf.iintf import ICommInterface
    from nxslib.proto.parse import Parser
    from nxslib.proto.iframe import DParseFrame, EParseId

    class Null(ICommInterface):
        def start(self): pass
        def stop(self): pass
        def drop_all(self): pass
        def _read(self): return b""
        def _write(self, data): pass

    nx = NxscopeHandler(Null(), Parser())
    comm = nx._comm
    comm._dev = Device(n, 3, 0, [DeviceChannel(i, 6, 1, f"c{i}") for i in range(n)])   # UINT32 x 1
    comm._channels = DCommChannelsData([False] * n, [False] * n, [0] * n, [0] * n)
    nx._sub_q = [[] for _ in range(n)]
    nx._connected = True
    queues = []
    errs = []
    for i, op in enumerate(ops):
        try:
            if op[0] == "f":
                fl, ss = op[1:].split(":")
                body = bytes([int(fl)])
                for s in (ss.split(",") if ss else []):
                    c, v = s.split(".")
                    body += bytes([int(c)]) + struct.pack("<I", int(v))
                comm._q_stream.put(DParseFrame(EParseId.STREAM, body))
                try:
                    nx._stream_thread()
                finally:
                    while not comm._q_stream.empty():
                        comm._q_stream.get_nowait()
            elif op[0] == "s":
                queues.append(nx.stream_sub(int(op[1:])))
            elif op[0] == "u":
                k = int(op[1:])
                if k < len(queues):
                    nx.stream_unsub(queues[k])
            elif op[0] == "e":
                v = [c == "1" for c in op[1:]]
                if len(v) != n:
                    raise ValueError
                comm._channels.en_now = v
        except Exception as e:
            errs.append((i, exc_name(e)))
    got = []
    for q in queues:
        groups = []
        while not q.empty():
            g = q.get_nowait()
            groups.append([int(x.data[0]) for x in g])
        got.append(groups)
    subs = [[queues.index(q) for q in l] for l in nx._sub_q]
    ovf = nx._ovf_cntr
    nx._connected = False
    comm._dev = None
    return got, ovf, subs, errs


def fmt(got, ovf, subs, errs):
    qs = " ".join(f"q{i}=" + "/".join(".".join(map(str, g)) for g in gs) for i, gs in enumerate(got))
    return f"ok {qs} ovf={ovf} subs=" + ",".join(".".join(map(str, l)) for l in subs) + " errs=" + ".".join(str(i) for i, _ in errs)


def gen_ops(rng, n, length):
    ops = []
    nq = 0
    val = 0
    for _ in range(length):
        r = rng.random()
        if r < 0.2:
            ops.append(f"s{rng.randrange(n) if rng.random() < 0.95 else n + rng.randrange(3)}")
            nq += 1
        elif r < 0.28 and nq:
            ops.append(f"u{rng.randrange(nq + 1)}")
        elif r < 0.4:
            ops.append("e" + "".join(rng.choice("01") if rng.random() < 0.8 else "1" for _ in range(n)))
        else:
            k = rng.choice([0, 0, 1, 1, 2, 3, 5, rng.randrange(0, 12)])
            ss = []
            for _ in range(k):
                ss.append(f"{rng.randrange(n)}.{val}")
                val += 1
            ops.append(f"f{rng.choice([0, 0, 0, 1, rng.randrange(256)])}:" + ",".join(ss))
    return ops


def concurrent_unsub(seed):
    import random
    import vsim
    import refdev
    res = {}

    def scenario(sim):
        from nxslib.nxscope import NxscopeHandler
        from nxslib.proto.parse import Parser
        r = random.Random(seed)
        chans = [dict(en=False, type=6, vdim=1, div=0, mlen=0, name="c0")]
        dev = refdev.RefDevice(chans, flags=3)
        link = refdev.make_link(sim, dev)
        nx = NxscopeHandler(link, Parser())
        nx.connect()
        nx.ch_enable([0])
        qs = [nx.stream_sub(0) for _ in range(8)]
        nx.stream_start()
        gone = list(range(6))

        def app():
            for k in gone:
                vsim.vsleep(r.choice([0.0, 0.001, 0.002, 0.003]))
                nx.stream_unsub(qs[k])
        t = vsim.VThread(target=app, name="app")
        t.start()
        sent = []
        for _ in range(30):
            sent.append(dev.stream_cntr)
            dev.stream_tick()
            vsim.vsleep(r.choice([0.0, 0.001]))
        t.join()
        vsim.vsleep(3.0)
        got = []
        for q in qs:
            vals = []
            while not q.empty():
                vals += [int(x.data[0]) for x in q.get_nowait()]
            got.append(vals)
        nx.disconnect()
        res.update(sent=sent, got=got, gone=gone)

    rr, sim = vsim.run_sim(scenario, seed=seed, preempt=True, real_limit=30.0)
    if isinstance(rr, BaseException) or sim.errors:
        return {"key": "concurrent-delivery", "seed": seed, "what": "concurrent sub/unsub while streaming failed: " + repr(rr)
                + repr([(a, repr(b)) for a, b, _ in sim.errors]), "expected": "-", "observed": "-", "case": f"vsim preempt seed={seed}"}
    for k, vals in enumerate(res["got"]):
        want = res["sent"]
        if k in res["gone"]:
            ok = vals == want[:len(vals)]            # a prefix: gap-free until the unsubscription
        else:
            ok = vals == want
        if not ok:
            return {"key": "concurrent-delivery", "seed": seed, "case": f"vsim preempt seed={seed}",
                    "what": f"queue {k} ({'unsubscribed meanwhile' if k in res['gone'] else 'subscribed throughout'}) received {vals}, "
                            f"device sent {want} while queues {res['gone']} were being unsubscribed concurrently",
                    "expected": str(want), "observed": str(vals)}
    return None


class C08(Prop):
    id = "C08"
    lean_module = "NxsModel.Props.C08"
    rule = ("histories of stream frames (0..11 samples over random channels, flags incl. overflow, frames with no samples or "
            "only foreign samples), subscribe / unsubscribe (several queues per channel, invalid channels) and enable-vector "
            "changes, executed on the real NxscopeHandler fan-out (stream-thread body driven frame by frame) and, in "
            "extra_checks, in whole sessions under the virtual-time runtime with the reference device streaming; queue "
            "contents (groups), subscriber lists and overflow counter compared with the model; distinct = distinct line; "
            "non-trivial = history with at least one delivered group")
    assumptions = ["lock-level atomicity of sub/unsub and the fan-out (both under the queue lock: C12 lock table); "
                   "pre-emption inside a critical section and queue.Queue internals are outside the model"]

    def cases(self, rng, tier):
        T = tier == "thorough"
        for _ in range(2500 if T else 500):
            n = rng.choice([1, 2, 3, 4, 8])
            yield f"fan run {n} {';'.join(gen_ops(rng, n, rng.randrange(1, 30)))}", "random"
        # the historical defect F9 and neighbours
        for n in (1, 2, 3):
            yield f"fan run {n} s0;e{'1' * n};f0:;f0:0.1;f1:;f0:0.2", "empty-frames"
            yield f"fan run {n} e{'1' * n};s0;f0:0.1;f0:;f0:;f0:0.2;s0;f0:0.3", "empty-frames"
            yield f"fan run {n} f0:;f0:;s0", "empty-first"

    def impl(self, line):
        t = line.split(" ")
        return fmt(*drive_real(int(t[2]), parse_ops(t[3])))

    def nontrivial(self, line, out):
        return any(c.isdigit() for part in out.split(" ")[1:] if part.startswith("q") for c in part.split("=", 1)[1])

    def oracle(self, line, impl_out=None):
        t = line.split(" ")
        n, ops = int(t[2]), parse_ops(t[3])
        got, ovf, subs, errs = drive_real(n, ops)
        # independent per-queue specification
        enabled = [False] * n
        sub_of = []          # queue -> channel or None
        want = []
        bad_ops = set()
        for i, op in enumerate(ops):
            if op[0] == "s":
                c = int(op[1:])
                if c >= n:
                    bad_ops.add(i)
                    continue
                sub_of.append(c)
                want.append([])
            elif op[0] == "u":
                k = int(op[1:])
                if k < len(sub_of):
                    sub_of[k] = None
            elif op[0] == "e":
                enabled = [c == "1" for c in op[1:]]
            else:
                fl, ss = op[1:].split(":")
                smp = [tuple(int(x) for x in s.split(".")) for s in ss.split(",")] if ss else []
                for q, c in enumerate(sub_of):
                    if c is not None and enabled[c]:
                        want[q] += [v for ch, v in smp if ch == c]
        real_err = [i for i, _ in errs if i not in bad_ops]
        if real_err:
            return {"key": "stream-thread-raises", "what": f"the stream thread body raised on op {ops[real_err[0]]}: {dict(errs)[real_err[0]]}",
                    "expected": "no exception", "observed": dict(errs)[real_err[0]], "history": ops}
        flat = [[v for g in gs for v in g] for gs in got]
        if flat != want:
            return {"key": "delivery", "what": "a subscriber queue did not receive exactly the in-order run of its channel's samples",
                    "expected": str(want), "observed": str(flat), "history": ops}
        if any(len(g) == 0 for gs in got for g in gs):
            return {"key": "empty-group", "what": "an empty group was delivered", "expected": "-", "observed": str(got)}
        return None

    def deep_search(self, rng):
        """schedules: an application thread unsubscribes / subscribes while the stream thread is fanning out
        (pre-emption at every lock and queue operation); every queue that stays subscribed must still get a
        gap-free run"""
        out = []
        for seed in range(150):
            v = concurrent_unsub(seed)
            if v:
                out.append(v)
                break
        return out

    def replay(self, obj):
        if obj.get("key") == "concurrent-delivery":
            return concurrent_unsub(obj["seed"])
        return self.oracle(obj["case"])

    def extra_checks(self, rng, tier, ev):
        """whole sessions under vsim: the reference device streams, real receive + stream threads deliver"""
        import vsim
        import refdev
        viol = []
        runs = 0
        for it in range(40 if tier == "thorough" else 8):
            n = rng.choice([2, 3, 5])
            res = {}

            def scenario(sim, n=n, seed=rng.randrange(1 << 30)):
                import random
                r = random.Random(seed)
                from nxslib.nxscope import NxscopeHandler
                from nxslib.proto.parse import Parser
                chans = [dict(en=False, type=6, vdim=1, div=0, mlen=0, name=f"c{i}") for i in range(n)]
                dev = refdev.RefDevice(chans, flags=3)
                link = refdev.make_link(sim, dev, chunker=lambda k: r.randrange(1, k + 1))
                nx = NxscopeHandler(link, Parser())
                nx.connect()
                en = sorted(r.sample(range(n), r.randrange(1, n + 1)))
                nx.ch_enable(en)
                qs = [(c, nx.stream_sub(c)) for c in [r.randrange(n) for _ in range(r.randrange(1, 5))]]
                nx.stream_start()
                sent = {c: [] for c in range(n)}
                for k in range(r.randrange(3, 15)):
                    cn = dev.stream_cntr
                    dev.stream_tick()
                    for c in en:
                        sent[c].append(cn)
                    if r.random() < 0.3:
                        vsim.vsleep(0.05)
                vsim.vsleep(3.0)
                out = []
                for c, q in qs:
                    vals = []
                    while not q.empty():
                        vals += [int(x.data[0]) for x in q.get_nowait()]
                    out.append((c, vals))
                nx.disconnect()
                res["out"] = out
                res["sent"] = sent
                res["en"] = en

            rr, sim = vsim.run_sim(scenario)
            runs += 1
            if isinstance(rr, BaseException) or sim.errors:
                viol.append({"key": "session-stream-failure", "what": "streaming session failed: " + repr(rr) + repr([(a, repr(b)) for a, b, _ in sim.errors]),
                             "expected": "-", "observed": "-"})
                continue
            for c, vals in res["out"]:
                want = res["sent"][c] if c in res["en"] else []
                if vals != want:
                    viol.append({"key": "session-delivery", "what": f"queue of channel {c} received {vals}, device sent {want}",
                                 "expected": str(want), "observed": str(vals)})
        ev["coverage"]["streaming_sessions"] = runs
        # schedules: unsubscribe concurrently with the fan-out, pre-emption at every lock / queue operation
        nseeds = 400 if tier == "thorough" else 40
        base = rng.randrange(1 << 20)
        for k in range(nseeds):
            v = concurrent_unsub(base + k)
            if v:
                viol.append(v)
                break
        ev["coverage"]["concurrent_unsub_schedules"] = nseeds
        return viol[:5]


PROP = C08()
