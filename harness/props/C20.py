"""C20 — custom frame codecs plug in without changing client or device-side behaviour."""
import random

from common import Prop, hexs, unhex, exc_name
import famcodec as fc
import genlib as g
import sessionlib as sl
import refdev
import streamglue as sg
import vsim
from props.C02 import CB_OF
from props.C07 import gen_history

REQ_IDS = [2, 3, 5, 6, 7]


# ---------------------------------------------------------------------------------------------------------
# real code under a custom codec
# ---------------------------------------------------------------------------------------------------------
def run_real(chunks, cls, limit=200000):
    """the real CommHandler._recv_thread with Parser(frame=cls) over a scripted link -> delivered frames"""
    from nxslib.comm import CommHandler
    from nxslib.intf.iintf import ICommInterface
    from nxslib.proto.parse import Parser
    script = list(chunks)

    class Link(ICommInterface):
        def start(self): pass
        def stop(self): pass
        def drop_all(self): pass
        def _read(self):
            return script.pop(0) if script else b""
        def _write(self, data): pass

    comm = CommHandler(Link(), Parser(frame=cls))
    comm._dev = object()       # a device is known: ACK frames are queued like any other
    frames = []
    try:
        for _ in range(limit):
            had = bool(script)
            before = comm._prev_read
            comm._recv_thread()
            got = False
            for q in (comm._q, comm._q_stream):
                while not q.empty():
                    f = q.get_nowait()
                    frames.append((int(f.fid), bytes(f.data)))
                    got = True
            if not got and not had and not script and comm._prev_read == before:
                break
        else:
            raise RuntimeError("receive body did not become quiescent")
    finally:
        comm._dev = None
    return frames


class Recorder:
    """the real ParseRecv(cb, frame=cls) with recording callbacks"""

    def __init__(self, cls):
        from nxslib.proto.iparserecv import ParseRecvCb
        from nxslib.proto.parserecv import ParseRecv
        self.calls = []
        mk = lambda name: (lambda data: self.calls.append((name, bytes(data))))
        self.p = ParseRecv(ParseRecvCb(cmninfo=mk("cmninfo"), chinfo=mk("chinfo"), enable=mk("enable"),
                                       div=mk("div"), start=mk("start")), frame=cls)

    def handle(self, d):
        self.calls.clear()
        try:
            self.p.recv_handle(d)
        except AssertionError:
            return "raised assert"
        except Exception as e:
            return "raised " + exc_name(e)
        if not self.calls:
            return "ignored"
        if len(self.calls) > 1:
            return "multi " + repr(self.calls)
        return f"fired {self.calls[0][0]} {hexs(self.calls[0][1])}"


def fstr(frames):
    return "ok " + (",".join(f"{fid}:{hexs(d)}" for fid, d in frames) or "-")


def map_frames(state, codec):
    """per-op state string of sessionlib with the sent frames decoded through `codec`: s=<id>:<payload>,..."""
    out = []
    for kv in state.split(";"):
        if kv.startswith("s=") and kv != "s=-":
            dec = []
            for x in kv[2:].split(","):
                b = unhex(x)
                r = codec.decode_at(b, 0)
                dec.append(f"{r[0]}:{hexs(r[1])}+{len(b) - r[2]}" if r else "undecodable:" + x)
            kv = "s=" + ",".join(dec)
        out.append(kv)
    return ";".join(out)


def run_session(pstr, flags, en, div, ops, started):
    """(mapped per-op states, summary) of one whole client session; pstr None = the built-in codec"""
    if pstr is None:
        out, info = sl.run_cfg_history(flags, en, div, ops, started=started)
        codec = fc.SerialRef()
    else:
        out, info = sl.run_cfg_history(flags, en, div, ops, started=started,
                                       codec_factory=lambda: fc.RefCodec(pstr), frame_cls=fc.frame_cls(pstr))
        codec = fc.RefCodec(pstr)
    summ = {"errors": info["errors"], "live_after": info["live_after"],
            "connect_time": round(info.get("connect_time", -1) * 10),
            "dev_started_after_connect": info.get("dev_started_after_connect"),
            "requests": [(round(t * 10), k, hexs(p)) for t, k, p in info["log"]]}
    return [map_frames(s, codec) for s in out], summ


def parse_stream(line):
    # stream <P> <flags> <type:vdim:mlen:en,...> <enable ids> <nframes> <chunk>
    t = line.split(" ")
    chans = []
    for i, c in enumerate(t[3].split(",")):
        ty, vdim, mlen, en = (int(x) for x in c.split(":"))
        chans.append(dict(en=bool(en), type=ty, vdim=vdim, div=0, mlen=mlen, name=f"c{i}"))
    enable = [int(x) for x in t[4].split(",")] if t[4] != "-" else []
    return t[1], int(t[2]), chans, enable, int(t[5]), int(t[6])


def stream_frame_len(chans):
    return 1 + sum(1 + sg.STD[c["type"] & 0x1F][1] * c["vdim"] + c["mlen"] for c in chans)


def run_stream_session(pstr, flags, chans, enable, nframes, chunk=0):
    """connect, read the device description, enable channels, write, start the stream, take `nframes` stream frames
    from CommHandler.stream_data(), stop, disconnect.  pstr None = the built-in codec.  chunk > 0: the link hands
    out at most `chunk` bytes per read (then the stream is slowed down so that the client keeps up)."""
    rc = fc.RefCodec(pstr) if pstr else None
    flen = stream_frame_len(chans) + (rc.hdr_len + rc.foot_len if rc else 6)
    every = 2 if not chunk else 3 * (-(-flen // chunk)) + 5

    def scenario(sim):
        from nxslib.comm import CommHandler
        from nxslib.proto.parse import Parser
        dev = refdev.RefDevice(chans, flags=flags, codec=rc)
        link = refdev.make_link(sim, dev, stream_every=every, chunker=(lambda n: chunk) if chunk else None)
        comm = CommHandler(link, Parser(frame=fc.frame_cls(pstr)) if pstr else Parser())
        comm.connect()
        d = comm.dev
        n = d.data.chmax
        desc = (n, d.data.flags, d.data.rxpadding,
                [(c.data._type, c.data.vdim, c.data.name, c.data.en, c.data.div, c.data.mlen)
                 for c in (d.channel_get(i) for i in range(n))])
        if enable:
            comm.ch_enable(list(enable))
        comm.channels_write()
        a1 = comm.stream_start()
        frames = []
        tries = 0
        while len(frames) < nframes and tries < 10 * nframes + 20:
            tries += 1
            st = comm.stream_data()
            if st is not None:
                frames.append((st.flags, [(x.chan, int(x.dtype), x.vdim, x.mlen, repr(x.data), repr(x.meta)) for x in st.samples]))
        a2 = comm.stream_stop()
        comm.disconnect()
        return {"description": desc, "acks": (repr(a1), repr(a2)), "stream": frames, "dev_en": dev.en,
                "dev_started": dev.started, "requests": [(k, hexs(p)) for _, k, p in dev.log],
                "live_after": [t.name for t in sim.live_tasks()], "time": round(sim.now * 10)}

    r, sim = vsim.run_sim(scenario)
    if isinstance(r, BaseException):
        raise r
    r["errors"] = [(n, repr(e)) for n, e, _ in sim.errors]
    return r


def parse_session(line):
    t = line.split(" ")
    # session <P> <flags> <en> <div> <started> <ops>
    en = [] if t[3] == "-" else [c == "1" for c in t[3]]
    div = [] if t[4] == "-" else [int(x) for x in t[4].split(",")]
    return t[1], int(t[2]), en, div, t[5] == "1", t[6].split(";")


# ---------------------------------------------------------------------------------------------------------
# generators, parameterised by the reference codec
# ---------------------------------------------------------------------------------------------------------
def payload_for(rng, fid):
    if fid == 2:
        return b""
    if fid in (3, 5):
        return bytes([rng.randrange(256)])
    return g.rbytes(rng, rng.randrange(1, 12))


def valid_frame(rng, rc, maxlen=8):
    n = rng.choice([0, 0, 1, 1, 2, 3, rng.randrange(0, maxlen + 1)])
    return rc.create(rng.randrange(9), g.rbytes(rng, n))


def request_frame(rng, rc):
    fid = rng.choice(REQ_IDS)
    return rc.create(fid, payload_for(rng, fid))


def noise(rng, rc, n):
    pool = [rc.sof, rc.sof, 0x00, 0x55, rc.hdr_len + rc.foot_len, rc.hdr_len + rc.foot_len + 1, rng.randrange(256)]
    return bytes(rng.choice(pool) for _ in range(n))


def gen_stream(rng, rc, maxparts=6):
    parts = []
    for _ in range(rng.randrange(1, maxparts + 1)):
        r = rng.random()
        if r < 0.45:
            parts.append(valid_frame(rng, rc, 6))
        elif r < 0.6:
            parts.append(noise(rng, rc, rng.randrange(1, 6)))
        elif r < 0.7:
            f = valid_frame(rng, rc, 6)
            parts.append(f[:rng.randrange(1, len(f))])                      # cut-off frame
        elif r < 0.8:
            f = bytearray(valid_frame(rng, rc, 6))
            f[rng.randrange(len(f))] ^= 1 << rng.randrange(8)                # damaged frame
            parts.append(bytes(f))
        elif r < 0.88:
            f = valid_frame(rng, rc, 2)                                      # bogus header: small / odd declared length
            parts.append(rc.set_len(f, rng.choice([0, 1, 3, rc.hdr_len, rc.hdr_len + rc.foot_len - 1, 12, 40]))[:rc.hdr_len])
        else:
            parts.append(bytes(rng.choice([0, rc.sof, 0xFF]) for _ in range(rng.randrange(1, 4))))
    return b"".join(parts)


def draw_codecs(rng, n):
    """n members, stratified over header length 3..8 and the ten footer kinds, plus fixed corner members"""
    fixed = ["sof=55;hdr=S,L2le,I;foot=sum2be",          # the built-in layout with another checksum
             "sof=00;hdr=S,I,F7e,L1;foot=sum3be",        # start byte 0x00
             "sof=aa;hdr=S,F,Fff,F,L2be,F,I;foot=crc32le",   # 8-byte header
             "sof=55;hdr=S,L1,I;foot=xor",               # 3-byte header, 1-byte footer
             "sof=7e;hdr=S,L4le,I;foot=crc32be",         # 32-bit length field
             "sof=55;hdr=S,I,L3be,F;foot=sum2le"]        # 24-bit length field, big-endian
    out = list(fixed[:max(0, min(len(fixed), n // 4))])
    k = 0
    hls = [3, 4, 5, 6, 7, 8]
    while len(out) < n:
        p = fc.random_params(rng, hdr_len=hls[k % 6], foot=fc.FOOTS[(k // 2) % len(fc.FOOTS)] if k % 2 else None)
        k += 1
        s = str(p)
        if s not in out:
            out.append(s)
    return out


class C20(Prop):
    id = "C20"
    lean_module = "NxsModel.Props.C20"
    rule = ("24 (quick) / 200 (thorough) codecs drawn from VERIF_SEED, stratified over header length 3..8 and the ten "
            "footer kinds (+ fixed corner members: start byte 0x00, 3- and 8-byte headers); per codec: (a) the ICommFrame "
            "subclass generated for it vs the Lean family on create (ids 0..9/255/256, lengths incl. the 255/256 and "
            "65535/65536 length-field boundaries) / decode / hdr / foot / find inputs; (b) streams of valid frames, noise "
            "rich in the codec's start byte, cut-off / damaged frames, bogus headers x chunkings (all compositions of "
            "short streams, every single split, byte-wise, random, empty reads) through the real CommHandler._recv_thread "
            "with Parser(frame=cls) vs Reasm.run (codec P); (c) requests, leading noise, zero padding, near-miss footers, "
            "declared-length / id / start-byte sweeps, truncations, noise through the real ParseRecv(cb, frame=cls) vs "
            "recvHandleWith (codec P); (d) whole client sessions (connect, random configuration history, writes, "
            "disconnect) of the real CommHandler under virtual time against the reference device speaking the same "
            "codec, compared op by op with the same history under the built-in codec after decoding the sent frames "
            "(decoded requests at the device with their virtual times, client view, device state, errors), and connect / "
            "read description / enable / write / stream start / N stream frames through stream_data() / stop / disconnect "
            "sessions on devices with mixed channel types, vector sizes and metadata, once with whole reads and once with "
            "reads of 1..11 bytes, compared with the built-in-codec run (description, samples, acks, requests); "
            "distinct = distinct line; non-trivial = a line whose codec differs from the built-in one in header length, "
            "footer length or start byte and whose input contains the codec's start byte")
    assumptions = ["the ICommFrame subclasses of harness/famcodec.py are checked against the Lean family on every run "
                   "(create/decode/hdr/foot/find), not verified",
                   "virtual-time runtime (harness/vsim.py) and reference device (harness/refdev.py) as in C07",
                   "session-level equivalence is established by differential runs, not by a Lean theorem: the Lean "
                   "Config/Handshake models are written for the built-in codec"]
    trusted_base = Prop.trusted_base + ["harness/translate_frameuse.py (static scan of codec uses / frame literals)"]

    def __init__(self):
        self.codecs = []
        self._rc = {}
        self._rec = {}
        self.skipped = 0

    # -- helpers ------------------------------------------------------------------------------------------
    def rc(self, pstr):
        if pstr not in self._rc:
            self._rc[pstr] = fc.RefCodec(pstr)
        return self._rc[pstr]

    _parsers = {}

    def rec(self, pstr):
        if pstr not in self._rec:
            self._rec[pstr] = Recorder(fc.frame_cls(pstr))
        return self._rec[pstr]

    # -- cases --------------------------------------------------------------------------------------------
    def cases(self, rng, tier):
        T = tier == "thorough"
        self.codecs = draw_codecs(rng, 200 if T else 24)
        for ci, P in enumerate(self.codecs):
            rc = self.rc(P)
            pre = f"fam {P} "
            yield pre + "info", "info"
            # (a) the family member itself
            for fid in [0, 1, 2, 5, 8, 9, 255, 256]:
                yield pre + f"create {fid} {hexs(g.rbytes(rng, rng.randrange(0, 6)))}", "create"
            yield pre + "create 2 none", "create"
            # the library's own builders with this codec, in one process with all the other codecs (shared state!)
            for r in (0, 0, -22, 1):
                yield pre + f"ackenc {r}", "builder-ack"
            yield pre + f"cmnenc {rng.randrange(256)} {rng.randrange(4)} {rng.choice([0, 16])}", "builder-cmninfo"
            yield pre + f"reqstart {rng.randrange(2)}", "builder-start"
            yield pre + f"reqchinfo {rng.randrange(255)}", "builder-chinfo"
            lim = 256 ** rc.len_n - rc.hdr_len - rc.foot_len      # first payload length that does not fit
            if rc.len_n == 1 or (rc.len_n == 2 and ci % 4 == 0):
                for n in (lim - 1, lim):
                    yield pre + f"create 1 {hexs(bytes((i * 31 + n) & 0xFF for i in range(n)))}", "create-boundary"
            if rc.len_n >= 3:
                # frames longer than the built-in codec's 16-bit length field can express
                for total in (65536, 65537 + rng.randrange(5000)):
                    n = total - rc.hdr_len - rc.foot_len
                    pl = bytes((i * 29 + total + (i >> 8)) & 0xFF for i in range(n))
                    big = rc.create(6, pl)
                    yield pre + f"create 6 {hexs(pl)}", "create-over-64k"
                    yield pre + f"decode {hexs(big)}", "decode-over-64k"
                    b = bytearray(big)
                    b[rng.randrange(len(b))] ^= 1 << rng.randrange(8)
                    yield pre + f"decode {hexs(bytes(b))}", "decode-over-64k-damaged"
                    k1, k2 = rng.randrange(1, 3000), 65530 + rng.randrange(12)
                    tail = valid_frame(rng, rc)
                    yield pre + f"reasm run {hexs(big[:k1])},{hexs(big[k1:k2])},-,{hexs(big[k2:] + tail)}", "reasm-over-64k"
                    yield pre + f"recv handle {hexs(big + bytes(rng.randrange(0, 9)))}", "request-over-64k"
            for _ in range(6):
                f = valid_frame(rng, rc)
                yield pre + f"decode {hexs(f)}", "decode-valid"
                yield pre + f"decode {hexs(f + g.rbytes(rng, rng.randrange(1, 5)))}", "decode-extended"
                yield pre + f"decode {hexs(f[:rng.randrange(0, len(f))])}", "decode-truncated"
                b = bytearray(f)
                b[rng.randrange(len(b))] ^= 1 << rng.randrange(8)
                yield pre + f"decode {hexs(bytes(b))}", "decode-damaged"
                yield pre + f"hdr {hexs(bytes(b)[:rng.randrange(0, rc.hdr_len + 2)])}", "hdr"
                yield pre + f"foot {hexs(f)}", "foot"
                yield pre + f"foot {hexs(bytes(b))}", "foot"
                yield pre + f"foot {hexs(f[:rng.randrange(0, rc.foot_len + 1)])}", "foot-short"
                yield pre + f"find {hexs(noise(rng, rc, rng.randrange(0, 9)))}", "find"
            for n in range(0, rc.hdr_len + rc.foot_len + 3):
                f = rc.refoot(rc.set_len(rc.create(3, b"\x07" * 3), n))
                yield pre + f"decode {hexs(f)}", "decode-len-sweep"
            for fid in range(0, 12):
                yield pre + f"decode {hexs(rc.create(fid, b'ab'))}", "decode-id-sweep"
            # (b) reassembly through the real receive path
            for _ in range(3 if T else 2):
                s = gen_stream(rng, rc, 2)[:(10 if T else 9)]
                for sizes in g.compositions(len(s)):
                    yield pre + "reasm run " + ",".join(hexs(c) for c in (g.chunk(s, sizes) or [b""])), "all-compositions"
            for _ in range(4 if T else 2):
                s = gen_stream(rng, rc, 4)
                for k in range(len(s) + 1):
                    yield pre + f"reasm run {hexs(s[:k])},{hexs(s[k:])}", "single-split"
                    if k % 3 == 0:
                        yield pre + f"reasm run {hexs(s[:k])},-,{hexs(s[k:])}", "single-split-empty"
                yield pre + "reasm run " + ",".join(hexs(bytes([b])) for b in s), "bytewise"
                yield pre + f"reasm run {hexs(s)}", "one-read"
            for _ in range(100 if T else 60):
                s = gen_stream(rng, rc, 6)
                yield pre + "reasm run " + ",".join(hexs(c) for c in (g.random_chunking(rng, s) or [b""])), "random"
            for _ in range(3):
                f1, f2 = valid_frame(rng, rc), valid_frame(rng, rc)
                lead = bytes(rng.randrange(0, 3))
                if rc.sof == 0:
                    lead = b"\x01" * len(lead)
                for k in range(0, rc.hdr_len + 2):
                    yield pre + f"reasm run {hexs(lead + f1[:k])},-,{hexs(f1[k:] + f2)}", "residue"
            # (c) dispatch through the real ParseRecv
            for _ in range(12):
                yield pre + f"recv handle {hexs(request_frame(rng, rc))}", "request"
                yield pre + f"recv handle {hexs(valid_frame(rng, rc))}", "valid-any-id"
                lead = bytes(rng.choice([0, 1, (rc.sof + 1) & 0xFF, (rc.sof - 1) & 0xFF, rng.randrange(256)])
                             for _ in range(rng.randrange(0, 5)))
                yield pre + f"recv handle {hexs(lead + request_frame(rng, rc))}", "leading-bytes"
                yield pre + f"recv handle {hexs(request_frame(rng, rc) + bytes(rng.randrange(1, 17)))}", "zero-padded"
                yield pre + f"recv handle {hexs(request_frame(rng, rc) + g.rbytes(rng, rng.randrange(1, 9)))}", "extended"
            for _ in range(3):
                f = request_frame(rng, rc)
                for d in (1, 0x80, 0xFF):
                    b = bytearray(f)
                    b[-1 - rng.randrange(rc.foot_len)] ^= d
                    yield pre + f"recv handle {hexs(bytes(b))}", "near-miss-footer"
                for k in range(len(f) + 1):
                    yield pre + f"recv handle {hexs(f[:k])}", "truncated"
            base = rc.create(6, b"\x02\x00\x01")
            for n in list(range(0, rc.hdr_len + rc.foot_len + 4)) + [len(base) - 1, len(base), len(base) + 1, 200, 255]:
                yield pre + f"recv handle {hexs(rc.set_len(base, n))}", "sweep-len"
                yield pre + f"recv handle {hexs(rc.refoot(rc.set_len(base, n)))}", "sweep-len-footok"
                yield pre + f"recv handle {hexs(rc.refoot(rc.set_len(base, n)) + bytes(8))}", "sweep-len-footok-padded"
            for fid in list(range(0, 12)) + [0x55, 255]:
                yield pre + f"recv handle {hexs(rc.create(fid, b''))}", "sweep-id"
                yield pre + f"recv handle {hexs(rc.create(fid, b'x'))}", "sweep-id"
            for sof in [0x00, 0x55, 0xFF, (rc.sof + 1) & 0xFF, rc.sof]:
                yield pre + f"recv handle {hexs(bytes([sof]) + base[1:])}", "sweep-sof"
            for k in range(0, 12, 3):
                yield pre + f"recv handle {hexs(bytes(k))}", "padding-only"
            for _ in range(10):
                yield pre + f"recv handle {hexs(noise(rng, rc, rng.randrange(0, 24)))}", "noise"

    # -- real code ----------------------------------------------------------------------------------------
    def impl(self, line):
        t = line.split(" ")
        P, op = t[1], t[2]
        cls = fc.frame_cls(P)
        if op == "reasm":
            chunks = [unhex(c) for c in t[4].split(",")]
            try:
                return fstr(run_real(chunks, cls))
            except fc.Spin as e:
                return "spin " + str(e)
        if op == "recv":
            return self.rec(P).handle(unhex(t[4]))
        if op in ("ackenc", "cmnenc", "reqstart", "reqchinfo"):
            try:
                if op == "ackenc":
                    return "ok " + hexs(self.rec(P).p.frame_ack_encode(int(t[3])))
                if op == "cmnenc":
                    class D:
                        pass
                    d = D()
                    d.data = D()
                    d.data.chmax, d.data.flags, d.data.rxpadding = int(t[3]), int(t[4]), int(t[5])
                    return "ok " + hexs(self.rec(P).p.frame_cmninfo_encode(d))
                from nxslib.proto.parse import Parser
                if P not in self._parsers:
                    self._parsers[P] = Parser(frame=cls)
                if op == "reqstart":
                    return "ok " + hexs(self._parsers[P].frame_start(bool(int(t[3]))))
                return "ok " + hexs(self._parsers[P].frame_chinfo(int(t[3])))
            except Exception as e:
                return "err " + exc_name(e)
        fr = cls()
        if op == "info":
            return f"ok {fr.hdr_len} {fr.foot_len}"
        if op == "create":
            try:
                return "ok " + hexs(fr.frame_create(int(t[3]), None if t[4] == "none" else unhex(t[4])))
            except Exception as e:
                return "err " + exc_name(e)
        d = unhex(t[3])
        if op == "decode":
            r = fr.frame_decode(d)
            return "err " + r.err.name if r.err != 0 else f"ok {int(r.fid)} {hexs(r.data)}"
        if op == "hdr":
            r = fr.hdr_decode(d)
            return "err " + r.err.name if r.err != 0 else f"ok {int(r.fid)} {r.flen}"
        if op == "foot":
            return "ok " + ("1" if fr.foot_validate(d) else "0")
        if op == "find":
            return f"ok {fr.hdr_find(d)}"
        raise ValueError(line)

    def nontrivial(self, line, out):
        t = line.split(" ")
        if t[0] != "fam" or t[2] == "info":
            return False
        rc = self.rc(t[1])
        if (rc.hdr_len, rc.foot_len, rc.sof) == (4, 2, 0x55):
            return False
        if t[2] in ("ackenc", "cmnenc", "reqstart", "reqchinfo"):
            return True
        arg = t[-1]
        if arg in ("-", "none"):
            return False
        return rc.sof in b"".join(unhex(c) for c in arg.split(","))

    # -- the property, on the real code -------------------------------------------------------------------
    def oracle(self, line, impl_out=None):
        t = line.split(" ")
        if t[0] == "session":
            return self.session_oracle(line)
        if t[0] == "stream":
            return self.stream_oracle(line)
        P, op = t[1], t[2]
        rc = self.rc(P)
        cls = fc.frame_cls(P)
        if op == "reasm":
            chunks = [unhex(c) for c in t[4].split(",")]
            want = fc.ref_scan(rc, b"".join(chunks))
            try:
                got = fstr(run_real(chunks, cls))
            except fc.Spin as e:
                got = "spin: the receive thread loops without reading (" + str(e) + ")"
            except Exception as e:
                got = "raised " + type(e).__name__ + ": " + str(e)[:80]
            if got != fstr(want):
                return {"key": "reassembly-custom-codec",
                        "what": "with Parser(frame=<custom codec>) the frames extracted by CommHandler._recv_thread differ "
                                "from one left-to-right scan of the received bytes under that codec's framing",
                        "codec": P, "hdr_len": rc.hdr_len, "foot_len": rc.foot_len,
                        "expected": fstr(want), "observed": got, "stream": hexs(b"".join(chunks))}
            return None
        if op == "recv":
            d = unhex(t[4])
            out = Recorder(cls).handle(d)
            i = rc.find(d)
            exp = fc.accepts(rc, d[i:]) if i >= 0 else None
            if exp is None:
                want = "ignored"
            else:
                fid, p = exp
                want = f"fired {CB_OF[fid][0]} {hexs(p)}" if fid in CB_OF and CB_OF[fid][1](len(p)) else "raised assert"
            if out != want:
                return {"key": "dispatch-custom-codec",
                        "what": "with ParseRecv(cb, frame=<custom codec>) recv_handle reacts to a write against that codec's "
                                "acceptance predicate (start byte, known id, hdr+foot <= declared length <= len, footer over "
                                "exactly the declared length, payload between header and footer)",
                        "codec": P, "hdr_len": rc.hdr_len, "foot_len": rc.foot_len, "expected": want, "observed": out}
            return None
        if op in ("ackenc", "cmnenc", "reqstart", "reqchinfo"):
            # the library's builders with this codec must emit this codec's framing of the NxScope payload,
            # whatever other codecs were used in the same process before
            import struct as _st
            if op == "ackenc":
                fid, pl = 4, _st.pack("<i", int(t[3]))
            elif op == "cmnenc":
                fid, pl = 2, bytes([int(t[3]), int(t[4]), int(t[5])])
            elif op == "reqstart":
                fid, pl = 5, bytes([int(t[3])])
            else:
                fid, pl = 3, bytes([int(t[3])])
            want = "ok " + hexs(rc.create(fid, pl))
            got = self.impl(line)
            if got != want:
                return {"key": "builder-custom-codec", "what": f"{op} with Parser/ParseRecv(frame=<custom codec>) does not emit that codec's framing "
                        "(after other codecs were used in the same process)", "codec": P, "expected": want, "observed": got}
            return None
        return None      # (a) lines exercise the harness' own ICommFrame subclass, not nxslib

    def session_oracle(self, line):
        P, flags, en, div, started, ops = parse_session(line)
        rc = self.rc(P)
        if not rc.fits(max(2 + len(en), 1 + 5 * len(en))):
            self.skipped += 1
            return None      # the codec's length field cannot carry the bulk request / a full stream frame of this device
        try:
            ref_out, ref_sum = run_session(None, flags, en, div, ops, started)
        except Exception as e:
            self.skipped += 1
            return None      # the history does not run under the built-in codec either: outside this property
        try:
            out, summ = run_session(P, flags, en, div, ops, started)
        except Exception as e:
            return {"key": "session-custom-codec", "what": "a client session that completes with the built-in codec raises "
                    f"{type(e).__name__}: {str(e)[:120]} with a custom codec on both sides", "codec": P,
                    "expected": "same results as with the built-in codec", "observed": type(e).__name__}
        if summ != ref_sum:
            k = next(k for k in summ if summ[k] != ref_sum[k])
            return {"key": "session-custom-codec", "what": f"session summary field {k!r} differs between the custom and the "
                    "built-in codec (decoded requests at the device / timing / thread errors)", "codec": P,
                    "expected": repr(ref_sum[k])[:400], "observed": repr(summ[k])[:400]}
        for i, (a, b) in enumerate(zip(out, ref_out)):
            if a != b:
                return {"key": "session-custom-codec", "what": f"call #{i} ({ops[i]}) of the session gives a different decoded "
                        "request sequence or client-visible result with the custom codec", "codec": P,
                        "expected": b, "observed": a}
        return None

    def stream_oracle(self, line):
        P, flags, chans, enable, nframes, chunk = parse_stream(line)
        rc = self.rc(P)
        if not rc.fits(max(2 + len(chans), stream_frame_len(chans))):
            self.skipped += 1
            return None      # the codec's length field cannot carry this device's frames
        try:
            ref = run_stream_session(None, flags, chans, enable, nframes, 0)
        except Exception:
            self.skipped += 1
            return None
        want_desc = (len(chans), flags, 0, [(c["type"], c["vdim"], c["name"], c["en"], 0, c["mlen"]) for c in chans])
        try:
            got = run_stream_session(P, flags, chans, enable, nframes, chunk)
        except Exception as e:
            return {"key": "stream-session-custom-codec", "what": "a connect / stream / disconnect session that completes with the "
                    f"built-in codec raises {type(e).__name__}: {str(e)[:120]} with a custom codec on both sides", "codec": P,
                    "expected": "same results as with the built-in codec", "observed": type(e).__name__}
        if got["description"] != want_desc:
            return {"key": "stream-session-custom-codec", "what": "device description read by the client differs from the device",
                    "codec": P, "expected": repr(want_desc)[:400], "observed": repr(got["description"])[:400]}
        keys = [k for k in ref if not (chunk and k == "time")]
        for k in keys:
            if got[k] != ref[k]:
                return {"key": "stream-session-custom-codec", "what": f"field {k!r} of a connect / configure / stream / disconnect "
                        "session differs between the custom and the built-in codec"
                        + (f" (custom run read in chunks of {chunk} bytes)" if chunk else ""), "codec": P,
                        "expected": repr(ref[k])[:500], "observed": repr(got[k])[:500]}
        return None

    def stream_lines(self, rng, tier):
        for ci, P in enumerate(self.codecs):
            for k in range(2):
                n = rng.randrange(1, 5)
                chans = []
                for _ in range(n):
                    ty = rng.choice([1, 2, 3, 4, 5, 6, 7, 8, 9, 10, 11, 12, 13, 14, 15, 18])
                    vdim = 0 if ty == 1 else rng.randrange(1, 4)
                    chans.append(f"{ty}:{vdim}:{rng.choice([0, 0, 1, 2, 4])}:{int(rng.random() < 0.3)}")
                enable = sorted(set(rng.randrange(n) for _ in range(rng.randrange(0, n + 1))))
                if not enable and not any(c.endswith(":1") for c in chans):
                    enable = [rng.randrange(n)]      # something must stream
                chunk = 0 if k == 0 else rng.choice([1, 2, 3, 5, 7, 11])
                yield (f"stream {P} {rng.choice([2, 3])} {','.join(chans)} {','.join(map(str, enable)) or '-'} "
                       f"{rng.randrange(2, 6)} {chunk}")

    def session_lines(self, rng, tier):
        T = tier == "thorough"
        for ci, P in enumerate(self.codecs):
            rc = self.rc(P)
            for k in range(5 if T else 6):
                big = [40] if rc.len_n == 1 else [100, 255]      # every frame of the session must fit the length field
                n = rng.choice([1, 2, 3, 4, 5, 8]) if (ci + k) % 9 else rng.choice(big)
                flags = rng.randrange(4)
                en = [rng.random() < 0.4 for _ in range(n)]
                div = [rng.choice([0, 0, 3, 200]) for _ in range(n)]
                ops = gen_history(rng, n, "a", maxlen=10)
                started = rng.random() < 0.3
                yield f"session {P} {flags} {sl.bits(en)} {sl.ints(div)} {int(started)} {';'.join(ops)}"

    def extra_checks(self, rng, tier, ev):
        """(d) whole sessions, real code on both runs; and the self-check of the two harness implementations"""
        viol = []
        # the oracle's reference codec agrees with the ICommFrame subclass on valid frames (harness self-check)
        for P in self.codecs:
            rc = self.rc(P)
            fr = fc.frame_cls(P)()
            for fid in (0, 4, 8):
                p = g.rbytes(rng, rng.randrange(0, 9))
                f = rc.create(fid, p)
                assert fr.frame_create(fid, p) == f, ("famcodec self-check: create", P)
                r = fr.frame_decode(f + b"\x00")
                assert (int(r.fid), r.data, int(r.err)) == (fid, p, 0), ("famcodec self-check: decode", P)
                assert rc.decode_at(f, 0) == (fid, p, len(f)), ("famcodec self-check: ref decode", P)
        self.skipped = 0
        lines = list(self.session_lines(rng, tier))
        nreq = 0
        nwrites = 0
        for l in lines:
            v = self.session_oracle(l)
            if v:
                v["case"] = l
                viol.append(v)
                if len(viol) >= 3:
                    break
            nwrites += l.count("W:")
        slines = list(self.stream_lines(rng, tier))
        nstream = 0
        for l in slines:
            if len(viol) >= 3:
                break
            v = self.stream_oracle(l)
            if v:
                v["case"] = l
                viol.append(v)
            nstream += 1
        cov = ev["coverage"]
        cov["sessions_skipped_outside_quantifier"] = self.skipped
        cov["stream_sessions"] = nstream
        cov["stream_session_samples"] = slines[:3]
        cov["codecs"] = len(self.codecs)
        cov["codec_samples"] = self.codecs[:8]
        cov["codec_hdr_lens"] = {str(h): sum(1 for P in self.codecs if self.rc(P).hdr_len == h) for h in range(3, 9)}
        cov["codec_foot_kinds"] = {k: sum(1 for P in self.codecs if P.endswith("foot=" + k)) for k in fc.FOOTS}
        cov["sessions"] = len(lines)
        cov["session_writes"] = nwrites
        cov["session_samples"] = lines[:3]
        return viol

    def search_cases(self, rng):
        """targeted: codecs whose sizes / start byte differ from the built-in ones in each direction"""
        for P in ["sof=a5;hdr=S,F,F,L2be,F,F,I;foot=crc32be", "sof=7e;hdr=S,L1,I;foot=xor",
                  "sof=55;hdr=S,L2le,I;foot=sum4le", "sof=33;hdr=S,I,L2le;foot=sum2be"]:
            rc = self.rc(P)
            f1, f2 = rc.create(2, b""), rc.create(5, b"\x01")
            for lead in (b"", b"\x01", b"\x01\x02\x03"):
                s = lead + f1 + f2
                for k in range(len(s) + 1):
                    yield f"fam {P} reasm run {hexs(s[:k])},-,{hexs(s[k:])}", "search"
                yield f"fam {P} reasm run " + ",".join(hexs(bytes([b])) for b in s), "search"
                yield f"fam {P} recv handle {hexs(lead + f2)}", "search"
                yield f"fam {P} recv handle {hexs(lead + f2 + bytes(7))}", "search"
            yield f"session {P} 3 010 0,0,0 0 e0;v3:1;W:a:a;d0,1;W:a:a", "search"
            yield f"stream {P} 3 10:2:0:0,4:1:1:1,18:4:0:0 0,2 3 0", "search"
            yield f"stream {P} 3 10:2:0:0,4:1:1:1,18:4:0:0 0,2 3 3", "search"


PROP = C20()
