"""C20 — custom frame codecs plug in without changing client or device-side behaviour."""
import contextlib
import random
import struct

from common import Prop, hexs, unhex, exc_name
import famcodec as fc
import genlib as g
import sessionlib as sl
import refdev
import streamgen as gen
import streamglue as sg
import vsim
from props.C02 import CB_OF
from props.C07 import gen_history

REQ_IDS = [2, 3, 5, 6, 7]


# ---------------------------------------------------------------------------------------------------------
# real code under a custom codec
# ---------------------------------------------------------------------------------------------------------
def run_real(chunks, cls, limit=200000):
    """the real CommHandler._recv_thread with Parser(frame=cls) over a scripted link -> delivered frames"""
    from nxslib.comm import CommHandler
    from nxslib.intf.iintf import ICommInterface
    from nxslib.proto.parse import Parser
    script = list(chunks)

    class Link(ICommInterface):
        def start(self): pass
        def stop(self): pass
        def drop_all(self): pass
        def _read(self):
            return script.pop(0) if script else b""
        def _write(self, data): pass

    comm = CommHandler(Link(), Parser(frame=cls))
    comm._dev = object()       # a device is known: ACK frames are queued like any other
    frames = []
    try:
        for _ in range(limit):
            had = bool(script)
            before = comm._prev_read
            comm._recv_thread()
            got = False
            for q in (comm._q, comm._q_stream):
                while not q.empty():
                    f = q.get_nowait()
                    frames.append((int(f.fid), bytes(f.data)))
                    got = True
            if not got and not had and not script and comm._prev_read == before:
                break
        else:
            raise RuntimeError("receive body did not become quiescent")
    finally:
        comm._dev = None
    return frames


def run_real_routed(chunks, cls, has_dev, limit=200000):
    """(control queue, stream queue) contents after the real CommHandler._recv_thread with Parser(frame=cls) processed the
    scripted reads; has_dev False: no device description is known yet (ACK frames are dropped)"""
    from nxslib.comm import CommHandler
    from nxslib.intf.iintf import ICommInterface
    from nxslib.proto.parse import Parser
    script = list(chunks)

    class Link(ICommInterface):
        def start(self): pass
        def stop(self): pass
        def drop_all(self): pass
        def _read(self):
            return script.pop(0) if script else b""
        def _write(self, data): pass

    comm = CommHandler(Link(), Parser(frame=cls))
    comm._dev = object() if has_dev else None
    try:
        for _ in range(limit):
            had = bool(script)
            before = comm._prev_read
            n = comm._q.qsize() + comm._q_stream.qsize()
            comm._recv_thread()
            if not had and not script and comm._prev_read == before and comm._q.qsize() + comm._q_stream.qsize() == n:
                break
        else:
            raise RuntimeError("receive body did not become quiescent")
        out = []
        for q in (comm._q, comm._q_stream):
            fr = []
            while not q.empty():
                f = q.get_nowait()
                fr.append((int(f.fid), bytes(f.data)))
            out.append(fr)
    finally:
        comm._dev = None
    return out


def routed_str(a, b):
    return fstr(a) + " / " + fstr(b)


def route_want(frames, has_dev):
    """the receive thread's routing rule, from the protocol description: STREAM frames (id 1) to the stream queue, ACK
    frames (id 4) dropped while no device description is known, everything else to the control queue, in arrival order"""
    return ([f for f in frames if f[0] != 1 and not (not has_dev and f[0] == 4)], [f for f in frames if f[0] == 1])


class Recorder:
    """the real ParseRecv(cb, frame=cls) with recording callbacks"""

    def __init__(self, cls):
        from nxslib.proto.iparserecv import ParseRecvCb
        from nxslib.proto.parserecv import ParseRecv
        self.calls = []
        mk = lambda name: (lambda data: self.calls.append((name, bytes(data))))
        self.p = ParseRecv(ParseRecvCb(cmninfo=mk("cmninfo"), chinfo=mk("chinfo"), enable=mk("enable"),
                                       div=mk("div"), start=mk("start")), frame=cls)

    def handle(self, d):
        self.calls.clear()
        try:
            self.p.recv_handle(d)
        except AssertionError:
            return "raised assert"
        except Exception as e:
            return "raised " + exc_name(e)
        if not self.calls:
            return "ignored"
        if len(self.calls) > 1:
            return "multi " + repr(self.calls)
        return f"fired {self.calls[0][0]} {hexs(self.calls[0][1])}"


def seq_reactions(cls, writes):
    """the reactions of ONE long-lived ParseRecv(cb, frame=cls) to the writes, in order (a device keeps its parser
    object for its whole life: DummyDev, PRDevice)"""
    rec = Recorder(cls)
    return [rec.handle(w) for w in writes]


def fstr(frames):
    return "ok " + (",".join(f"{fid}:{hexs(d)}" for fid, d in frames) or "-")


def map_frames(state, codec, pad=0):
    """per-op state string of sessionlib with the sent frames decoded through `codec`: s=<id>:<payload>,...
    pad > 0 (the device asked for rx padding): a write that is the frame followed by zero bytes up to the next multiple
    of `pad` counts as the frame alone (sessionlib strips that padding itself, for the built-in framing only)"""
    out = []
    for kv in state.split(";"):
        if kv.startswith("s=") and kv != "s=-":
            dec = []
            for x in kv[2:].split(","):
                b = unhex(x)
                r = codec.decode_at(b, 0)
                if r and pad and len(b) > r[2] and not any(b[r[2]:]) and len(b) == -(-r[2] // pad) * pad:
                    b = b[:r[2]]
                dec.append(f"{r[0]}:{hexs(r[1])}+{len(b) - r[2]}" if r else "undecodable:" + x)
            kv = "s=" + ",".join(dec)
        out.append(kv)
    return ";".join(out)


PR_DEVICES = []      # the ParseRecv-based devices created by the sessions (their wire problems are read back)


@contextlib.contextmanager
def device_kind(pstr, kind):
    """kind "pr": the session's device is famcodec's ParseRecv(cb, frame=cls)-based one instead of the reference device
    (sessionlib constructs `refdev.RefDevice`; swapped for the duration of the session)"""
    if kind != "pr":
        yield
        return
    base = fc.pr_device_factory(pstr)

    def make(*a, **kw):
        d = base(*a, **kw)
        PR_DEVICES.append(d)
        return d
    old = refdev.RefDevice
    refdev.RefDevice = make
    try:
        yield
    finally:
        refdev.RefDevice = old


def run_session(pstr, flags, en, div, ops, started, dev="ref", pad=0):
    """(mapped per-op states, summary) of one whole client session; pstr None = the built-in codec;
    dev "pr": the device's wire side is the real ParseRecv(cb, frame=cls) — ONE parser object for the whole session;
    pad: the rx padding the device reports (the client then zero-pads every write to a multiple of it)"""
    del PR_DEVICES[:]
    if pstr is None:
        out, info = sl.run_cfg_history(flags, en, div, ops, rxpadding=pad, started=started)
        codec = fc.SerialRef()
    else:
        with device_kind(pstr, dev):
            out, info = sl.run_cfg_history(flags, en, div, ops, rxpadding=pad, started=started,
                                           codec_factory=lambda: fc.RefCodec(pstr), frame_cls=fc.frame_cls(pstr))
        codec = fc.RefCodec(pstr)
    summ = {"errors": info["errors"], "live_after": info["live_after"],
            "connect_time": round(info.get("connect_time", -1) * 10),
            "dev_started_after_connect": info.get("dev_started_after_connect"),
            "unaligned_writes": info.get("unaligned", []),
            "requests": [(round(t * 10), k, hexs(p)) for t, k, p in info["log"]]}
    if dev == "pr":
        summ["wire_problems"] = [(fid, hexs(pl), f if isinstance(f, str) or f is None else hexs(f))
                                 for d in PR_DEVICES for fid, pl, f in d.wire_problems]
    return [map_frames(s, codec, pad) for s in out], summ


def parse_stream(line):
    # stream <P> <flags> <type:vdim:mlen:en,...> <enable ids> <nframes> <chunk>
    t = line.split(" ")
    chans = []
    for i, c in enumerate(t[3].split(",")):
        ty, vdim, mlen, en = (int(x) for x in c.split(":"))
        chans.append(dict(en=bool(en), type=ty, vdim=vdim, div=0, mlen=mlen, name=f"c{i}"))
    enable = [int(x) for x in t[4].split(",")] if t[4] != "-" else []
    return t[1], int(t[2]), chans, enable, int(t[5]), int(t[6]), (t[7] if len(t) > 7 else "ref")


def stream_frame_len(chans):
    return 1 + sum(1 + sg.STD[c["type"] & 0x1F][1] * c["vdim"] + c["mlen"] for c in chans)


def run_stream_session(pstr, flags, chans, enable, nframes, chunk=0, dev="ref"):
    """connect, read the device description, enable channels, write, start the stream, take `nframes` stream frames
    from CommHandler.stream_data(), stop, disconnect.  pstr None = the built-in codec.  chunk > 0: the link hands
    out at most `chunk` bytes per read (then the stream is slowed down so that the client keeps up)."""
    devkind = dev
    rc = fc.RefCodec(pstr) if pstr else None
    flen = stream_frame_len(chans) + (rc.hdr_len + rc.foot_len if rc else 6)
    every = 2 if not chunk else 3 * (-(-flen // chunk)) + 5

    def scenario(sim):
        from nxslib.comm import CommHandler
        from nxslib.proto.parse import Parser
        dcls = fc.pr_device_factory(pstr) if (devkind == "pr" and pstr) else refdev.RefDevice
        dev = dcls(chans, flags=flags, codec=rc)
        link = refdev.make_link(sim, dev, stream_every=every, chunker=(lambda n: chunk) if chunk else None)
        comm = CommHandler(link, Parser(frame=fc.frame_cls(pstr)) if pstr else Parser())
        comm.connect()
        d = comm.dev
        n = d.data.chmax
        desc = (n, d.data.flags, d.data.rxpadding,
                [(c.data._type, c.data.vdim, c.data.name, c.data.en, c.data.div, c.data.mlen)
                 for c in (d.channel_get(i) for i in range(n))])
        if enable:
            comm.ch_enable(list(enable))
        comm.channels_write()
        a1 = comm.stream_start()
        frames = []
        tries = 0
        while len(frames) < nframes and tries < 10 * nframes + 20:
            tries += 1
            st = comm.stream_data()
            if st is not None:
                frames.append((st.flags, [(x.chan, sg.kind_code(x.dtype), x.vdim, x.mlen, repr(x.data), repr(x.meta)) for x in st.samples]))
        a2 = comm.stream_stop()
        comm.disconnect()
        return {"description": desc, "acks": (repr(a1), repr(a2)), "stream": frames, "dev_en": dev.en,
                "wire_problems": [(fid, hexs(pl), f if isinstance(f, str) or f is None else hexs(f))
                                  for fid, pl, f in getattr(dev, "wire_problems", [])],
                "dev_started": dev.started, "requests": [(k, hexs(p)) for _, k, p in dev.log],
                "live_after": [t.name for t in sim.live_tasks()], "time": round(sim.now * 10)}

    r, sim = vsim.run_sim(scenario)
    if isinstance(r, BaseException):
        raise r
    r["errors"] = [(n, repr(e)) for n, e, _ in sim.errors]
    return r


def parse_session(line):
    t = line.split(" ")
    # session <P> <flags> <en> <div> <started> <ops> [<ref|pr> [pad=<rx padding>]]
    en = [] if t[3] == "-" else [c == "1" for c in t[3]]
    div = [] if t[4] == "-" else [int(x) for x in t[4].split(",")]
    pad = int(t[8][4:]) if len(t) > 8 and t[8].startswith("pad=") else 0
    return t[1], int(t[2]), en, div, t[5] == "1", t[6].split(";"), (t[7] if len(t) > 7 else "ref"), pad


# ---------------------------------------------------------------------------------------------------------
# generators, parameterised by the reference codec
# ---------------------------------------------------------------------------------------------------------
def payload_for(rng, fid):
    if fid == 2:
        return b""
    if fid in (3, 5):
        return bytes([rng.randrange(256)])
    return g.rbytes(rng, rng.randrange(1, 12))


def valid_frame(rng, rc, maxlen=8):
    n = rng.choice([0, 0, 1, 1, 2, 3, rng.randrange(0, maxlen + 1)])
    return rc.create(rng.randrange(9), g.rbytes(rng, n))


def request_frame(rng, rc):
    fid = rng.choice(REQ_IDS)
    return rc.create(fid, payload_for(rng, fid))


def noise(rng, rc, n):
    pool = [rc.sof, rc.sof, 0x00, 0x55, rc.hdr_len + rc.foot_len, rc.hdr_len + rc.foot_len + 1, rng.randrange(256)]
    return bytes(rng.choice(pool) for _ in range(n))


def gen_stream(rng, rc, maxparts=6):
    parts = []
    for _ in range(rng.randrange(1, maxparts + 1)):
        r = rng.random()
        if r < 0.45:
            parts.append(valid_frame(rng, rc, 6))
        elif r < 0.6:
            parts.append(noise(rng, rc, rng.randrange(1, 6)))
        elif r < 0.7:
            f = valid_frame(rng, rc, 6)
            parts.append(f[:rng.randrange(1, len(f))])                      # cut-off frame
        elif r < 0.8:
            f = bytearray(valid_frame(rng, rc, 6))
            f[rng.randrange(len(f))] ^= 1 << rng.randrange(8)                # damaged frame
            parts.append(bytes(f))
        elif r < 0.88:
            f = valid_frame(rng, rc, 2)                                      # bogus header: small / odd declared length
            parts.append(rc.set_len(f, rng.choice([0, 1, 3, rc.hdr_len, rc.hdr_len + rc.foot_len - 1, 12, 40]))[:rc.hdr_len])
        else:
            parts.append(bytes(rng.choice([0, rc.sof, 0xFF]) for _ in range(rng.randrange(1, 4))))
    return b"".join(parts)


def gen_routed_stream(rng, rc, nparts=5):
    """valid frames rich in STREAM (1) and ACK (4) ids between the other response ids, some noise / damage between"""
    parts = []
    for _ in range(rng.randrange(2, nparts + 1)):
        r = rng.random()
        if r < 0.75:
            fid = rng.choice([1, 1, 1, 4, 4, 2, 3, 0, 5, 6, 7, 8])
            parts.append(rc.create(fid, g.rbytes(rng, rng.choice([0, 1, 2, 4, 4, 7]))))
        elif r < 0.85:
            parts.append(noise(rng, rc, rng.randrange(1, 5)))
        else:
            f = bytearray(rc.create(rng.choice([1, 4]), g.rbytes(rng, 4)))
            f[rng.randrange(len(f))] ^= 1 << rng.randrange(8)
            parts.append(bytes(f))
    return b"".join(parts)


def align(frame, pad):
    """a write as CommInterfaceCommon.write() hands it to the link when the device reports rx padding `pad`: zero
    bytes up to the next multiple of `pad`"""
    return frame + bytes(-len(frame) % pad) if pad > 1 else frame


def session_requests(rng, rc, n=None):
    """well-formed requests as a client sends them in a row: cmninfo, chinfo 0.., div / enable in single, bulk and
    all form, start / stop (payload sizes a real request has, so that every one of them must reach its callback)"""
    nch = rng.randrange(2, 6)
    reqs = [rc.create(5, b"\x00"), rc.create(2, b"")] + [rc.create(3, bytes([c])) for c in range(nch)]
    reqs += [rc.create(7, bytes([1, 0] + [rng.choice([0, 1, 7, 255]) for _ in range(nch)])),
             rc.create(6, bytes([0, rng.randrange(nch), 1])),
             rc.create(6, bytes([1, 0] + [rng.randrange(2) for _ in range(nch)])),
             rc.create(7, bytes([2, 0, rng.randrange(256)])),
             rc.create(6, bytes([2, 0, 0])),
             rc.create(5, b"\x01")]
    if n is not None:
        k = rng.randrange(0, len(reqs) - n + 1)
        reqs = reqs[k:k + n]
    return reqs


def padded_sequence(rng, rc, pad, n=4):
    """n consecutive requests, each written alone and zero-padded to a multiple of `pad`"""
    return [align(f, pad) for f in session_requests(rng, rc, n)]


def mixed_sequence(rng, rc, n=6):
    """requests (padded by 0..32 zero bytes) with other writes between them: padding only, a request cut short, a
    damaged request, noise rich in the start byte — every write is judged on its own"""
    out = []
    for _ in range(n):
        r = rng.random()
        f = request_frame(rng, rc) if r < 0.3 else rng.choice(session_requests(rng, rc))
        if r < 0.55:
            out.append(f + bytes(rng.randrange(0, 33)))
        elif r < 0.65:
            out.append(bytes(rng.choice([1, 4, 16, 32])))
        elif r < 0.78:
            out.append(f[:rng.randrange(1, len(f))])
        elif r < 0.88:
            b = bytearray(f)
            b[rng.randrange(len(b))] ^= 1 << rng.randrange(8)
            out.append(bytes(b) + bytes(rng.randrange(0, 9)))
        else:
            out.append(noise(rng, rc, rng.randrange(1, 12)))
    return out


# start byte 0x00 = the byte the client pads its writes with (sequence checks; on top of the drawn codecs)
ZERO_SOF_CODECS = ["sof=00;hdr=S,L2le,I;foot=crc32be", "sof=00;hdr=S,I,L2be,F;foot=xor;impl=s",
                   "sof=00;hdr=S,Fff,L1,I,F;foot=sum2le;impl=ib", "sof=00;hdr=S,I,L2le;foot=crc32le;impl=Ena"]


# regression sequences (also in corpus/C20/seeded.txt as consecutive `recv handle` lines).  C20-r5m2: four chinfo requests
# padded to 16 bytes, start byte 0x00
FIXED_SEQUENCES = ["fam sof=00;hdr=S,L2le,I;foot=crc32be recv seq 00090003009007eb5400000000000000,"
                   "0009000301e700dbc200000000000000,00090003027e098a7800000000000000,0009000303090ebaee00000000000000"]


def seq_line(P, writes):
    return f"fam {P} recv seq " + ",".join(hexs(w) for w in writes)


def draw_codecs(rng, n):
    """n members, stratified over header length 3..8 and the ten footer kinds, plus fixed corner members"""
    fixed = ["sof=55;hdr=S,L2le,I;foot=sum2be",          # the built-in layout with another checksum
             "sof=00;hdr=S,I,F7e,L1;foot=sum3be",        # start byte 0x00
             "sof=aa;hdr=S,F,Fff,F,L2be,F,I;foot=crc32le",   # 8-byte header
             "sof=55;hdr=S,L1,I;foot=xor",               # 3-byte header, 1-byte footer
             "sof=7e;hdr=S,L4le,I;foot=crc32be",         # 32-bit length field
             "sof=55;hdr=S,I,L3be,F;foot=sum2le"]        # 24-bit length field, big-endian
    out = list(fixed[:max(0, min(len(fixed), n // 4))])
    k = 0
    hls = [3, 4, 5, 6, 7, 8]
    while len(out) < n:
        p = fc.random_params(rng, hdr_len=hls[k % 6], foot=fc.FOOTS[(k // 2) % len(fc.FOOTS)] if k % 2 else None)
        k += 1
        s = str(p)
        if s not in out:
            out.append(s)
    # how each member is realised as a Python class (famcodec.frame_cls): derived from ICommFrame or from another
    # concrete codec class (s), rejections reported as HDR / FOOT or (partly: e, always: E) as the generic ERR
    return [P + (";impl=" + IMPLS[i % len(IMPLS)] if IMPLS[i % len(IMPLS)] else "") for i, P in enumerate(out)]


# realisations (famcodec.frame_cls): base class (s), error codes (e / E) x the concrete Python types of the results
# (i: frame id a plain int; n: frame id a member of the codec's own IntEnum; a: payload a bytearray; m: memoryview
# inside; b: frame_create returns a bytearray).  Sixteen combinations; every letter occurs with and without `s`.
IMPLS = ["", "si", "e", "sEn", "ib", "se", "Ea", "s", "n", "sab", "eim", "sE", "ab", "senm", "Eib", "sia"]


def builder_args(rng):
    """argument lists of the library's builders — the SAME list is run with every codec (payload-keyed shared state!)"""
    A = []
    for r in (0, 0, -22, 1, 0):
        A.append(f"ackenc {r}")
    for _ in range(2):
        a = f"cmnenc {rng.randrange(256)} {rng.randrange(4)} {rng.choice([0, 16])}"
        A += [a, a]
    for i in range(3):
        name = rng.choice(["ch%d" % i, "chan%d" % i, "vé%d" % i, "x" * rng.randrange(1, 30)])
        a = (f"chienc {rng.randrange(2)} {rng.choice([1, 2, 10, 18, 0x8a])} {rng.randrange(4)} {rng.choice([0, 3, 200])} "
             f"{rng.choice([0, 1, 4])} {hexs(name.encode())}")
        A += [a, a]
    A += ["reqstart 1", "reqstart 0", "reqcmninfo", "reqcmninfo", f"reqchinfo {rng.randrange(255)}", "reqchinfo 0"]
    for _ in range(2):
        n = rng.choice([1, 2, 3, 5, 8, 12])
        c = rng.randrange(n)
        v = rng.randrange(2)
        mixed = [rng.randrange(2) for _ in range(n)]
        if n > 1:
            mixed[0], mixed[1] = 0, 1
        A.append(f"reqen s {n} {c} {v}")
        A.append(f"reqen v {n} {''.join(str(v) for _ in range(n))}")
        A.append(f"reqen v {n} {''.join(map(str, mixed))}")
        d = rng.choice([0, 1, 3, 200, 255])
        dm = [rng.choice([0, 1, 7, 255]) for _ in range(n)]
        if n > 1:
            dm[0], dm[1] = 2, 9
        A.append(f"reqdiv s {n} {c} {d}")
        A.append(f"reqdiv v {n} {','.join(str(d) for _ in range(n))}")
        A.append(f"reqdiv v {n} {','.join(map(str, dm))}")
    for _ in range(3):
        layout = gen.gen_layout(rng, {}, nmax=4)
        layout = [(ty, min(vd, 3), ml if ml in (0, 1, 2, 4) else 0) for ty, vd, ml in layout]
        strs = []
        for _ in range(rng.randrange(1, 4)):
            chan = rng.randrange(len(layout))
            ty, vd, ml = layout[chan]
            if ty == 1 and ml == 0:
                layout[chan] = (1, 0, 1)       # a NONE-type sample carries something only through its metadata
            smp = gen.gen_sample(rng, layout, {}, chan, for_encode=True)
            strs.append(gen.sample_str(layout, {}, smp, client_side=False))
        a = "streamenc - " + "|".join(strs)
        A += [a, a]
    return A


BUILDER_OPS = ("ackenc", "cmnenc", "chienc", "reqstart", "reqcmninfo", "reqchinfo", "reqen", "reqdiv", "streamenc")


def builder_payload(t):
    """(frame id, NxScope payload) the protocol prescribes for a builder line `<op> <args…>` — written from the protocol
    description, independent of nxslib and of the model; None = no frame (nothing to stream)"""
    op = t[0]
    if op == "ackenc":
        return 4, struct.pack("<i", int(t[1]))
    if op == "cmnenc":
        return 2, bytes([int(t[1]), int(t[2]), int(t[3])])
    if op == "chienc":
        return 3, bytes([int(t[1]) & 1, int(t[2]), int(t[3]), int(t[4]), int(t[5])]) + unhex(t[6])
    if op == "reqstart":
        return 5, bytes([int(t[1])])
    if op == "reqcmninfo":
        return 2, b""
    if op == "reqchinfo":
        return 3, bytes([int(t[1])])
    if op in ("reqen", "reqdiv"):
        fid = 6 if op == "reqen" else 7
        if t[1] == "s":
            return fid, bytes([0, int(t[3]), int(t[4])])
        vals = [int(c) for c in t[3]] if op == "reqen" else [int(x) for x in t[3].split(",")]
        if len(set(vals)) == 1 and len(vals) == int(t[2]):
            return fid, bytes([2, 0, vals[0]])
        return fid, bytes([1, 0] + vals)
    if op == "streamenc":
        parsed = [sg.parse_sample(x) for x in t[2].split("|")]
        layout = {c: (ty, vd, ml) for c, ty, vd, ml, _, _ in parsed}
        smp = [(c, data, meta) for c, ty, vd, ml, data, meta in parsed if data or meta]
        if not smp:
            return None
        return 1, sg.ref_wire(layout, {}, smp)
    raise ValueError(t)


SEARCH_CODECS = ["sof=a5;hdr=S,F,F,L2be,F,F,I;foot=crc32be", "sof=7e;hdr=S,L1,I;foot=xor;impl=s",
                 "sof=55;hdr=S,L2le,I;foot=sum4le;impl=se", "sof=33;hdr=S,I,L2le;foot=sum2be;impl=E",
                 "sof=a5;hdr=S,L2le,I;foot=sum2be;impl=ib", "sof=3c;hdr=S,I,L1;foot=sum1;impl=sna",
                 "sof=55;hdr=S,L2le,I;foot=crc32le;impl=Eim"]


# sessions run on every check: a member derived from ICommFrame and one derived from SerialFrame, each against the
# reference device and against the ParseRecv-based device
_FIX = ["sof=a5;hdr=S,I,L2be,F,F;foot=xor", "sof=a5;hdr=S,L2le,I;foot=sum2be;impl=s",
        "sof=a5;hdr=S,L2le,I;foot=sum2be;impl=ib",        # frame id a plain int, frames handed out as bytearray
        "sof=3c;hdr=S,I,L1;foot=sum1;impl=na"]            # frame id of the codec's own IntEnum, payload a bytearray
FIXED_SESSIONS = [f"session {P} 3 010 0,0,0 0 e0;v3:1;W:a:a;d0,1;W:a:a {dev}" for P in _FIX for dev in ("ref", "pr")]
# the device reports rx padding: every request after cmninfo is written zero-padded; start byte 0x00 = the padding byte
FIXED_SESSIONS += [f"session {P} 3 010 0,0,0 0 e0;v3:1;W:a:a;d0,1;W:a:a {dev} pad={pad}"
                   for P, pad in (("sof=00;hdr=S,L2le,I;foot=crc32be", 16), ("sof=00;hdr=S,I,L2be,F;foot=xor;impl=s", 5),
                                  ("sof=a5;hdr=S,I,L2be,F,F;foot=xor", 16))
                   for dev in ("ref", "pr")]
FIXED_STREAMS = [f"stream {P} 3 10:2:0:0,4:1:1:1,18:4:0:0 0,2 3 3 {dev}" for P in _FIX for dev in ("ref", "pr")]


class C20(Prop):
    id = "C20"
    lean_module = "NxsModel.Props.C20"
    rule = ("24 (quick) / 200 (thorough) codecs drawn from VERIF_SEED, stratified over header length 3..8 and the ten "
            "footer kinds (+ fixed corner members: start byte 0x00, 3- and 8-byte headers, 24- and 32-bit length fields), "
            "each realised as a Python class in one of sixteen ways (derived from ICommFrame, or from ANOTHER CONCRETE codec "
            "class — the built-in SerialFrame, then each other, parents instantiated first; rejections reported as HDR / "
            "FOOT, or partly / always as the generic EParseError.ERR; the frame id reported as an EParseId member, as the "
            "plain int read off the wire or as a member of the codec's own IntEnum; payloads as bytes or bytearray, with "
            "or without a memoryview inside; frame_create returning bytes or bytearray); (0) EVERY frame_create site of the library — the six "
            "Parser builders incl. enable / div in tuple, ALL and BULK form, the four ParseRecv encoders incl. chinfo and "
            "stream — with every drawn codec AND the built-in one in ONE process, the same argument list passing through "
            "all codecs in alternating order, vs the codec-generic builders of Generic.lean; per codec: (a) the ICommFrame "
            "subclass generated for it vs the Lean family on create (ids 0..9/255/256, lengths incl. the 255/256 and "
            "65535/65536 length-field boundaries) / decode / hdr / foot / find inputs; (b) streams of valid frames, noise "
            "rich in the codec's start byte, cut-off / damaged frames, bogus headers x chunkings (all compositions of "
            "short streams, every single split, byte-wise, random, empty reads), and frames of 64 / 65 / 255 / 256 / 257 / "
            "1024 / 1025 (every codec) and 32767 / 32768 / 65535 (every fourth) and 65536+ (wide length fields) bytes, "
            "through the real CommHandler._recv_thread with Parser(frame=cls) vs Reasm.run (codec P), and streams rich "
            "in STREAM / ACK frames (every id 0..8 back to back, whole and byte-wise; random chunkings; device known / not "
            "yet known) with the ROUTING to the control / stream queue vs Route.queues (Reasm.run (codec P)); (c) requests, "
            "leading noise, zero padding, near-miss footers, declared-length / id / start-byte sweeps, truncations, noise "
            "and the same frame sizes through the real ParseRecv(cb, frame=cls) vs recvHandleWith (codec P); (c') SEQUENCES of writes "
            "through ONE long-lived ParseRecv(cb, frame=cls) per codec (built-in codec, four extra codecs whose start byte "
            "is the padding byte 0x00, every drawn codec): 4..8 consecutive session requests each zero-padded to an rx "
            "padding (all of 1..32 for start byte 0x00, six of them otherwise), and requests mixed with padding-only / "
            "cut-off / damaged / noise writes; every write vs the stateless recvHandleWith (codec P), and the whole "
            "sequence judged by the oracle write by write (line `fam <P> recv seq w1,w2,..`); (d) whole "
            "client sessions (connect, random configuration history, writes, disconnect) of the real CommHandler under "
            "virtual time, half against the reference device speaking the same codec and half against a device whose wire "
            "side is the real ParseRecv(cb, frame=cls) (recv_handle + the four encoders, built like DummyDev's callbacks), "
            "compared op by op with the same history under the built-in codec after decoding the sent frames (decoded "
            "requests at the device with their virtual times, client view, device state, errors; every third session — "
            "every one from the third on for a start byte 0x00 — with a device reporting rx padding 2..32, writes aligned; every frame of the real "
            "encoders = the codec's framing of the NxScope payload), and connect / read description / enable / write / "
            "stream start / N stream frames through stream_data() / stop / disconnect sessions on devices with mixed "
            "channel types, vector sizes and metadata, with whole reads and with reads of 1..11 bytes, compared with the "
            "built-in-codec run (description, samples, acks, requests); "
            "distinct = distinct line; non-trivial = a line whose codec differs from the built-in one in header length, "
            "footer length or start byte and whose input contains the codec's start byte")
    assumptions = ["'honours the frame interface', as to Python types: the VALUES a codec returns are those of the model "
                   "(LawfulCodec); the concrete types are varied where nxslib compares by value — frame id as EParseId member / "
                   "plain int / member of another IntEnum, payload and created frame as bytes / bytearray; they are NOT varied "
                   "where nxslib itself compares by identity: foot_validate returns a real bool (annotation `-> bool`; "
                   "recv_handle and SerialFrame.frame_decode test `foot_validate(...) is False`, so with a codec returning "
                   "int(ok) the device side dispatches a corrupted request that the same codec's frame_decode rejects on the "
                   "client side — existing behaviour of /repo, reproduced by review demo demo_footint.py, classed as outside "
                   "the quantifier: such a codec does not honour the interface) and err is a member of EParseError (`hdr.err is "
                   "not EParseError.NOERR`, rule R5 of the static scan); hdr_find / flen / hdr_len / foot_len are plain ints",
                   "the ICommFrame subclasses of harness/famcodec.py are checked against the Lean family on every run "
                   "(create/decode/hdr/foot/find), not verified; a codec may report a rejection with any non-NOERR code: for the "
                   "members realised with EParseError.ERR the error KIND of decode / hdr is not compared (success / failure is)",
                   "virtual-time runtime (harness/vsim.py) and reference device (harness/refdev.py) as in C07",
                   "requests, device description, acknowledgements and stream delivery under a custom codec are theorems over "
                   "every lawful codec (Props/C20.lean, section 'the complete client session'); the Config / Handshake state "
                   "machines (retries, buffering, resynchronisation) are functions of the decoded frames and their equivalence "
                   "under custom codecs is established by differential sessions, not by a Lean theorem",
                   "nxslib's simulated device DummyDev constructs ParseRecv(cb) with the built-in codec and cannot be given a "
                   "codec; the ParseRecv-based device of the sessions is harness/famcodec.py's PRDevice"]
    trusted_base = Prop.trusted_base + ["harness/translate_frameuse.py (static scan of codec uses / frame literals)"]

    def __init__(self):
        self.codecs = []
        self._rc = {}
        self._rec = {}
        self.skipped = 0

    # -- helpers ------------------------------------------------------------------------------------------
    def rc(self, pstr):
        if pstr not in self._rc:
            self._rc[pstr] = refdev.SerialCodec() if pstr == "serial" else fc.RefCodec(pstr)
        return self._rc[pstr]

    @staticmethod
    def cls(pstr):
        if pstr == "serial":
            from nxslib.proto.serialframe import SerialFrame
            return SerialFrame
        return fc.frame_cls(pstr)

    _parsers = {}

    def rec(self, pstr):
        if pstr not in self._rec:
            self._rec[pstr] = Recorder(self.cls(pstr))
        return self._rec[pstr]

    def parser(self, pstr):
        from nxslib.proto.parse import Parser
        if pstr not in self._parsers:
            self._parsers[pstr] = Parser(frame=self.cls(pstr))
        return self._parsers[pstr]

    # -- cases --------------------------------------------------------------------------------------------
    def cases(self, rng, tier):
        T = tier == "thorough"
        self.codecs = draw_codecs(rng, 200 if T else 24)
        # EVERY `frame_create` site of the library (Gen.FrameUse.uses: the six Parser builders incl. enable / div in
        # their single / ALL / BULK forms, the four ParseRecv encoders incl. chinfo and stream) with every drawn codec AND
        # the built-in one, in ONE process, the same arguments passing through all codecs one after the other (state
        # shared between parser objects or codec classes shows here), in alternating codec order
        order = ["serial"] + self.codecs
        for k, a in enumerate(builder_args(rng)):
            for P in (order if k % 2 == 0 else order[::-1]):
                yield f"fam {P} {a}", "builder-" + a.split(" ")[0]
        for ci, P in enumerate(self.codecs):
            rc = self.rc(P)
            pre = f"fam {P} "
            yield pre + "info", "info"
            # (a) the family member itself
            for fid in [0, 1, 2, 5, 8, 9, 255, 256]:
                yield pre + f"create {fid} {hexs(g.rbytes(rng, rng.randrange(0, 6)))}", "create"
            yield pre + "create 2 none", "create"
            lim = 256 ** rc.len_n - rc.hdr_len - rc.foot_len      # first payload length that does not fit
            if rc.len_n == 1 or (rc.len_n == 2 and ci % 4 == 0):
                for n in (lim - 1, lim):
                    yield pre + f"create 1 {hexs(bytes((i * 31 + n) & 0xFF for i in range(n)))}", "create-boundary"
            if rc.len_n >= 3:
                # frames longer than the built-in codec's 16-bit length field can express
                for total in (65536, 65537 + rng.randrange(5000)):
                    n = total - rc.hdr_len - rc.foot_len
                    pl = bytes((i * 29 + total + (i >> 8)) & 0xFF for i in range(n))
                    big = rc.create(6, pl)
                    yield pre + f"create 6 {hexs(pl)}", "create-over-64k"
                    yield pre + f"decode {hexs(big)}", "decode-over-64k"
                    b = bytearray(big)
                    b[rng.randrange(len(b))] ^= 1 << rng.randrange(8)
                    yield pre + f"decode {hexs(bytes(b))}", "decode-over-64k-damaged"
                    k1, k2 = rng.randrange(1, 3000), 65530 + rng.randrange(12)
                    tail = valid_frame(rng, rc)
                    yield pre + f"reasm run {hexs(big[:k1])},{hexs(big[k1:k2])},-,{hexs(big[k2:] + tail)}", "reasm-over-64k"
                    yield pre + f"recv handle {hexs(big + bytes(rng.randrange(0, 9)))}", "request-over-64k"
            # frame sizes around every power-of-256 boundary of a length field and around the buffer sizes a receiver
            # might assume (64, 1 KiB, 32 KiB, 64 KiB), through the real receive path and the real dispatcher
            if rc.len_n == 1:
                totals = [64, 65, 254, 255]
            else:
                totals = [64, 65, 255, 256, 257, 1024, 1025] + ([32767, 32768, 65535] if ci % (8 if T else 4) == 0 else [])
            for total in totals:
                n = total - rc.hdr_len - rc.foot_len
                pl = bytes((i * 37 + total + (i >> 8)) & 0xFF for i in range(n))
                fid = rng.choice([6, 7])
                f = rc.create(fid, pl)
                tail = valid_frame(rng, rc)
                k1 = rng.randrange(1, min(len(f), 40))
                k2 = rng.randrange(k1, len(f))
                yield pre + f"reasm run {hexs(f[:k1])},{hexs(f[k1:k2])},-,{hexs(f[k2:] + tail)}", "reasm-boundary-size"
                yield pre + f"reasm run {hexs(tail + f)},{hexs(tail)}", "reasm-boundary-size"
                yield pre + f"recv handle {hexs(f + bytes(rng.randrange(0, 9)))}", "request-boundary-size"
                yield pre + f"create {fid} {hexs(pl)}", "create-boundary-size"
            for _ in range(6):
                f = valid_frame(rng, rc)
                yield pre + f"decode {hexs(f)}", "decode-valid"
                yield pre + f"decode {hexs(f + g.rbytes(rng, rng.randrange(1, 5)))}", "decode-extended"
                yield pre + f"decode {hexs(f[:rng.randrange(0, len(f))])}", "decode-truncated"
                b = bytearray(f)
                b[rng.randrange(len(b))] ^= 1 << rng.randrange(8)
                yield pre + f"decode {hexs(bytes(b))}", "decode-damaged"
                yield pre + f"hdr {hexs(bytes(b)[:rng.randrange(0, rc.hdr_len + 2)])}", "hdr"
                yield pre + f"foot {hexs(f)}", "foot"
                yield pre + f"foot {hexs(bytes(b))}", "foot"
                yield pre + f"foot {hexs(f[:rng.randrange(0, rc.foot_len + 1)])}", "foot-short"
                yield pre + f"find {hexs(noise(rng, rc, rng.randrange(0, 9)))}", "find"
            for n in range(0, rc.hdr_len + rc.foot_len + 3):
                f = rc.refoot(rc.set_len(rc.create(3, b"\x07" * 3), n))
                yield pre + f"decode {hexs(f)}", "decode-len-sweep"
            for fid in range(0, 12):
                yield pre + f"decode {hexs(rc.create(fid, b'ab'))}", "decode-id-sweep"
            # (b) reassembly through the real receive path
            for _ in range(3 if T else 2):
                s = gen_stream(rng, rc, 2)[:(10 if T and ci % 2 == 0 else 9)]
                for sizes in g.compositions(len(s)):
                    yield pre + "reasm run " + ",".join(hexs(c) for c in (g.chunk(s, sizes) or [b""])), "all-compositions"
            for _ in range(4 if T else 2):
                s = gen_stream(rng, rc, 4)
                for k in range(len(s) + 1):
                    yield pre + f"reasm run {hexs(s[:k])},{hexs(s[k:])}", "single-split"
                    if k % 3 == 0:
                        yield pre + f"reasm run {hexs(s[:k])},-,{hexs(s[k:])}", "single-split-empty"
                yield pre + "reasm run " + ",".join(hexs(bytes([b])) for b in s), "bytewise"
                yield pre + f"reasm run {hexs(s)}", "one-read"
            for _ in range(100 if T else 60):
                s = gen_stream(rng, rc, 6)
                yield pre + "reasm run " + ",".join(hexs(c) for c in (g.random_chunking(rng, s) or [b""])), "random"
            for _ in range(3):
                f1, f2 = valid_frame(rng, rc), valid_frame(rng, rc)
                lead = bytes(rng.randrange(0, 3))
                if rc.sof == 0:
                    lead = b"\x01" * len(lead)
                for k in range(0, rc.hdr_len + 2):
                    yield pre + f"reasm run {hexs(lead + f1[:k])},-,{hexs(f1[k:] + f2)}", "residue"
            # (b') the receive thread's ROUTING of the reassembled frames (stream queue / control queue / ACK dropped while
            # no device is known): decided by Parser.frame_is_stream / frame_is_ack on the frame object the codec returned,
            # whatever concrete type that codec uses for the frame id
            every = b"".join(rc.create(fid, bytes([fid]) * (fid % 3)) for fid in (1, 4, 2, 1, 3, 4, 0, 5, 6, 7, 8, 1))
            for hd in (0, 1):
                yield pre + f"reasm route {hd} {hexs(every)}", "route-every-id"
                yield pre + f"reasm route {hd} " + ",".join(hexs(bytes([b])) for b in every), "route-every-id"
            for _ in range(16 if T else 10):
                s = gen_routed_stream(rng, rc)
                yield (pre + f"reasm route {rng.randrange(2)} "
                       + ",".join(hexs(c) for c in (g.random_chunking(rng, s) or [b""]))), "route"
            # (c) dispatch through the real ParseRecv
            for _ in range(12):
                yield pre + f"recv handle {hexs(request_frame(rng, rc))}", "request"
                yield pre + f"recv handle {hexs(valid_frame(rng, rc))}", "valid-any-id"
                lead = bytes(rng.choice([0, 1, (rc.sof + 1) & 0xFF, (rc.sof - 1) & 0xFF, rng.randrange(256)])
                             for _ in range(rng.randrange(0, 5)))
                yield pre + f"recv handle {hexs(lead + request_frame(rng, rc))}", "leading-bytes"
                yield pre + f"recv handle {hexs(request_frame(rng, rc) + bytes(rng.randrange(1, 17)))}", "zero-padded"
                yield pre + f"recv handle {hexs(request_frame(rng, rc) + g.rbytes(rng, rng.randrange(1, 9)))}", "extended"
            for _ in range(3):
                f = request_frame(rng, rc)
                for d in (1, 0x80, 0xFF):
                    b = bytearray(f)
                    b[-1 - rng.randrange(rc.foot_len)] ^= d
                    yield pre + f"recv handle {hexs(bytes(b))}", "near-miss-footer"
                for k in range(len(f) + 1):
                    yield pre + f"recv handle {hexs(f[:k])}", "truncated"
            base = rc.create(6, b"\x02\x00\x01")
            for n in list(range(0, rc.hdr_len + rc.foot_len + 4)) + [len(base) - 1, len(base), len(base) + 1, 200, 255]:
                yield pre + f"recv handle {hexs(rc.set_len(base, n))}", "sweep-len"
                yield pre + f"recv handle {hexs(rc.refoot(rc.set_len(base, n)))}", "sweep-len-footok"
                yield pre + f"recv handle {hexs(rc.refoot(rc.set_len(base, n)) + bytes(8))}", "sweep-len-footok-padded"
            for fid in list(range(0, 12)) + [0x55, 255]:
                yield pre + f"recv handle {hexs(rc.create(fid, b''))}", "sweep-id"
                yield pre + f"recv handle {hexs(rc.create(fid, b'x'))}", "sweep-id"
            for sof in [0x00, 0x55, 0xFF, (rc.sof + 1) & 0xFF, rc.sof]:
                yield pre + f"recv handle {hexs(bytes([sof]) + base[1:])}", "sweep-sof"
            for k in range(0, 12, 3):
                yield pre + f"recv handle {hexs(bytes(k))}", "padding-only"
            for _ in range(10):
                yield pre + f"recv handle {hexs(noise(rng, rc, rng.randrange(0, 24)))}", "noise"
        # (c') SEQUENCES of writes through ONE long-lived ParseRecv(cb, frame=cls) per codec (`self.rec(P)`: the parser
        # object a device keeps for its whole life), every write compared with the stateless recvHandleWith (codec P):
        # consecutive requests zero-padded to the device's rx padding 1..32 (all of them for the codecs whose start byte
        # is the padding byte 0x00), and requests mixed with padding-only / cut-off / damaged / noise writes.  The same
        # sequences are judged as a whole by the oracle (`fam <P> recv seq …`, extra_checks).
        self.sequences = list(FIXED_SEQUENCES)
        for P, writes, tag in self.sequence_cases(rng, T, self.codecs):
            self.sequences.append(seq_line(P, writes))
            for w in writes:
                yield f"fam {P} recv handle {hexs(w)}", tag

    def sequence_cases(self, rng, T, codecs):
        """(codec, writes, tag) — see (c') in `cases`"""
        members = ZERO_SOF_CODECS + ["serial"] + [P for P in codecs if P not in ZERO_SOF_CODECS]
        for ci, P in enumerate(members):
            rc = self.rc(P)
            if rc.sof == 0:
                pads = list(range(1, 33))
            else:
                pads = sorted({16} | {(ci * 5 + j * 7) % 32 + 1 for j in range(12 if T else 5)})
            for pad in pads:
                yield P, padded_sequence(rng, rc, pad, 4 if pad != 16 else 8), "padded-sequence"
        for P in members:
            for _ in range(4 if T else 3):
                yield P, mixed_sequence(rng, self.rc(P)), "mixed-sequence"

    # -- real code ----------------------------------------------------------------------------------------
    def builder(self, P, t):
        """run the library's builder named by `t` (op, args…) with codec P; canonical output line"""
        op = t[0]

        class D:
            pass
        try:
            if op == "ackenc":
                f = self.rec(P).p.frame_ack_encode(int(t[1]))
            elif op == "cmnenc":
                d = D()
                d.data = D()
                d.data.chmax, d.data.flags, d.data.rxpadding = int(t[1]), int(t[2]), int(t[3])
                f = self.rec(P).p.frame_cmninfo_encode(d)
            elif op == "chienc":
                c = D()
                c.data = D()
                c.data.en, c.data._type, c.data.vdim, c.data.div, c.data.mlen = (bool(int(t[1])), int(t[2]), int(t[3]), int(t[4]),
                                                                                  int(t[5]))
                c.data.name = unhex(t[6]).decode("utf-8")
                f = self.rec(P).p.frame_chinfo_encode(c)
            elif op == "streamenc":
                f = self.rec(P).p.frame_stream_encode(sg.real_samples(t[2]))
                if f is None:
                    return "ok none"
            elif op == "reqstart":
                f = self.parser(P).frame_start(bool(int(t[1])))
            elif op == "reqcmninfo":
                f = self.parser(P).frame_cmninfo()
            elif op == "reqchinfo":
                f = self.parser(P).frame_chinfo(int(t[1]))
            elif op == "reqen":
                n = int(t[2])
                arg = (int(t[3]), bool(int(t[4]))) if t[1] == "s" else [c == "1" for c in t[3]]
                f = self.parser(P).frame_enable(arg, n)
            elif op == "reqdiv":
                n = int(t[2])
                arg = (int(t[3]), int(t[4])) if t[1] == "s" else [int(x) for x in t[3].split(",")]
                f = self.parser(P).frame_div(arg, n)
            else:
                raise ValueError(op)
        except Exception as e:
            return "err " + exc_name(e)
        return "ok " + hexs(f)

    def impl(self, line):
        t = line.split(" ")
        P, op = t[1], t[2]
        cls = self.cls(P)
        canon = P != "serial" and any(c in fc.split_impl(P)[1] for c in "eE")     # error KINDS are the codec's choice
        if op == "reasm" and t[3] == "route":
            chunks = [unhex(c) for c in t[5].split(",")]
            try:
                return routed_str(*run_real_routed(chunks, cls, t[4] != "0"))
            except fc.Spin as e:
                return "spin " + str(e)
        if op == "reasm":
            chunks = [unhex(c) for c in t[4].split(",")]
            try:
                return fstr(run_real(chunks, cls))
            except fc.Spin as e:
                return "spin " + str(e)
        if op == "recv":
            return self.rec(P).handle(unhex(t[4]))
        if op in BUILDER_OPS:
            return self.builder(P, t[2:])
        fr = cls()
        if op == "info":
            return f"ok {fr.hdr_len} {fr.foot_len}"
        if op == "create":
            try:
                return "ok " + hexs(fr.frame_create(int(t[3]), None if t[4] == "none" else unhex(t[4])))
            except Exception as e:
                return "err " + exc_name(e)
        d = unhex(t[3])
        if op == "decode":
            r = fr.frame_decode(d)
            return "err " + ("REJ" if canon else r.err.name) if r.err != 0 else f"ok {int(r.fid)} {hexs(r.data)}"
        if op == "hdr":
            r = fr.hdr_decode(d)
            return "err " + ("REJ" if canon else r.err.name) if r.err != 0 else f"ok {int(r.fid)} {r.flen}"
        if op == "foot":
            return "ok " + ("1" if fr.foot_validate(d) else "0")
        if op == "find":
            return f"ok {fr.hdr_find(d)}"
        raise ValueError(line)

    def nontrivial(self, line, out):
        t = line.split(" ")
        if t[0] != "fam" or t[2] == "info" or t[1] == "serial":
            return False
        rc = self.rc(t[1])
        if (rc.hdr_len, rc.foot_len, rc.sof) == (4, 2, 0x55):
            return False
        if t[2] in BUILDER_OPS:
            return True
        arg = t[-1]
        if arg in ("-", "none"):
            return False
        return rc.sof in b"".join(unhex(c) for c in arg.split(","))

    def warm(self, P, t):
        """the history a builder line stands in: the same arguments went through the built-in codec and through another
        custom codec first (in a check run this has happened anyway; a replay starts from a fresh process)"""
        others = ["serial"] + [Q for Q in (self.codecs or SEARCH_CODECS) if Q != P][:2]
        for Q in others:
            if Q != P:
                self.builder(Q, t)

    # -- the property, on the real code -------------------------------------------------------------------
    def oracle(self, line, impl_out=None):
        t = line.split(" ")
        if t[0] == "session":
            return self.session_oracle(line)
        if t[0] == "stream":
            return self.stream_oracle(line)
        P, op = t[1], t[2]
        rc = self.rc(P)
        cls = self.cls(P)
        if op == "reasm" and t[3] == "route":
            chunks = [unhex(c) for c in t[5].split(",")]
            has_dev = t[4] != "0"
            want = routed_str(*route_want(fc.ref_scan(rc, b"".join(chunks)), has_dev))
            try:
                got = routed_str(*run_real_routed(chunks, cls, has_dev))
            except fc.Spin as e:
                got = "spin: the receive thread loops without reading (" + str(e) + ")"
            except Exception as e:
                got = "raised " + type(e).__name__ + ": " + str(e)[:80]
            if got != want:
                return {"key": "routing-custom-codec",
                        "what": "with Parser(frame=<custom codec>) CommHandler._recv_thread does not put the received frames "
                                "where it puts them with the built-in codec: STREAM frames (id 1) in the stream queue, ACK "
                                "frames (id 4) dropped while no device is known, every other frame in the control queue, "
                                "in arrival order  (<control queue> / <stream queue>)",
                        "codec": P, "realisation": "built-in SerialFrame" if P == "serial" else fc.realisation(P),
                        "device_known": has_dev, "expected": want, "observed": got, "stream": hexs(b"".join(chunks))}
            return None
        if op == "reasm":
            chunks = [unhex(c) for c in t[4].split(",")]
            want = fc.ref_scan(rc, b"".join(chunks))
            try:
                got = fstr(run_real(chunks, cls))
            except fc.Spin as e:
                got = "spin: the receive thread loops without reading (" + str(e) + ")"
            except Exception as e:
                got = "raised " + type(e).__name__ + ": " + str(e)[:80]
            if got != fstr(want):
                return {"key": "reassembly-custom-codec",
                        "what": "with Parser(frame=<custom codec>) the frames extracted by CommHandler._recv_thread differ "
                                "from one left-to-right scan of the received bytes under that codec's framing",
                        "codec": P, "realisation": "built-in SerialFrame" if P == "serial" else fc.realisation(P),
                        "hdr_len": rc.hdr_len, "foot_len": rc.foot_len,
                        "expected": fstr(want), "observed": got, "stream": hexs(b"".join(chunks))}
            return None
        if op == "recv" and t[3] == "seq":
            # one device-side parser object, several writes: every write is judged on its own, by the same acceptance
            # predicate as a single write (what the parser saw before must not matter)
            from props.C02 import dispatcher_verdict
            writes = [unhex(x) for x in t[4].split(",")]
            outs = seq_reactions(cls, writes)
            for k, (w, out) in enumerate(zip(writes, outs)):
                i = rc.find(w)
                exp = fc.accepts(rc, w[i:]) if i >= 0 else None
                want = dispatcher_verdict(exp, out)
                if want is not None:
                    alone = Recorder(cls).handle(w)
                    return {"key": "dispatch-sequence-custom-codec",
                            "what": f"one ParseRecv(cb, frame=<codec>) object is given {len(writes)} writes in a row; its reaction "
                                    f"to write #{k + 1} is not the reaction that write gets on its own (that codec's acceptance "
                                    "predicate: start byte, known id, hdr+foot <= declared length <= len, footer over exactly "
                                    "the declared length; zero padding after the frame ignored) - what was written before "
                                    "changed it",
                            "codec": P, "realisation": "built-in SerialFrame" if P == "serial" else fc.realisation(P),
                            "start_byte": "0x%02x" % rc.sof, "hdr_len": rc.hdr_len, "foot_len": rc.foot_len,
                            "writes": [hexs(x) for x in writes], "write_number": k + 1, "write": hexs(w),
                            "reactions": outs, "same_write_to_a_fresh_parser": alone,
                            "expected": want, "observed": out}
            return None
        if op == "recv":
            d = unhex(t[4])
            out = Recorder(cls).handle(d)
            i = rc.find(d)
            exp = fc.accepts(rc, d[i:]) if i >= 0 else None
            # what the property demands and nothing more (a payload of the wrong size for its request kind may fire the
            # callback, raise, or be ignored: props/C02.py dispatcher_verdict)
            from props.C02 import dispatcher_verdict
            want = dispatcher_verdict(exp, out)
            if want is not None:
                return {"key": "dispatch-custom-codec",
                        "what": "with ParseRecv(cb, frame=<custom codec>) recv_handle reacts to a write against that codec's "
                                "acceptance predicate (start byte, known id, hdr+foot <= declared length <= len, footer over "
                                "exactly the declared length, payload between header and footer)",
                        "codec": P, "realisation": "built-in SerialFrame" if P == "serial" else fc.realisation(P),
                        "hdr_len": rc.hdr_len, "foot_len": rc.foot_len, "expected": want, "observed": out}
            return None
        if op in BUILDER_OPS:
            # the library's builders with this codec must emit this codec's framing of the NxScope payload,
            # whatever other codecs were used in the same process before
            want_p = builder_payload(t[2:])
            want = "ok none" if want_p is None else "ok " + hexs(rc.create(want_p[0], want_p[1]))
            self.warm(P, t[2:])
            got = self.impl(line)
            if got != want:
                return {"key": "builder-custom-codec",
                        "what": f"{op} with Parser / ParseRecv(frame=<codec>) does not emit that codec's framing of the NxScope "
                                "payload (all codecs, the built-in one included, are used in the same process; the same "
                                "arguments were passed to the other codecs' builders before)",
                        "codec": P, "realisation": "built-in SerialFrame" if P == "serial" else fc.realisation(P),
                        "payload": "-" if want_p is None else hexs(want_p[1]), "expected": want, "observed": got}
            return None
        if op in ("info", "create", "decode", "hdr", "foot", "find") and P != "serial":
            # the codec class handed to nxslib must still BE that codec when nxslib instantiates it (`frame()` in
            # Parser.__init__ / ParseRecv.__init__): judged on the object the library holds, against the reference codec
            fr = self.parser(P).frame
            prob = None
            if (fr.hdr_len, fr.foot_len) != (rc.hdr_len, rc.foot_len):
                prob = (f"hdr_len/foot_len {rc.hdr_len}/{rc.foot_len}", f"{fr.hdr_len}/{fr.foot_len}")
            elif op == "create" and t[4] != "none" and int(t[3]) <= 255 and rc.fits(len(unhex(t[4]))):
                w = rc.create(int(t[3]), unhex(t[4]))
                g_ = fr.frame_create(int(t[3]), unhex(t[4]))
                if g_ != w:
                    prob = (hexs(w), hexs(g_))
            elif op == "decode":
                d = unhex(t[3])
                w = rc.decode_at(d, 0)
                r = fr.frame_decode(d)
                g_ = None if r.err != 0 else (int(r.fid), bytes(r.data))
                if (None if w is None else (w[0], w[1])) != g_:
                    prob = (repr(w and (w[0], hexs(w[1]))), repr(g_ and (g_[0], hexs(g_[1]))))
            if prob:
                return {"key": "codec-object-custom-codec",
                        "what": "the codec object Parser(frame=<class>) holds does not behave like an instance of the class "
                                "it was given (sizes / created frame / decoded frame differ from the member's reference codec)",
                        "codec": P, "realisation": fc.realisation(P), "object": type(fr).__name__,
                        "expected": prob[0], "observed": prob[1]}
            return None
        return None      # (a) lines exercise the harness' own ICommFrame subclass, not nxslib

    def session_oracle(self, line):
        v = self._session_oracle(line)
        if v:
            v.setdefault("realisation", fc.realisation(line.split(" ")[1]))
        return v

    def stream_oracle(self, line):
        v = self._stream_oracle(line)
        if v:
            v.setdefault("realisation", fc.realisation(line.split(" ")[1]))
        return v

    def _session_oracle(self, line):
        P, flags, en, div, started, ops, dev, pad = parse_session(line)
        rc = self.rc(P)
        if not rc.fits(max(2 + len(en), 1 + 5 * len(en))):
            self.skipped += 1
            return None      # the codec's length field cannot carry the bulk request / a full stream frame of this device
        try:
            ref_out, ref_sum = run_session(None, flags, en, div, ops, started, pad=pad)
        except Exception as e:
            self.skipped += 1
            return None      # the history does not run under the built-in codec either: outside this property
        try:
            out, summ = run_session(P, flags, en, div, ops, started, dev, pad)
        except Exception as e:
            return {"key": "session-custom-codec", "what": "a client session that completes with the built-in codec raises "
                    f"{type(e).__name__}: {str(e)[:120]} with a custom codec on both sides", "codec": P,
                    "expected": "same results as with the built-in codec", "observed": type(e).__name__}
        wp = summ.pop("wire_problems", [])
        if wp:
            fid, pl, f = wp[0]
            return {"key": "device-encoder-custom-codec",
                    "what": "in a session whose device is built on ParseRecv(cb, frame=<custom codec>) an answer / stream frame of "
                            "nxslib's device-side encoders is not that codec's framing of the NxScope payload", "codec": P,
                    "realisation": fc.realisation(P), "frame_id": fid, "payload": pl,
                    "expected": hexs(rc.create(fid, unhex(pl))), "observed": f}
        if summ != ref_sum:
            k = next(k for k in ["requests"] + list(summ) if summ[k] != ref_sum[k])
            return {"key": "session-custom-codec", "what": f"session summary field {k!r} differs between the custom and the "
                    "built-in codec (decoded requests at the device / timing / thread errors)", "codec": P,
                    "expected": repr(ref_sum[k])[:400], "observed": repr(summ[k])[:400]}
        for i, (a, b) in enumerate(zip(out, ref_out)):
            if a != b:
                return {"key": "session-custom-codec", "what": f"call #{i} ({ops[i]}) of the session gives a different decoded "
                        "request sequence or client-visible result with the custom codec", "codec": P,
                        "expected": b, "observed": a}
        return None

    def _stream_oracle(self, line):
        P, flags, chans, enable, nframes, chunk, dev = parse_stream(line)
        rc = self.rc(P)
        if not rc.fits(max(2 + len(chans), stream_frame_len(chans))):
            self.skipped += 1
            return None      # the codec's length field cannot carry this device's frames
        try:
            ref = run_stream_session(None, flags, chans, enable, nframes, 0)
        except Exception:
            self.skipped += 1
            return None
        want_desc = (len(chans), flags, 0, [(c["type"], c["vdim"], c["name"], c["en"], 0, c["mlen"]) for c in chans])
        try:
            got = run_stream_session(P, flags, chans, enable, nframes, chunk, dev)
        except Exception as e:
            return {"key": "stream-session-custom-codec", "what": "a connect / stream / disconnect session that completes with the "
                    f"built-in codec raises {type(e).__name__}: {str(e)[:120]} with a custom codec on both sides", "codec": P,
                    "expected": "same results as with the built-in codec", "observed": type(e).__name__}
        wp = got.pop("wire_problems", [])
        ref.pop("wire_problems", None)
        if wp:
            fid, pl, f = wp[0]
            return {"key": "device-encoder-custom-codec",
                    "what": "in a streaming session whose device is built on ParseRecv(cb, frame=<custom codec>) an answer / stream "
                            "frame of nxslib's device-side encoders is not that codec's framing of the NxScope payload", "codec": P,
                    "realisation": fc.realisation(P), "frame_id": fid, "payload": pl,
                    "expected": hexs(rc.create(fid, unhex(pl))), "observed": f}
        if got["description"] != want_desc:
            return {"key": "stream-session-custom-codec", "what": "device description read by the client differs from the device",
                    "codec": P, "expected": repr(want_desc)[:400], "observed": repr(got["description"])[:400]}
        keys = [k for k in ref if not (chunk and k == "time")]
        for k in keys:
            if got[k] != ref[k]:
                return {"key": "stream-session-custom-codec", "what": f"field {k!r} of a connect / configure / stream / disconnect "
                        "session differs between the custom and the built-in codec"
                        + (f" (custom run read in chunks of {chunk} bytes)" if chunk else ""), "codec": P,
                        "expected": repr(ref[k])[:500], "observed": repr(got[k])[:500]}
        return None

    def stream_lines(self, rng, tier):
        for ci, P in enumerate(self.codecs):
            for k in range(2):
                n = rng.randrange(1, 5)
                chans = []
                for _ in range(n):
                    ty = rng.choice([1, 2, 3, 4, 5, 6, 7, 8, 9, 10, 11, 12, 13, 14, 15, 18])
                    vdim = 0 if ty == 1 else rng.randrange(1, 4)
                    mlen = rng.choice([0, 0, 1, 2, 4])
                    if ty == 1 and mlen == 0 and (ci + k) % 2:
                        mlen = 1      # a sample without data and without metadata is never put on the wire by nxslib's encoder
                    chans.append(f"{ty}:{vdim}:{mlen}:{int(rng.random() < 0.3)}")
                enable = sorted(set(rng.randrange(n) for _ in range(rng.randrange(0, n + 1))))
                if not enable and not any(c.endswith(":1") for c in chans):
                    enable = [rng.randrange(n)]      # something must stream
                chunk = 0 if k == 0 else rng.choice([1, 2, 3, 5, 7, 11])
                yield (f"stream {P} {rng.choice([2, 3])} {','.join(chans)} {','.join(map(str, enable)) or '-'} "
                       f"{rng.randrange(2, 6)} {chunk} {'pr' if (ci + k) % 2 else 'ref'}")

    def session_lines(self, rng, tier):
        T = tier == "thorough"
        for ci, P in enumerate(self.codecs):
            rc = self.rc(P)
            for k in range(5 if T else 6):
                big = [40] if rc.len_n == 1 else [100, 255]      # every frame of the session must fit the length field
                n = rng.choice([1, 2, 3, 4, 5, 8]) if (ci + k) % 9 else rng.choice(big)
                flags = rng.randrange(4)
                en = [rng.random() < 0.4 for _ in range(n)]
                div = [rng.choice([0, 0, 3, 200]) for _ in range(n)]
                ops = gen_history(rng, n, "a", maxlen=10)
                started = rng.random() < 0.3
                # rx padding reported by the device: every third session, always for a start byte equal to the padding byte
                pad = rng.choice([16, 16, 4, 32, rng.randrange(2, 33)]) if (k % 3 == 2 or (rc.sof == 0 and k >= 2)) else 0
                yield (f"session {P} {flags} {sl.bits(en)} {sl.ints(div)} {int(started)} {';'.join(ops)} "
                       f"{'pr' if (ci + k) % 2 else 'ref'}" + (f" pad={pad}" if pad else ""))

    def extra_checks(self, rng, tier, ev):
        """(d) whole sessions, real code on both runs; and the self-check of the two harness implementations"""
        viol = []
        # the oracle's reference codec agrees with the ICommFrame subclass on valid frames (harness self-check)
        for P in self.codecs:
            rc = self.rc(P)
            fr = fc.frame_cls(P)()
            for fid in (0, 4, 8):
                p = g.rbytes(rng, rng.randrange(0, 9))
                f = rc.create(fid, p)
                assert fr.frame_create(fid, p) == f, ("famcodec self-check: create", P)
                r = fr.frame_decode(f + b"\x00")
                assert (int(r.fid), r.data, int(r.err)) == (fid, p, 0), ("famcodec self-check: decode", P)
                assert rc.decode_at(f, 0) == (fid, p, len(f)), ("famcodec self-check: ref decode", P)
        # (c') the write sequences of `cases`, each through one parser object, judged by the oracle
        nseq = 0
        for l in getattr(self, "sequences", []):
            v = self.oracle(l)
            nseq += 1
            if v:
                v["case"] = l
                viol.append(v)
                break
        ev["coverage"]["write_sequences_judged"] = nseq
        self.skipped = 0
        lines = FIXED_SESSIONS + list(self.session_lines(rng, tier))
        nreq = 0
        nwrites = 0
        for l in lines:
            v = self.session_oracle(l)
            if v:
                v["case"] = l
                viol.append(v)
                if len(viol) >= 3:
                    break
            nwrites += l.count("W:")
        slines = FIXED_STREAMS + list(self.stream_lines(rng, tier))
        nstream = 0
        for l in slines:
            if len(viol) >= 3:
                break
            v = self.stream_oracle(l)
            if v:
                v["case"] = l
                viol.append(v)
            nstream += 1
        cov = ev["coverage"]
        cov["sessions_skipped_outside_quantifier"] = self.skipped
        cov["stream_sessions"] = nstream
        cov["stream_session_samples"] = slines[:3]
        cov["codecs"] = len(self.codecs)
        cov["codec_samples"] = self.codecs[:8]
        cov["codec_hdr_lens"] = {str(h): sum(1 for P in self.codecs if self.rc(P).hdr_len == h) for h in range(3, 9)}
        cov["codec_foot_kinds"] = {k: sum(1 for P in self.codecs if P.endswith("foot=" + k)) for k in fc.FOOTS}
        cov["sessions"] = len(lines)
        cov["session_writes"] = nwrites
        cov["session_samples"] = lines[:3]
        return viol

    def search_cases(self, rng):
        """targeted: codecs whose sizes / start byte / realisation differ from the built-in ones in each direction"""
        order = ["serial"] + SEARCH_CODECS
        for k, a in enumerate(builder_args(rng)):
            for P in (order if k % 2 == 0 else order[::-1]):
                yield f"fam {P} {a}", "search"
        for l in FIXED_SEQUENCES:
            yield l, "search"
        for P, writes, _ in self.sequence_cases(rng, False, SEARCH_CODECS):
            yield seq_line(P, writes), "search"
        for P in ZERO_SOF_CODECS[:2]:
            for dev in ("ref", "pr"):
                yield f"session {P} 3 010 0,0,0 0 e0;v3:1;W:a:a;d0,1;W:a:a {dev} pad=16", "search"
        for P in SEARCH_CODECS:
            rc = self.rc(P)
            yield f"fam {P} info", "search"
            f1, f2 = rc.create(2, b""), rc.create(5, b"\x01")
            for lead in (b"", b"\x01", b"\x01\x02\x03"):
                s = lead + f1 + f2
                for k in range(len(s) + 1):
                    yield f"fam {P} reasm run {hexs(s[:k])},-,{hexs(s[k:])}", "search"
                yield f"fam {P} reasm run " + ",".join(hexs(bytes([b])) for b in s), "search"
                yield f"fam {P} recv handle {hexs(lead + f2)}", "search"
                yield f"fam {P} recv handle {hexs(lead + f2 + bytes(7))}", "search"
            # header candidates declaring every small length, in front of a valid frame
            for n in range(0, rc.hdr_len + rc.foot_len + 2):
                runt = rc.set_len(rc.create(3, b"\x07"), n)[:rc.hdr_len]
                yield f"fam {P} reasm run {hexs(runt + f1)},{hexs(f2)}", "search"
                yield f"fam {P} recv handle {hexs(rc.refoot(rc.set_len(rc.create(9, b'ab'), rc.hdr_len + rc.foot_len + 2)))}", "search"
            for total in ([64, 65, 255] if rc.len_n == 1 else [64, 65, 255, 256, 1024, 1025, 32768, 65535]):
                f = rc.create(6, bytes((i * 7 + total) & 0xFF for i in range(total - rc.hdr_len - rc.foot_len)))
                yield f"fam {P} reasm run {hexs(f[:7])},{hexs(f[7:])},{hexs(f1)}", "search"
                yield f"fam {P} recv handle {hexs(f)}", "search"
            for dev in ("ref", "pr"):
                yield f"session {P} 3 010 0,0,0 0 e0;v3:1;W:a:a;d0,1;W:a:a {dev}", "search"
                yield f"stream {P} 3 10:2:0:0,4:1:1:1,18:4:0:0 0,2 3 0 {dev}", "search"
                yield f"stream {P} 3 10:2:0:0,4:1:1:1,18:4:0:0 0,2 3 3 {dev}", "search"


PROP = C20()
