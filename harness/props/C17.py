"""C17 — write padding only appends zeros and is invisible to the device."""
from common import Prop, hexs, unhex
import genlib as g
from props.C02 import Recorder


def mk_intf(log):
    from nxslib.intf.iintf import ICommInterface

    class Rec(ICommInterface):
        def start(self): pass
        def stop(self): pass
        def drop_all(self): pass
        def _read(self): return b""
        def _write(self, data): log.append(bytes(data))
    return Rec()


class C17(Prop):
    id = "C17"
    lean_module = "NxsModel.Props.C17"
    rule = ("CommInterfaceCommon.write through a recording _write for every padding 0..255 x lengths 0..600 "
            "(thorough; sampled lengths in quick); every request kind x padding through recv_handle with recorded "
            "callbacks; padding-only writes; distinct = distinct (op,input); non-trivial = padding > 0")

    def __init__(self):
        self.log = []
        self.intf = mk_intf(self.log)
        self.rec = Recorder()

    def cases(self, rng, tier):
        T = tier == "thorough"
        lens = range(0, 601) if T else list(range(0, 40)) + [63, 64, 65, 127, 128, 255, 256, 257, 511, 512, 600]
        for p in range(256):
            for n in (lens if (T or p < 20 or p % 16 == 0 or p > 250) else [0, 1, p - 1, p, p + 1, 2 * p, 2 * p + 1, rng.randrange(600)]):
                if n < 0:
                    continue
                d = bytes((i * 7 + p) & 0xFF or 1 for i in range(n))
                yield f"pad align {p} {hexs(d)}", "align"
        for _ in range(400 if T else 80):
            f = g.request_frame(rng)
            k = rng.randrange(0, 40)
            yield f"recv handle {hexs(f)}", "request"
            yield f"recv handle {hexs(f + bytes(k))}", "request-padded"
        for k in range(0, 70):
            yield f"recv handle {hexs(bytes(k))}", "padding-only"
        # sequences of padding changes and writes on ONE interface object (stale cached state)
        for _ in range(400 if T else 80):
            items = []
            for _ in range(rng.randrange(2, 7)):
                p = rng.choice([0, 1, 2, 3, 4, 7, 8, 16, 32, 64, 255, rng.randrange(256)])
                n = rng.choice([0, 1, 5, 6, 7, 9, 16, rng.randrange(0, 70)])
                items.append(f"{p}:{hexs(bytes((i * 5 + p) & 0xFF or 1 for i in range(n)))}")
            yield "pad seq " + ",".join(items), "align-sequence"

    def impl(self, line):
        t = line.split(" ")
        if t[0] == "pad" and t[1] == "seq":
            log = []
            intf = mk_intf(log)
            for it in t[2].split(","):
                p, h = it.split(":")
                intf.write_padding = int(p)
                intf.write(unhex(h))
            return "ok " + ",".join(hexs(x) for x in log)
        if t[0] == "pad":
            self.intf.write_padding = int(t[2])
            self.log.clear()
            self.intf.write(unhex(t[3]))
            assert len(self.log) == 1
            return "ok " + hexs(self.log[0])
        return self.rec.handle(unhex(t[2]))

    def nontrivial(self, line, out):
        return not line.startswith("pad align 0 ")

    def oracle(self, line, impl_out=None):
        t = line.split(" ")
        if t[0] == "pad" and t[1] == "seq":
            log = []
            intf = mk_intf(log)
            hist = []
            for it in t[2].split(","):
                p, h = it.split(":")
                p, d = int(p), unhex(h)
                hist.append(p)
                intf.write_padding = p
                intf.write(d)
                out = log[-1]
                k = len(out) - len(d)
                ok = out[:len(d)] == d and out[len(d):] == bytes(max(k, 0)) and \
                    ((p == 0 and k == 0) or (p > 0 and 0 <= k < p and len(out) % p == 0))
                if not ok:
                    return {"key": "align-sequence", "what": f"write of {len(d)} bytes with padding {p} after padding history {hist[:-1]}",
                            "expected": "d ++ k zeros, k < p, p | len", "observed": f"len {len(out)} tail {hexs(out[len(d):])[:40]}"}
            return None
        if t[0] == "pad":
            p, d = int(t[2]), unhex(t[3])
            log = []
            intf = mk_intf(log)
            intf.write_padding = p
            intf.write(d)
            out = log[0]
            k = len(out) - len(d)
            ok = out[:len(d)] == d and out[len(d):] == bytes(max(k, 0)) and \
                ((p == 0 and k == 0) or (p > 0 and 0 <= k < p and len(out) % p == 0))
            if not ok:
                return {"key": "align", "what": f"write with padding {p} of {len(d)} bytes", "expected": "d ++ k zeros, k < p, p | len",
                        "observed": f"len {len(out)} tail {hexs(out[len(d):])[:40]}"}
            return None
        d = unhex(t[2])
        stripped = d.rstrip(b"\0")
        # padded == unpadded for requests that end in a non-zero CRC byte cannot be decided by stripping;
        # compare against every shorter prefix obtained by removing trailing zeros one at a time
        r0 = Recorder().handle(d)
        if not any(d):
            if r0 != "ignored":
                return {"key": "padding-only", "what": "padding-only write caused a reaction", "expected": "ignored", "observed": r0}
            return None
        i = len(d)
        while i > len(stripped):
            i -= 1
            ri = Recorder().handle(d[:i])
            if ri != "ignored" and ri != r0:
                return {"key": "padded-differs", "what": "receiver reacts differently to the padded request",
                        "expected": ri, "observed": r0, "unpadded": hexs(d[:i])}
        return None


PROP = C17()
