"""C17 — write padding only appends zeros and is invisible to the device.

Line kinds (K = compared with the Lean driver, O = judged by the independent oracle below):
  pad align <p> <hex>          one write of <hex> under padding p through a recording interface
  pad seq <p>:<hex>,…          writes under changing paddings on ONE interface object
  recv handle <hex>            the device-side receiver on a (padded) write
  padreq seq <p>:<req>;…       ONE real Parser builds each request, ONE real interface writes it under padding p, ONE real
                               ParseRecv gets what was written (requests: see lean/NxsModel/Driver/Pad.lean); the oracle also
                               sends the same history through a real DummyDev and compares it with an unpadded twin
  dummy run <def> <ops>        requests written to the real DummyDev (write padding = rx padding of the definition) under the
                               virtual-time runtime of C14; the oracle compares with an unpadded twin
"""
from common import Prop, hexs, unhex, exc_name
import genlib as g
from ref import ref_frame
from props.C02 import Recorder

ACK0 = ref_frame(4, b"\0\0\0\0")
CBNAME = {2: "cmninfo", 3: "chinfo", 5: "start", 6: "enable", 7: "div"}
PADS = [0, 1, 2, 3, 4, 5, 7, 8, 16, 24, 32, 64, 100, 255]


def mk_intf(log):
    from nxslib.intf.iintf import ICommInterface

    class Rec(ICommInterface):
        def start(self): pass
        def stop(self): pass
        def drop_all(self): pass
        def _read(self): return b""
        def _write(self, data): log.append(bytes(data))
    return Rec()


# ---------------------------------------------------------------------------------------------------------------------
# payloads with zeros
# ---------------------------------------------------------------------------------------------------------------------
def payload(kind, n, p, salt=0):
    """kind 0: no zero byte; 1: all zero; 2: trailing zeros; 3: interior zeros (last byte non-zero); 4: mixed"""
    if kind == 1:
        return bytes(n)
    nz = bytes(((i * 7 + p + salt) & 0xFF) or 1 for i in range(n))
    if kind == 0 or n == 0:
        return nz
    if kind == 2:
        tz = min(n, 1 + salt % max(p, 1))
        return nz[:n - tz] + bytes(tz)
    if kind == 3:
        return bytes(0 if (i % 3 == 1 and i != n - 1) else b for i, b in enumerate(nz))
    return bytes((i * 37 + salt * 11 + p) & 0xFF if i % 2 else 0 for i in range(n))


# ---------------------------------------------------------------------------------------------------------------------
# client requests: tokens, the real builders, and the protocol encoding written out independently
# ---------------------------------------------------------------------------------------------------------------------
def parse_req(tok):
    t = tok.split(".")
    if t[0] in ("s0", "s1"):
        return ("start", t[0] == "s1")
    if t[0] == "c":
        return ("cmninfo",)
    if t[0] == "h":
        return ("chinfo", int(t[1]))
    if t[0] == "e":
        return ("en1", int(t[1]), int(t[2]), bool(int(t[3])))
    if t[0] == "E":
        return ("env", int(t[1]), [] if t[2] == "-" else [c == "1" for c in t[2]])
    if t[0] == "d":
        return ("div1", int(t[1]), int(t[2]), int(t[3]))
    if t[0] == "D":
        return ("divv", int(t[1]), [] if t[2] == "-" else [int(x) for x in t[2].split("/")])
    raise ValueError(tok)


def req_tok(r):
    k = r[0]
    if k == "start":
        return "s1" if r[1] else "s0"
    if k == "cmninfo":
        return "c"
    if k == "chinfo":
        return f"h.{r[1]}"
    if k == "en1":
        return f"e.{r[1]}.{r[2]}.{int(r[3])}"
    if k == "env":
        return f"E.{r[1]}." + ("".join("1" if b else "0" for b in r[2]) or "-")
    if k == "div1":
        return f"d.{r[1]}.{r[2]}.{r[3]}"
    return f"D.{r[1]}." + ("/".join(str(v) for v in r[2]) or "-")


def _vec(vs):
    vs = list(vs)
    return repr(vs) if len(vs) <= 12 else f"[{', '.join(repr(v) for v in vs[:8])}, ... {len(vs)} values, see the case line]"


def describe(r):
    k = r[0]
    return {"start": lambda: f"frame_start({r[1]})", "cmninfo": lambda: "frame_cmninfo()", "chinfo": lambda: f"frame_chinfo({r[1]})",
            "en1": lambda: f"frame_enable(({r[2]}, {r[3]}), {r[1]})", "env": lambda: f"frame_enable({_vec(bool(b) for b in r[2])}, {r[1]})",
            "div1": lambda: f"frame_div(({r[2]}, {r[3]}), {r[1]})", "divv": lambda: f"frame_div({_vec(r[2])}, {r[1]})"}[k]()


def build(P, r):
    """the real client builder"""
    k = r[0]
    if k == "start":
        return P.frame_start(r[1])
    if k == "cmninfo":
        return P.frame_cmninfo()
    if k == "chinfo":
        return P.frame_chinfo(r[1])
    if k == "en1":
        return P.frame_enable((r[2], r[3]), r[1])
    if k == "env":
        return P.frame_enable(list(r[2]), r[1])
    if k == "div1":
        return P.frame_div((r[2], r[3]), r[1])
    return P.frame_div(list(r[2]), r[1])


def spec_of(r):
    """(frame id, payload) the NxScope protocol prescribes, or None when the arguments are outside what a client can ask"""
    k = r[0]
    if k == "start":
        return 5, bytes([int(r[1])])
    if k == "cmninfo":
        return 2, b""
    if k == "chinfo":
        return (3, bytes([r[1]])) if 0 <= r[1] <= 255 else None
    n = r[1]
    if not 1 <= n <= 255:
        return None
    fid = 6 if k in ("en1", "env") else 7
    if k in ("en1", "div1"):
        c, v = r[2], int(r[3])
        return (fid, bytes([0, c, v])) if 0 <= c < n and 0 <= v <= 255 else None
    vs = [int(v) for v in r[2]]
    if len(vs) != n or any(not 0 <= v <= 255 for v in vs):
        return None
    return (fid, bytes([2, 0, vs[0]])) if len(set(vs)) == 1 else (fid, bytes([1, 0] + vs))


def apply_spec(r, en, div, started):
    """state of a conforming device after the request (channel vectors en/div, stream flag)"""
    k = r[0]
    en, div = list(en), list(div)
    if k == "start":
        started = bool(r[1])
    elif k == "en1":
        en[r[2]] = bool(r[3])
    elif k == "env":
        en = [bool(b) for b in r[2]]
    elif k == "div1":
        div[r[2]] = r[3]
    elif k == "divv":
        div = list(r[2])
    return en, div, started


def device_ok(r, n):
    """the request is one a client of an n-channel device issues (the DummyDev asserts on unknown channels)"""
    if spec_of(r) is None:
        return False
    if r[0] == "chinfo":
        return r[1] < n
    return r[0] in ("start", "cmninfo") or r[1] == n


_ZT = {}


def zero_tail(n):
    """requests of an n-channel client whose frame ends in 0x00 (CRC low byte zero) or whose CRC high byte is zero"""
    if n in _ZT:
        return _ZT[n]
    cands = [("chinfo", c) for c in range(256)]
    for c in range(min(n, 12)):
        cands += [("en1", n, c, False), ("en1", n, c, True)]
        cands += [("div1", n, c, v) for v in range(256)]
    cands += [("divv", n, [v] * n) for v in range(256)]
    if n <= 11:
        cands += [("env", n, [bool(m >> i & 1) for i in range(n)]) for m in range(1 << n)]
    else:
        cands += [("env", n, [bool((m * 2654435761 >> (i % 31)) & 1) for i in range(n)]) for m in range(1, 600)]
        cands += [("divv", n, [(m * 7 + i * i) & 0xFF for i in range(n)]) for m in range(600)]
    low, high = [], []
    for r in cands:
        f = ref_frame(*spec_of(r))
        if f[-1] == 0:
            low.append(r)
        elif f[-2] == 0:
            high.append(r)
    _ZT[n] = (low, high)
    return _ZT[n]


def gen_req(rng, n):
    k = rng.choice(["start", "start", "cmninfo", "cmninfo", "chinfo", "chinfo", "en1", "env", "envall", "div1", "divv", "divvall", "zt", "zt"])
    if k == "start":
        return ("start", rng.random() < 0.5)
    if k == "cmninfo":
        return ("cmninfo",)
    if k == "chinfo":
        return ("chinfo", rng.randrange(n))
    if k == "en1":
        return ("en1", n, rng.randrange(n), rng.random() < 0.6)
    if k == "env":
        return ("env", n, [rng.random() < 0.5 for _ in range(n)])
    if k == "envall":
        return ("env", n, [rng.random() < 0.5] * n)
    if k == "div1":
        return ("div1", n, rng.randrange(n), rng.choice([0, 1, 30, 127, 128, 255, rng.randrange(256)]))
    if k == "divv":
        return ("divv", n, [rng.choice([0, 0, 1, 200, rng.randrange(256)]) for _ in range(n)])
    if k == "divvall":
        return ("divv", n, [rng.choice([0, 3, 120, 255])] * n)
    low, high = zero_tail(n)
    pool = [r for r in (low if rng.random() < 0.75 else high) if device_ok(r, n)]
    return rng.choice(pool) if pool else ("cmninfo",)


def gen_padreq(rng, n, length=None):
    items, issued = [], []
    for _ in range(length or rng.randrange(3, 9)):
        p = rng.choice(PADS + [rng.randrange(256)])
        r = rng.choice(issued) if issued and rng.random() < 0.45 else gen_req(rng, n)
        issued.append(r)
        items.append(f"{p}:{req_tok(r)}")
    return "padreq seq " + ";".join(items)


def gen_dummy_line(rng):
    n = 11
    rxp = rng.choice([0, 1, 3, 4, 5, 16, 16, 24, 255])
    ops = ["0a"]
    for _ in range(rng.randrange(2, 7)):
        r = gen_req(rng, n)
        ops += ["0w" + ref_frame(*spec_of(r)).hex(), "0R", "0r"]
        if rng.random() < 0.4:
            ops.append("0d")
    ops += ["0d", "0z"]
    return f"dummy run D,{rng.choice([3, 3, 3, 1, 2, 0])},{rxp},1 " + ";".join(ops)


# ---------------------------------------------------------------------------------------------------------------------
# the real DummyDev driven synchronously (its receive-thread body is called once per queued write)
# ---------------------------------------------------------------------------------------------------------------------
class SyncDummy:
    def __init__(self, n, flags, rxp):
        from nxslib.intf.dummy import DummyDev
        from nxslib.dev import DeviceChannel
        if n is None:
            self.dev = DummyDev(flags=flags, rxpadding=rxp, stream_sleep=0.0, stream_snum=1)
        else:
            chans = [DeviceChannel(i, 10, 1, f"c{i}") for i in range(n)]
            self.dev = DummyDev(chmax=n, flags=flags, channels=chans, rxpadding=rxp, stream_sleep=0.0, stream_snum=1)
        self.dev._thrd_recv.thread_start = lambda: None
        self.dev._thrd_stream.thread_start = lambda: None
        self.dev.start()

    def request(self, p, data):
        """set the write padding, write, let the device's receiver run; -> (responses, enables, dividers, stream flag)"""
        dev = self.dev
        dev.write_padding = p
        dev.write(data)
        got = []
        if dev._qwrite.qsize() == 0:
            got.append("nothing-reached-the-device")
        # what the interface-specific write was handed: the request plus fewer than p zeros, a multiple of p
        for item in list(dev._qwrite.queue):
            item = bytes(item)
            k = len(item) - len(bytes(data))
            if not (item[:len(data)] == bytes(data) and k >= 0 and not any(item[len(data):])
                    and ((p == 0 and k == 0) or (p > 0 and k < p and len(item) % p == 0))):
                got.append(f"write-not-aligned:{len(bytes(data))}+{k}@{p}")
        while dev._qwrite.qsize():
            try:
                dev._thread_recv()
            except Exception as e:  # noqa: BLE001
                got.append("receiver-raised-" + exc_name(e))
        while dev._qread.qsize():
            got.append(dev.read().hex())
        dd = dev._dummydev
        return got, [bool(x) for x in dd.channels_en], [int(x) for x in dd.channels_div], bool(dev._stream_started.is_set())

    def close(self):
        try:
            self.dev.stop()
        except Exception:  # noqa: BLE001
            pass


def dummy_diff(n, flags, rxp, seq, what):
    """seq: list of (padding, request bytes or a thunk building them, label, request-or-None).  The same requests go to a
    device written to under the paddings and to a twin that always gets the unpadded request with padding 0."""
    A, B = SyncDummy(n, flags, rxp), SyncDummy(n, flags, rxp)
    try:
        hist = []
        en0, div0, st0 = B.request(0, b"")[1:]
        A.request(0, b"")
        state = (en0, div0, st0)
        for p, data, label, r in seq:
            hist.append(p)
            raw = data() if callable(data) else data
            plain = bytes(raw)
            a = A.request(p, raw)
            b = B.request(0, plain)
            if a != b:
                return {"key": "dummy-padded-differs",
                        "what": f"{what}: DummyDev with write padding {p} (padding history {hist[:-1]}) reacts to {label} = {plain.hex()} "
                                f"differently from the unpadded request",
                        "expected": f"responses {b[0]} en {bits(b[1])} div {b[2]} stream {b[3]}",
                        "observed": f"responses {a[0]} en {bits(a[1])} div {a[2]} stream {a[3]}"}
            if r is not None:
                state = apply_spec(r, *state)
                exp_resp = None
                if r[0] not in ("cmninfo", "chinfo"):
                    exp_resp = [ACK0.hex()] if flags & 2 else []
                if (exp_resp is not None and a[0] != exp_resp) or (a[1], a[2], a[3]) != tuple(state) or \
                        (exp_resp is None and (len(a[0]) != 1 or a[0][0].startswith("re") or a[0][0].startswith("no"))):
                    return {"key": "dummy-reaction",
                            "what": f"{what}: DummyDev with write padding {p} (padding history {hist[:-1]}) does not do what {label} "
                                    f"= {plain.hex()} asks for",
                            "expected": f"responses {exp_resp if exp_resp is not None else 'one answer frame'} en {bits(state[0])} "
                                        f"div {state[1]} stream {state[2]}",
                            "observed": f"responses {a[0]} en {bits(a[1])} div {a[2]} stream {a[3]}"}
        return None
    finally:
        A.close()
        B.close()


def bits(l):
    return "".join("1" if b else "0" for b in l) or "-"


def shape_ok(out, d, p):
    k = len(out) - len(d)
    return out[:len(d)] == d and out[len(d):] == bytes(max(k, 0)) and \
        ((p == 0 and k == 0) or (p > 0 and 0 <= k < p and len(out) % p == 0))


def rstr(s):
    return s.replace(" ", ":")


# ---------------------------------------------------------------------------------------------------------------------
class C17(Prop):
    id = "C17"
    lean_module = "NxsModel.Props.C17"
    rule = ("CommInterfaceCommon.write through a recording _write for every padding 0..255 x lengths 0..600 (thorough; sampled "
            "lengths in quick) with payloads without zeros, all-zero, with trailing and with interior zeros, and at lengths k*p, "
            "k*p+-1; padding-change sequences on one interface object; every request kind x padding through recv_handle with "
            "recorded callbacks, including real requests whose CRC low / high byte is 0x00; padding-only writes; the real "
            "composition: ONE Parser builds every request kind (start/stop, cmninfo, chinfo, enable/div single, all, bulk; channel "
            "counts 1..255) written by ONE interface under every padding 0..255 and under changing paddings with repeated requests, "
            "what was written given to ONE ParseRecv; the same histories through the real DummyDev (synchronously in the oracle, "
            "under the virtual-time runtime in the correspondence) against an unpadded twin; distinct = distinct (op,input); "
            "non-trivial = padding > 0 somewhere")

    def __init__(self):
        self.log = []
        self.intf = mk_intf(self.log)
        self.rec = Recorder()

    # -- generators ---------------------------------------------------------------------------------------------------
    def cases(self, rng, tier):
        T = tier == "thorough"
        lens = range(0, 601) if T else list(range(0, 40)) + [63, 64, 65, 127, 128, 255, 256, 257, 511, 512, 600]
        for p in range(256):
            for n in (lens if (T or p < 20 or p % 16 == 0 or p > 250) else [0, 1, p - 1, p, p + 1, 2 * p, 2 * p + 1, rng.randrange(600)]):
                if n < 0:
                    continue
                kind = (n + p) % 5
                yield f"pad align {p} {hexs(payload(kind, n, p, n))}", "align" if kind == 0 else "align-zeros"
        # payloads that end in / consist of / contain zero bytes at lengths k*p and k*p +- 1
        for p in (range(1, 256) if T else list(range(1, 18)) + [24, 31, 32, 33, 64, 100, 127, 128, 129, 200, 254, 255]):
            for k in (1, 2, 3) if (T or p < 40) else (1, 2):
                for n in (k * p - 1, k * p, k * p + 1):
                    for kind, salt in ((1, 0), (2, 0), (2, p - 1), (2, max(p // 2, 1)), (3, 0), (4, k)):
                        if n >= 1:
                            yield f"pad align {p} {hexs(payload(kind, n, p, salt))}", "align-zeros-boundary"
        for _ in range(400 if T else 80):
            f = g.request_frame(rng)
            k = rng.randrange(0, 40)
            yield f"recv handle {hexs(f)}", "request"
            yield f"recv handle {hexs(f + bytes(k))}", "request-padded"
        # real client requests whose frame ends in 0x00 / whose CRC high byte is 0x00, alone and padded
        for n in (11, 3, 255):
            low, high = zero_tail(n)
            for r in (low + high if T else low[:24] + high[:8]):
                f = ref_frame(*spec_of(r))
                yield f"recv handle {hexs(f)}", "request-zero-crc"
                for k in (1, 2, 7, 15, 16, 254) if T else (1, 7, rng.randrange(1, 255)):
                    yield f"recv handle {hexs(f + bytes(k))}", "request-zero-crc-padded"
        for k in range(0, 70):
            yield f"recv handle {hexs(bytes(k))}", "padding-only"
        # sequences of padding changes and writes on ONE interface object (stale cached state)
        low11 = [ref_frame(*spec_of(r)) for r in zero_tail(11)[0]]
        for it in range(400 if T else 80):
            items = []
            for _ in range(rng.randrange(2, 7)):
                p = rng.choice([0, 1, 2, 3, 4, 7, 8, 16, 32, 64, 255, rng.randrange(256)])
                n = rng.choice([0, 1, 5, 6, 7, 9, 16, rng.randrange(0, 70)])
                if it % 4 == 3 and rng.random() < 0.5:
                    d = rng.choice(low11)
                else:
                    d = payload((it + len(items)) % 5, n, p, it)
                items.append(f"{p}:{hexs(d)}")
            yield "pad seq " + ",".join(items), "align-sequence"
        # the real composition Parser -> interface -> receiver --------------------------------------------------------
        # every padding value x every request kind (one long-lived Parser / interface / receiver per line)
        for p in range(256):
            n = (1, 2, 3, 8, 11, 32)[p % 6]
            rs = [("cmninfo",), ("start", True), ("start", False), ("chinfo", p % n), ("chinfo", p),
                  ("en1", n, p % n, bool(p & 1)), ("env", n, [bool((p >> (i % 8)) & 1) for i in range(n)] if n > 1 else [True]),
                  ("env", n, [bool(p & 2)] * n), ("div1", n, (p // 3) % n, p), ("divv", n, [(p + i * i) & 0xFF for i in range(n)]),
                  ("divv", n, [p] * n), ("cmninfo",), ("start", True)]
            yield "padreq seq " + ";".join(f"{p}:{req_tok(r)}" for r in rs), "compose-every-padding"
        # changing paddings, repeated requests
        for it in range(600 if T else 150):
            n = rng.choice([1, 2, 3, 8, 11, 11, 11, 32, 255])
            yield gen_padreq(rng, n), "compose-sequence"
        # parameter-less requests re-issued under every ordered pair of paddings
        pp = PADS if T else [0, 3, 4, 5, 16, 255]
        for p1 in pp:
            for p2 in pp:
                yield (f"padreq seq {p1}:c;{p2}:c;{p1}:s1;{p2}:s1;{p1}:s0;{p2}:s0;0:c;0:s1;0:s0"), "compose-repeat-pair"
        # long bulk requests (more than 256 bytes) under paddings that do and do not divide 256
        for p in (PADS + [6, 12, 17, 96, 200, 254]) if T else (0, 3, 16, 24, 100, 255):
            e = ("env", 255, [bool(i % 3) for i in range(255)])
            d = ("divv", 255, [(i * 5 + p) & 0xFF for i in range(255)])
            yield f"padreq seq {p}:{req_tok(e)};{p}:{req_tok(d)};{p}:c", "compose-long-bulk"
        # requests whose CRC ends in 0x00, under several paddings in a row
        for n in (11, 3, 255):
            low, high = zero_tail(n)
            for r in (low + high[:10] if T else low[:16] + high[:4]):
                if device_ok(r, n) or r[0] == "chinfo":
                    ps = [16, 0, 4, 255, 3] if T else [16, 0, rng.choice([3, 4, 255])]
                    yield "padreq seq " + ";".join(f"{p}:{req_tok(r)}" for p in ps), "compose-zero-crc"
        # builders that refuse (nothing may be written)
        for tok in ("h.256", "h.300", "e.4.256.1", "d.4.1.256", "E.4.10", "D.3.1/2", "D.2.1/256", "E.0.-", "D.0.-"):
            yield f"padreq seq 16:c;16:{tok};5:{tok};5:c", "compose-refused"
        # the real DummyDev under the virtual-time runtime, written to with its write padding configured
        for _ in range(300 if T else 60):
            yield gen_dummy_line(rng), "dummy-device"

    # -- real code ----------------------------------------------------------------------------------------------------
    def impl(self, line):
        t = line.split(" ")
        if t[0] == "dummy":
            from props.C14 import impl_line
            return impl_line(line)
        if t[0] == "padreq":
            from nxslib.proto.parse import Parser
            P = Parser()
            log = []
            intf = mk_intf(log)
            rec = Recorder()
            outs = []
            for it in t[2].split(";"):
                p, tok = it.split(":")
                intf.write_padding = int(p)
                n0 = len(log)
                try:
                    x = build(P, parse_req(tok))
                except Exception as e:  # noqa: BLE001
                    outs.append("err:" + ("assert" if isinstance(e, AssertionError) else exc_name(e)))
                    continue
                intf.write(x)
                if len(log) != n0 + 1:
                    outs.append(f"writes:{len(log) - n0}:" + "+".join(hexs(w) for w in log[n0:]))
                    continue
                outs.append(hexs(log[-1]) + "|" + rstr(rec.handle(log[-1])))
            return "ok " + ";".join(outs)
        if t[0] == "pad" and t[1] == "seq":
            log = []
            intf = mk_intf(log)
            for it in t[2].split(","):
                p, h = it.split(":")
                intf.write_padding = int(p)
                intf.write(unhex(h))
            return "ok " + ",".join(hexs(x) for x in log)
        if t[0] == "pad":
            self.intf.write_padding = int(t[2])
            self.log.clear()
            self.intf.write(unhex(t[3]))
            if len(self.log) != 1:
                return f"writes:{len(self.log)}:" + "+".join(hexs(w) for w in self.log)
            return "ok " + hexs(self.log[0])
        return self.rec.handle(unhex(t[2]))

    def nontrivial(self, line, out):
        if line.startswith("pad align 0 "):
            return False
        if line.startswith("padreq seq "):
            return any(not it.startswith("0:") for it in line.split(" ")[2].split(";"))
        return True

    # -- the property, judged on the real code ------------------------------------------------------------------------
    def oracle(self, line, impl_out=None):
        t = line.split(" ")
        if t[0] == "padreq":
            return self.oracle_padreq(t[2])
        if t[0] == "dummy":
            return self.oracle_dummy(t[2], t[3])
        if t[0] == "pad" and t[1] == "seq":
            log = []
            intf = mk_intf(log)
            hist = []
            for it in t[2].split(","):
                p, h = it.split(":")
                p, d = int(p), unhex(h)
                hist.append(p)
                n0 = len(log)
                intf.write_padding = p
                intf.write(d)
                out = b"".join(log[n0:])
                if len(log) != n0 + 1 or not shape_ok(out, d, p):
                    return {"key": "align-sequence", "what": f"write of {len(d)} bytes ({hexs(d)[:60]}) with padding {p} after padding history {hist[:-1]}",
                            "expected": "one write = d ++ k zeros, k < p, p | len", "observed": f"{len(log) - n0} write(s), len {len(out)}: {hexs(out)[:120]}"}
            return None
        if t[0] == "pad":
            p, d = int(t[2]), unhex(t[3])
            log = []
            intf = mk_intf(log)
            intf.write_padding = p
            intf.write(d)
            out = b"".join(log)
            if len(log) != 1 or not shape_ok(out, d, p):
                return {"key": "align", "what": f"write with padding {p} of {len(d)} bytes ({hexs(d)[:60]})", "expected": "one write = d ++ k zeros, k < p, p | len",
                        "observed": f"{len(log)} write(s), len {len(out)}: {hexs(out)[:120]}"}
            return None
        d = unhex(t[2])
        stripped = d.rstrip(b"\0")
        # padded == unpadded for requests that end in a non-zero CRC byte cannot be decided by stripping;
        # compare against every shorter prefix obtained by removing trailing zeros one at a time
        r0 = Recorder().handle(d)
        if not any(d):
            if r0 != "ignored":
                return {"key": "padding-only", "what": "padding-only write caused a reaction", "expected": "ignored", "observed": r0}
            return None
        i = len(d)
        while i > len(stripped):
            i -= 1
            ri = Recorder().handle(d[:i])
            if ri != "ignored" and ri != r0:
                return {"key": "padded-differs", "what": "receiver reacts differently to the padded request",
                        "expected": ri, "observed": r0, "unpadded": hexs(d[:i])}
        return None

    def oracle_padreq(self, spec):
        from nxslib.proto.parse import Parser
        items = [(int(p), parse_req(tok)) for p, tok in (it.split(":") for it in spec.split(";"))]
        P = Parser()
        log = []
        intf = mk_intf(log)
        rec = Recorder()
        hist = []
        for idx, (p, r) in enumerate(items):
            hist.append(p)
            where = f"item {idx}: {describe(r)} under write padding {p} (one Parser / interface; earlier paddings {hist[:-1]})"
            sp = spec_of(r)
            intf.write_padding = p
            n0 = len(log)
            try:
                x = build(P, r)
            except Exception as e:  # noqa: BLE001
                if sp is not None:
                    return {"key": "request-refused", "what": where, "expected": "a request", "observed": "builder raised " + type(e).__name__}
                if len(log) != n0:
                    return {"key": "refused-but-written", "what": where, "expected": "nothing written", "observed": hexs(log[-1])}
                continue
            snap = bytes(x)
            if sp is not None:
                exp = ref_frame(*sp)
                if snap != exp:
                    return {"key": "request-bytes", "what": where + ": the request handed to write() is not the protocol's encoding",
                            "expected": exp.hex(), "observed": snap.hex()}
            fresh = bytes(build(Parser(), r))
            if snap != fresh:
                return {"key": "request-not-fresh", "what": where + ": the long-lived Parser returns other bytes than a fresh Parser",
                        "expected": fresh.hex(), "observed": snap.hex()}
            intf.write(x)
            out = b"".join(log[n0:])
            if len(log) != n0 + 1 or not shape_ok(out, snap, p):
                return {"key": "request-align", "what": where + f": request {snap.hex()[:80]} ({len(snap)} bytes)",
                        "expected": "one write = request ++ k zeros, k < p, p | len",
                        "observed": f"{len(log) - n0} write(s), {len(out)} bytes: {out.hex()[:160]}"}
            r_un = Recorder().handle(snap)
            r_pad = rec.handle(out)
            if sp is not None:
                want = f"fired {CBNAME[sp[0]]} {hexs(sp[1])}"
                if r_un != want:
                    return {"key": "request-reaction", "what": where + f": receiver on the unpadded request {snap.hex()}", "expected": want, "observed": r_un}
            if r_pad != r_un:
                return {"key": "padded-differs", "what": where + f": receiver on what was written {out.hex()[:160]} vs on the request alone",
                        "expected": r_un, "observed": r_pad}
        # the same history through the real DummyDev (requests built by one long-lived Parser) against an unpadded twin
        ns = {r[1] for _, r in items if r[0] not in ("start", "cmninfo", "chinfo")}
        n = ns.pop() if len(ns) == 1 else (11 if not ns else None)
        if n is None or not 1 <= n <= 255:
            return None
        P2 = Parser()
        seq = [(p, (lambda r=r: build(P2, r)), describe(r), r) for p, r in items if device_ok(r, n)]
        if not seq:
            return None
        return dummy_diff(n, 3, 16, seq, "one Parser, one DummyDev")

    def oracle_dummy(self, defs, ops):
        t = defs.split(",")
        if t[0] != "D" or "+" in defs:
            return None
        flags, rxp = int(t[1]), int(t[2])
        seq = [(rxp, unhex(o[2:]), "the request", None) for o in ops.split(";") if o[1] == "w"]
        return dummy_diff(None, flags, rxp, seq, f"default DummyDev(flags={flags}, rxpadding={rxp})")

    def search_cases(self, rng):
        out = []
        for _ in range(300):
            out.append((gen_padreq(rng, rng.choice([1, 2, 3, 8, 11, 11, 32, 255])), "search-compose"))
        for _ in range(60):
            out.append((gen_dummy_line(rng), "search-dummy"))
        return out

    def independent_interfaces(self):
        """write padding is a property of ONE interface object: several interface objects alive in one process, configured
        differently and used alternately (a padding stored in a shared default object would leak from one to the other)"""
        out = []
        logs = [[], [], []]
        intfs = [mk_intf(l) for l in logs]
        req = bytes.fromhex("5507000501889c")
        script = [(0, 16), (1, None), (2, 5), (0, None), (1, 3), (2, None), (0, 0), (1, None), (2, None), (0, None)]
        want = [0, 0, 0]        # paddings as configured so far (a fresh interface has none)
        for k, p in script:
            if p is not None:
                intfs[k].write_padding = p
                want[k] = p
            n0 = len(logs[k])
            intfs[k].write(req)
            got = logs[k][n0:]
            exp = req + bytes((-len(req)) % want[k] if want[k] else 0)
            if got != [exp]:
                out.append({"key": "align-independent-interfaces", "case": f"three interface objects, script {script}",
                            "what": f"interface {k} (its own write padding: {want[k]}; the others': {want}) wrote a 7-byte request",
                            "expected": exp.hex(), "observed": ",".join(x.hex() for x in got)})
                break
            if any(len(logs[j]) != n for j, n in enumerate([len(l) for l in logs]) if False):
                pass
        return out

    def extra_checks(self, rng, tier, ev):
        v = self.independent_interfaces()
        ev["coverage"]["independent_interface_objects"] = 3
        return v

    def replay(self, obj):
        if str(obj.get("case", "")).startswith("three interface objects"):
            vs = self.independent_interfaces()
            return vs[0] if vs else None
        return super().replay(obj)


PROP = C17()
