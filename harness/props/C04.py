"""C04 — stream samples decode to exactly the values the device put on the wire."""
from common import Prop, hexs, unhex, exc_name
import streamglue as sg
import streamgen as gen


def parse_layout(s):
    return [] if s == "-" else [tuple(int(x) for x in c.split(":")) for c in s.split(",")]


def parse_user(s):
    if s == "-":
        return {}
    out = {}
    for u in s.split(";"):
        ty, dt, items = u.split("/")
        out[int(ty)] = (int(dt), [(int(i.split(".")[0]), i.split(".")[1]) for i in items.split("+")] if items else [])
    return out


class C04(Prop):
    id = "C04"
    lean_module = "NxsModel.Props.C04"
    rule = ("random device layouts (1..8 channels and 200/255-channel layouts) over the 18 standard types and user "
            "NUM/CHAR/COMPLEX types, vdim 1..255, mlen 0..255; multi-sample payloads built by an independent "
            "reference encoder from per-type extremes, NaN/inf/subnormals, arbitrary char bytes; malformed payloads "
            "(truncated, unknown channel, trailing bytes); distinct = distinct (layout,user,payload); "
            "non-trivial = payload with at least one sample")
    assumptions = ["value glue (streamglue.canon_value): ints must be Python ints equal to the raw value; floats must "
                   "re-pack to the wire bits (NaN as a class); fixed-point must equal float(Fraction(raw, 2**frac)); "
                   "char text must encode back to the wire bytes when they are valid UTF-8, otherwise only the absence "
                   "of an exception and the sample structure are required"]

    def __init__(self):
        from nxslib.proto.parse import Parser
        from nxslib.proto.iframe import DParseFrame, EParseId
        self.Parser, self.DParseFrame, self.EParseId = Parser, DParseFrame, EParseId
        self._parsers = {}     # one long-lived Parser per user-type configuration (a client keeps its parser across devices)

    def cases(self, rng, tier):
        T = tier == "thorough"
        for it in range(1500 if T else 300):
            user = gen.gen_user(rng, decode_only=True)
            layout = gen.gen_layout(rng, user, big=(it % 50 == 49))
            ns = rng.choice([0, 1, 1, 2, 3, 5, rng.randrange(0, 12)])
            smps = [gen.gen_sample(rng, layout, user, rng.randrange(len(layout))) for _ in range(ns)]
            payload = sg.ref_wire(layout, user, smps, flags=rng.choice([0, 0, 1, rng.randrange(256)]))
            tag = "wire"
            r = rng.random()
            if r < 0.08 and len(payload) > 1:
                payload = payload[:rng.randrange(1, len(payload))]
                tag = "truncated"
            elif r < 0.12:
                payload += bytes([rng.randrange(256) for _ in range(rng.randrange(1, 4))])
                tag = "trailing"
            elif r < 0.15 and len(layout) < 250:
                payload += bytes([len(layout) + rng.randrange(0, 3)])
                tag = "unknown-chan"
            elif r < 0.17:
                payload = b""
                tag = "empty"
            yield f"stream dec {sg.layout_str(layout)} {sg.user_str(user)} {hexs(payload)}", tag
        # per-type sweeps: all 256 raw values of the 8-bit types, 16-bit types sampled densely
        for ty in (2, 3):
            for v in range(256):
                yield f"stream dec {ty}:1:0 - {hexs(bytes([0, 0, v]))}", "sweep-8bit"
        for ty in (4, 5, 12, 13):
            for v in (range(0, 65536, 1 if T else 257)):
                yield f"stream dec {ty}:1:0 - {hexs(bytes([0, 0, v & 255, v >> 8]))}", "sweep-16bit"
        # types with mismatching dimension / unknown types (error branches)
        for lay, pl in [("1:3:0", "0000"), ("2:0:0", "0000"), ("0:1:0", "000000"), ("25:4:0", "000000000000"),
                        ("18:0:0", "0000"), ("1:0:3", "0000010203"), ("1:0:3", "00000102")]:
            yield f"stream dec {lay} - {pl}", "odd-layout"

    def impl(self, line):
        t = line.split(" ")
        layout, user, payload = parse_layout(t[2]), parse_user(t[3]), unhex(t[4])
        try:
            dev = sg.real_device(layout)
            p = self._parsers.get(t[3])
            if p is None:
                p = self._parsers[t[3]] = self.Parser(user_types=sg.real_user(user))
            ds = p.frame_stream_decode(self.DParseFrame(self.EParseId.STREAM, payload), dev)
        except Exception as e:
            return "err " + exc_name(e)
        return sg.canon_decoded(ds, layout, user, payload)

    def nontrivial(self, line, out):
        return len(line.split(" ")[4]) > 2

    def oracle(self, line, impl_out=None):
        """a payload that is well-formed for the layout decodes, consumed exactly, to one sample per encoded sample
        with the values on the wire"""
        t = line.split(" ")
        layout, user, payload = parse_layout(t[2]), parse_user(t[3]), unhex(t[4])
        if any(ty not in sg.STD and ty not in user for ty, _, _ in layout) or not payload:
            return None
        if any((ty == 1) != (v == 0) for ty, v, _ in layout if ty in sg.STD) or len(layout) > 255:
            return None
        parsed = sg.ref_parse(layout, user, payload)
        if parsed is None:
            return None
        out = self.impl(line)
        # expected canonical form straight from the wire
        exp = []
        for chan, vals, metas in parsed:
            ty, vdim, mlen = layout[chan]
            dt = sg.dtype_of(ty, user)
            vs = []
            for code, raw in vals:
                frac = sg.frac_of(ty)
                if dt == sg.CHAR and len(vals) == 1:
                    vs.append("t:" + hexs(raw) if sg.valid_utf8(raw) else f"t~{len(raw)}")
                elif code in "BHIQbhiq":
                    r = int.from_bytes(raw, "little", signed=code.islower())
                    vs.append(f"x:{r}:{frac}" if frac else f"i:{r}")
                elif code in "fd":
                    vs.append(f"{code}:" + format(int.from_bytes(raw, "little"), f"0{2 * len(raw)}x"))
                elif code == "?":
                    vs.append(f"o:{int(raw != bytes(1))}")
                else:
                    vs.append("b:" + hexs(raw))
            exp.append(f"{chan},{dt},{vdim},{mlen},[{';'.join(vs)}],[{';'.join(str(int.from_bytes(m, 'little')) for m in metas)}]")
        want = f"ok {payload[0]} " + ("|".join(exp) or "-")
        if out != want:
            return {"key": "decode-values", "what": "decoded samples differ from the values on the wire",
                    "expected": want[:400], "observed": out[:400]}
        return None


PROP = C04()
