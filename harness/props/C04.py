"""C04 — stream samples decode to exactly the values the device put on the wire."""
from common import Prop, hexs, unhex, exc_name
import streamglue as sg
import streamgen as gen


def parse_layout(s):
    return sg.parse_layout(s)[0]


def parse_user(s):
    if s == "-":
        return {}
    out = {}
    for u in s.split(";"):
        ty, dt, items = u.split("/")
        out[int(ty)] = (int(dt), [(int(i.split(".")[0]), i.split(".")[1]) for i in items.split("+")] if items else [])
    return out


def one_sample_line(ty, vals, mlen=0, flags=0):
    """a payload with a single sample of a single-channel layout carrying `vals` (model syntax)"""
    layout = [(ty, len(vals), mlen)]
    payload = sg.ref_wire(layout, {}, [(0, vals, [7] * len(sg.meta_atoms(mlen)))], flags=flags)
    return f"stream dec {sg.layout_str(layout)} - {hexs(payload)}"


class C04(Prop):
    id = "C04"
    lean_module = "NxsModel.Props.C04"
    rule = ("random device layouts (1..8 channels and 129/200/255-channel layouts) over the 18 standard types and user "
            "NUM/CHAR/COMPLEX types (ids 20..31, random format strings), vdim over 1..255, mlen over 0..255, en / critical / "
            "reserved type bits / divider / device flags of the device object varied; multi-sample payloads built by an "
            "independent reference encoder from per-type extremes, NaN/inf/subnormals, arbitrary char bytes (overlong, "
            "surrogate, truncated UTF-8); sweeps: every raw value of the 8/16-bit types, the 2^k / 2^k±1 / complement "
            "patterns of the 32/64-bit ones, every float32 exponent, every mlen 0..255, every vdim 1..255, every channel "
            "id 0..254, every flags byte, every single char byte; malformed payloads (truncated, unknown channel, trailing "
            "bytes); distinct = distinct (layout,user,payload); non-trivial = payload with at least one sample")
    assumptions = ["value glue (streamglue.canon_value): ints must be Python ints equal to the raw value read from the wire "
                   "with the harness' own hand-written type table; floats must re-pack to the wire bits (NaN as a class); "
                   "fixed-point must equal float(Fraction(raw, 2**frac)) — this is the only place where 'the code divides "
                   "by the scale' is checked; char text must encode back to the wire bytes when they are valid UTF-8, "
                   "otherwise only the absence of an exception and the sample structure are required"]

    def __init__(self):
        from nxslib.proto.parse import Parser
        from nxslib.proto.iframe import DParseFrame, EParseId
        self.Parser, self.DParseFrame, self.EParseId = Parser, DParseFrame, EParseId
        self._parsers = {}     # one long-lived Parser per user-type configuration (a client keeps its parser across devices)

    def cases(self, rng, tier):
        T = tier == "thorough"
        for it in range(5000 if T else 300):
            user = gen.gen_user(rng, decode_only=True)
            layout = gen.gen_layout(rng, user, big=(it % 50 == 49))
            xs = gen.gen_xs(rng, layout)
            ns = rng.choice([0, 1, 1, 2, 3, 5, rng.randrange(0, 12)])
            smps = [gen.gen_sample(rng, layout, user, rng.randrange(len(layout))) for _ in range(ns)]
            payload = sg.ref_wire(layout, user, smps, flags=rng.choice([0, 0, 1, rng.randrange(256)]))
            tag = "wire"
            r = rng.random()
            if r < 0.08 and len(payload) > 1:
                payload = payload[:rng.randrange(1, len(payload))]
                tag = "truncated"
            elif r < 0.12:
                payload += bytes([rng.randrange(256) for _ in range(rng.randrange(1, 4))])
                tag = "trailing"
            elif r < 0.15 and len(layout) < 250:
                payload += bytes([len(layout) + rng.randrange(0, 3)])
                tag = "unknown-chan"
            elif r < 0.17:
                payload = b""
                tag = "empty"
            yield f"stream dec {sg.layout_str(layout, xs)} {sg.user_str(user)} {hexs(payload)}", tag
        # per-type sweeps of every standard type: all raws of the 8/16-bit types, bit-pattern families of the wider ones
        for ty in range(2, 18):
            vals = gen.sweep_values(ty, T)
            for ch in gen.chunks(vals, 255):
                yield one_sample_line(ty, ch), f"sweep-ty{ty}"
        # char data: every single byte, the malformed-UTF-8 families, in CHAR and WCHAR channels, alone and followed
        # by another sample
        for ty in (18, 19):
            for b in range(256):
                yield f"stream dec {ty}:1:0 - {hexs(bytes([0, 0, b]))}", "char-byte"
            for bad in gen.BAD_UTF8:
                yield f"stream dec {ty}:{len(bad)}:1,2:1:0 - {hexs(bytes([0, 0]) + bad + bytes([9, 1, 7]))}", "char-bad"
        if T:
            for hi in range(0x80, 0x100):
                pl = bytes([0]) + b"".join(bytes([0, hi, lo]) for lo in range(256))
                yield f"stream dec 18:2:0 - {hexs(pl)}", "char-2byte"
        # every metadata length, every vector dimension, every channel id, every flags byte
        for mlen in range(256):
            ty = rng.choice([1, 2, 5, 10, 13, 18])
            vd = 0 if ty == 1 else rng.choice([1, 2])
            layout = [(ty, vd, mlen), (1, 0, 0)]
            smps = [gen.gen_sample(rng, layout, {}, 0), (1, [], []), gen.gen_sample(rng, layout, {}, 0)]
            yield f"stream dec {sg.layout_str(layout)} - {hexs(sg.ref_wire(layout, {}, smps))}", "mlen-sweep"
        for vdim in range(1, 256):
            ty = rng.randrange(2, 20)
            layout = [(ty, vdim, rng.choice([0, 0, 1, 3]))]
            smps = [gen.gen_sample(rng, layout, {}, 0) for _ in range(rng.choice([1, 2]))]
            yield f"stream dec {sg.layout_str(layout)} - {hexs(sg.ref_wire(layout, {}, smps))}", "vdim-sweep"
        layout = [(rng.randrange(1, 20), 1, rng.choice([0, 0, 1, 3])) for _ in range(255)]
        layout = [(t, 0 if t == 1 else v, m) for t, v, m in layout]
        order = list(range(255))
        rng.shuffle(order)
        for part in gen.chunks(order, 85):
            smps = [gen.gen_sample(rng, layout, {}, c) for c in part]
            yield f"stream dec {sg.layout_str(layout)} - {hexs(sg.ref_wire(layout, {}, smps))}", "chan-sweep"
        for fl in range(256):
            yield f"stream dec 5:2:2 - {hexs(bytes([fl]) + (bytes([0, 0xfe, 0xff, 0xff, 0x7f, 0xef, 0xbe]) if fl % 3 else b''))}", "flags-sweep"
        # types with mismatching dimension / unknown types (error branches)
        for lay, pl in [("1:3:0", "0000"), ("2:0:0", "0000"), ("0:1:0", "000000"), ("25:4:0", "000000000000"),
                        ("18:0:0", "0000"), ("1:0:3", "0000010203"), ("1:0:3", "00000102")]:
            yield f"stream dec {lay} - {pl}", "odd-layout"
        # user types declared CHAR whose single value is not bytes (the client has no text to make: AttributeError),
        # user type whose format size differs from vdim
        for lay, us, pl in [("20:1:0", "20/2/1.B", "000041"), ("20:4:0", "20/2/1.i", "000041424344"), ("20:3:0", "20/1/1.i", "000041424344"),
                            ("20:1:0", "20/2/1.c", "0000ff"), ("31:2:1", "31/1/1.h", "0000feff07")]:
            yield f"stream dec {lay} {us} {pl}", "odd-user"

    def impl(self, line):
        t = line.split(" ")
        (layout, xs), user, payload = sg.parse_layout(t[2]), parse_user(t[3]), unhex(t[4])
        try:
            dev = sg.real_device(layout, xs)
            p = self._parsers.get(t[3])
            if p is None:
                p = self._parsers[t[3]] = self.Parser(user_types=sg.real_user(user))
            ds = p.frame_stream_decode(self.DParseFrame(self.EParseId.STREAM, payload), dev)
        except Exception as e:
            return "err " + exc_name(e)
        return sg.canon_decoded(ds, layout, user, payload)

    def nontrivial(self, line, out):
        return len(line.split(" ")[4]) > 2

    def oracle(self, line, impl_out=None):
        """a payload that is well-formed for the layout decodes, consumed exactly, to one sample per encoded sample
        with the values on the wire (read with the harness' own type table, streamglue.STD)"""
        t = line.split(" ")
        (layout, xs), user, payload = sg.parse_layout(t[2]), parse_user(t[3]), unhex(t[4])
        if any(ty not in sg.STD and ty not in user for ty, _, _ in layout) or not payload:
            return None
        if any((ty == 1) != (v == 0) for ty, v, _ in layout if ty in sg.STD) or len(layout) > 255:
            return None
        for ty, v, _ in layout:
            if ty not in sg.STD:
                dt, items = user[ty]
                atoms = sg.user_atoms(items)
                if sg.user_size(items) != v:
                    return None      # a user type is exactly vdim bytes long
                if dt == sg.CHAR and len(atoms) == 1 and atoms[0][0] not in "cs":
                    return None      # declared text, but the single value is a number: no well-formed samples
        parsed = sg.ref_parse(layout, user, payload)
        if parsed is None:
            return None
        out = self.impl(line)
        # expected canonical form straight from the wire
        exp = []
        for chan, vals, metas in parsed:
            ty, vdim, mlen = layout[chan]
            dt = sg.dtype_of(ty, user)
            vs = []
            for code, raw in vals:
                frac = sg.frac_of(ty)
                if dt == sg.CHAR and len(vals) == 1:
                    vs.append("t:" + hexs(raw) if sg.valid_utf8(raw) else f"t~{len(raw)}")
                elif code in "BHIQbhiq":
                    r = int.from_bytes(raw, "little", signed=code.islower())
                    vs.append(f"x:{r}:{frac}" if frac else f"i:{r}")
                elif code in "fd":
                    vs.append(f"{code}:" + format(int.from_bytes(raw, "little"), f"0{2 * len(raw)}x"))
                elif code == "?":
                    vs.append(f"o:{int(raw != bytes(1))}")
                else:
                    vs.append("b:" + hexs(raw))
            exp.append(f"{chan},{dt},{vdim},{mlen},[{';'.join(vs)}],[{';'.join(str(int.from_bytes(m, 'little')) for m in metas)}]")
        want = f"ok {payload[0]} " + ("|".join(exp) or "-")
        # the data-KIND code of a sample (NUM / CHAR / COMPLEX / NONE, an nxslib-internal tag) is not in the property:
        # channel id, values, metadata (and the echoed vdim / mlen of the layout) are compared
        if sg.drop_kind(out) != sg.drop_kind(want):
            return {"key": "decode-values", "what": "decoded samples differ from the values on the wire: " + sg.first_difference(want, out, kind=False),
                    "expected": want[:400], "observed": out[:400]}
        return None


PROP = C04()
