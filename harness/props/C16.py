"""C16 — simulated devices are independent of each other and restart cleanly.

Pairs of real `DummyDev` instances (default/default, default/custom, custom/custom — separately built lists —
and, for the heap model only, two devices given the *same* list object) under the virtual-time runtime of
props/C14.py: a random history drives instance 0, instance 1 is observed (state dump, channel-info requests,
stream frames) during and after it; start / stop cycles with deterministic channels streaming.
impl = transcript, compared with the model of two instances over one heap (`lean/NxsModel/Dummy.lean`).
oracle (independent of the model): what instance 1 lets a client observe must be exactly what it lets it observe
when instance 0 is never touched; after stop(); start() every deterministic channel starts its sequence again.
"""
from common import Prop, hexs
from props import C14 as L


def observe_ops(rng, d, k, deep=True):
    """ops that only look at instance k: dump, every channel's info, and (deep) a short stream of everything"""
    n = len(d["chans"])
    ops = [f"{k}d"]
    for c in range(n):
        if rng.random() < 0.6 or n <= 3:
            ops += [f"{k}w{hexs(L.req(3, [c]))}", f"{k}R", f"{k}r"]
    if deep:
        ops += [f"{k}w{hexs(L.req(6, [2, 0, 1]))}", f"{k}R", f"{k}r", f"{k}w{hexs(L.req(5, [1]))}", f"{k}R", f"{k}r",
                f"{k}S", f"{k}r", f"{k}S", f"{k}r", f"{k}w{hexs(L.req(5, [0]))}", f"{k}R", f"{k}r", f"{k}r", f"{k}d"]
    return ops


def restart_ops(rng, d, k):
    """stream deterministic channels, stop, start, stream again"""
    ops = [f"{k}w{hexs(L.req(6, [2, 0, 1]))}", f"{k}R", f"{k}r", f"{k}w{hexs(L.req(5, [1]))}", f"{k}R", f"{k}r"]
    ops += [f"{k}S", f"{k}r"] * rng.randrange(1, 4)
    ops += [f"{k}z", f"{k}r", f"{k}r", f"{k}a", f"{k}S", f"{k}r", f"{k}S", f"{k}r"]
    return ops


def det_custom(rng):
    """a custom device whose channels are deterministic and stream without raising"""
    combos = [(10, 1, 0, 1), (10, 1, 0, 2), (10, 3, 0, 5), (3, 3, 1, 7), (1, 0, 16, 8), (5, 1, 0, 2), (11, 1, 0, 1), (7, 3, 1, 7),
              (18, 64, 0, 6), (11, 4, 0, 10), (10, 1, 0, 0), (0, 0, 0, None)]
    chans = []
    for _ in range(rng.choice([1, 2, 3, 5])):
        ty, vdim, mlen, g = rng.choice(combos)
        chans.append(dict(type=ty, vdim=vdim, mlen=mlen, gen=g, en=int(rng.random() < 0.2), div=rng.choice([0, 0, 9]),
                          name=rng.choice(L.NAMES)))
    return dict(kind="C", flags=rng.choice([3, 3, 1, 2, 0]), rxp=rng.choice([0, 0, 8]), snum=rng.choice([1, 2, 3]), chans=chans)


def gen_pair(rng, kind):
    a = L.gen_default(rng) if kind[0] == "D" else det_custom(rng)
    if kind[1] == "D":
        b = L.gen_default(rng)
    elif kind[1] == "C":
        b = det_custom(rng)
    else:   # the same list object as instance 0
        b = dict(kind="A", flags=rng.choice([3, 1]), rxp=a["rxp"], snum=rng.choice([1, 2]), alias=0, chans=a["chans"])
    return [a, b]


def gen_pair_history(rng, defs, length):
    a, b = defs
    ops = []
    if rng.random() < 0.7:
        ops.append("1a")
    ops += L.gen_history(rng, a, k=0, length=length, junk=0.1)
    if rng.random() < 0.5:
        ops.insert(rng.randrange(1, len(ops)), "1d")
    if rng.random() < 0.5:
        ops += restart_ops(rng, a, 0)
    if "1a" not in ops:
        ops.append("1a")
    ops += observe_ops(rng, b, 1, deep=rng.random() < 0.7)
    if rng.random() < 0.4:
        ops += restart_ops(rng, b, 1)
    return ops


def b_only(ops):
    return [o for o in ops if o[0] == "1"]


class C16(Prop):
    id = "C16"
    lean_module = "NxsModel.Props.C16"
    rule = ("pairs of real DummyDev instances (default/default, default/custom, custom/default, custom/custom with separately "
            "built lists; plus two devices over the same list object for the heap model) under the virtual-time runtime: a random "
            "history (requests in every form, junk, stream steps, reads, start / stop cycles, 5..45 ops) on instance 0, "
            "instance 1 observed during and after it (state dump, channel info of its channels, a stream of all its channels), "
            "restart sequences with deterministic channels; every token compared with the model of two instances over one heap; "
            "oracle: the observations of instance 1 equal those of the same ops with instance 0 never touched, and the "
            "deterministic channels begin their sequence again after stop/start; distinct = distinct line; non-trivial = line "
            "with at least one stream frame")
    assumptions = ["virtual-time runtime (harness/vsim.py) preserves queue / lock / event / thread semantics",
                   "thread iterations are atomic (method granularity)",
                   "values of the random / sine generators are compared by structure only"]

    def cases(self, rng, tier):
        T = tier == "thorough"
        kinds = ["DD", "DD", "DC", "CD", "CC", "CC", "DD", "CA"]
        for it in range(1600 if T else 320):
            kind = kinds[it % len(kinds)]
            defs = gen_pair(rng, kind)
            ops = gen_pair_history(rng, defs, rng.randrange(5, 45 if T else 30))
            yield L.line_of(defs, ops), {"DD": "default-default", "DC": "default-custom", "CD": "custom-default",
                                         "CC": "custom-custom", "CA": "shared-list"}[kind]
        for line in self.targeted():
            yield line, "targeted"

    def targeted(self):
        en1 = hexs(L.req(6, [0, 1, 1]))
        div = hexs(L.req(7, [2, 0, 9]))
        start = hexs(L.req(5, [1]))
        ch1 = hexs(L.req(3, [1]))
        enall = hexs(L.req(6, [2, 0, 1]))
        out = []
        # enable / divider / start / streaming on device 0, device 1 looked at afterwards
        out.append("dummy run D,3,16,2+D,3,16,2 " + ";".join(
            ["0a", "1a", f"0w{en1}", "0R", "0r", f"0w{div}", "0R", "0r", f"0w{start}", "0R", "0r", "0S", "0r", "1d", f"1w{ch1}", "1R", "1r",
             f"1w{enall}", "1R", "1r", f"1w{start}", "1R", "1r", "1S", "1r", "0d", "1d"]))
        # restart of the default device: channels 1, 2, 6, 7 begin again
        out.append("dummy run D,3,16,3 " + ";".join(
            ["0a", f"0w{enall}", "0R", "0r", f"0w{start}", "0R", "0r", "0S", "0r", "0S", "0r", "0z", "0r", "0a", "0S", "0r", "0S", "0r", "0d"]))
        # a device created while another is already streaming gets fresh defaults
        out.append("dummy run D,3,0,1+D,3,0,1 " + ";".join(
            ["0a", f"0w{enall}", "0R", "0r", f"0w{start}", "0R", "0r", "0S", "0r", "0S", "0r", "1a", "1d", f"1w{enall}", "1R", "1r",
             f"1w{start}", "1R", "1r", "1S", "1r", "0S", "0r", "1d"]))
        return out

    def impl(self, line):
        return L.impl_line(line)

    def nontrivial(self, line, out):
        return " S0" in out

    def oracle(self, line, impl_out=None):
        L.ORACLE_MODE[0] = True
        try:
            return self._oracle(line)
        finally:
            L.ORACLE_MODE[0] = False

    def _oracle(self, line):
        defs, ops = L.parse_line(line)
        try:
            out, info = L.run_history(defs, ops)
        except Exception as e:  # noqa: BLE001
            return {"key": "device-hangs", "what": f"the history does not run to completion: {type(e).__name__}: {e}",
                    "expected": "every op returns", "observed": type(e).__name__}
        shared = any(d["kind"] == "A" for d in defs)
        if len(defs) > 1 and not shared:
            bops = b_only(ops)
            try:
                bout, _ = L.run_history(defs, bops)
            except Exception as e:  # noqa: BLE001
                return {"key": "device-hangs", "what": f"instance 1 alone does not run: {e}", "expected": "-", "observed": "-"}
            got = [t for o, t in zip(ops, out) if o[0] == "1"]
            for idx, (o, x, y) in enumerate(zip(bops, got, bout)):
                if x != y:
                    return {"key": "instances-share-state",
                            "what": f"what instance 1 lets a client observe depends on what was done to instance 0 (its op {idx} `{o[:30]}`)",
                            "expected": f"{y[:160]}  (instance 0 never touched)", "observed": x[:160], "ops_on_1": bops}
        # restart: deterministic channels begin their sequence again (and the rest of C14 on both instances)
        v = L.judge(defs, ops, out, info)
        if v and v["key"] in ("generator-order", "stream-order"):
            v = dict(v)
            v["key"] = "restart-or-sequence"
            v["what"] = "sample sequence of a deterministic channel is not the generator sequence since the last start: " + v["what"]
            return v
        if v and v["key"] in ("state-differs", "unexpected-frame", "wrong-response", "response-missing", "stream-flag",
                              "disabled-channel-streamed"):
            return v
        return None

    def search_cases(self, rng):
        out = [(l, "targeted") for l in self.targeted()]
        for it in range(60):
            defs = gen_pair(rng, ["DD", "DC", "CC"][it % 3])
            out.append((L.line_of(defs, gen_pair_history(rng, defs, rng.randrange(5, 30))), "search"))
        return out

    def extra_checks(self, rng, tier, ev):
        viol = []
        n = 0
        lines = list(self.targeted())
        for it in range(300 if tier == "thorough" else 60):
            defs = gen_pair(rng, ["DD", "DC", "CD", "CC"][it % 4])
            lines.append(L.line_of(defs, gen_pair_history(rng, defs, rng.randrange(5, 30))))
        for line in lines:
            v = self.oracle(line)
            n += 1
            if v and len(viol) < 4:
                v["case"] = line
                viol.append(v)
        ev["coverage"]["oracle_histories"] = n
        return viol


PROP = C16()
