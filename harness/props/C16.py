"""C16 — simulated devices are independent of each other and restart cleanly.

Two to four real `DummyDev` instances (default / custom definitions in any combination — separately built lists —
and, for the heap model only, two devices given the *same* list object) under the virtual-time runtime of
props/C14.py.  Every instance gets its own op list — a random history (requests in every form, junk, stream steps,
reads, start / stop cycles), an observation sequence (state dump with call counters, common info, every channel's
info, a stream of all its channels) or a restart sequence (stream deterministic channels, stop, start, stream
again) — and the lists are INTERLEAVED op by op (or run one after the other: drive 0 then observe 1, drive 1 then
observe 0).  LATE CONSTRUCTION (review finding S2): about a third of the instances are not constructed up-front but by an
op `<k>n` placed after ops of other instances — a default or custom device created while / after others were configured,
streamed and restarted (model: `World.newDefault` / `newCustom` on the heap those ops left; theorems
`default_objects_pristine`, `late_default_is_fresh`, `late_default_observes_like_first`).
impl = transcript, compared with the model of the instances over one heap (`lean/NxsModel/Dummy.lean`).
oracle (independent of the model, and of dummy.py's content — see props/C14.py):
 * for EVERY instance, what it lets a client observe in the interleaved history must be exactly what it lets it observe
   when only its own ops are run (the other instances created up-front but never touched, late ones never created);
 * every DEFAULT instance, whenever it was constructed, is defined (channels, types, names, generator classes, nothing
   enabled, dividers 0) like the default device of a fresh interpreter (key `default-not-pristine`);
 * after stop(); start() every deterministic channel starts its sequence again = the sequence of a fresh object of its
   generator class — including user-defined functions of the call index `DeviceChannel.data_get` passes to
   `IDeviceChannelFunc.get(cntr)` (finding F19), and the triangle wave restarted while falling (batches of more than 1000
   rounds).

Not covered (accepted exclusions, see props/C14.py): values of the random generators (process-global `random`:
compared by structure only, so independence is not claimed for their VALUES); what survives a restart is what
`stop()` leaves: one queued item of each queue is dropped, other stale frames / queued writes, enable flags, dividers
and the stream-started flag stay; schedules (thread iterations are atomic).
"""
from common import Prop, hexs
from props import C14 as L


def observe_ops(rng, d, k, deep=True):
    """ops that only look at instance k: dump, common info, every channel's info, and (deep) a short stream of everything"""
    n = len(d["chans"])
    ops = [f"{k}d", f"{k}w{hexs(L.req(2, []))}", f"{k}R", f"{k}r"]
    for c in range(n):
        if rng.random() < 0.6 or n <= 3:
            ops += [f"{k}w{hexs(L.req(3, [c]))}", f"{k}R", f"{k}r"]
    if deep:
        ops += [f"{k}w{hexs(L.req(6, [2, 0, 1]))}", f"{k}R", f"{k}r", f"{k}w{hexs(L.req(5, [1]))}", f"{k}R", f"{k}r",
                f"{k}S", f"{k}r", f"{k}S", f"{k}r", f"{k}w{hexs(L.req(5, [0]))}", f"{k}R", f"{k}r", f"{k}r", f"{k}d",
                f"{k}w{hexs(L.req(2, []))}", f"{k}R", f"{k}r"]
    return ops


def restart_ops(rng, d, k):
    """stream deterministic channels, stop, start, stream again; sometimes the channels are disabled during the restart and
    enabled again afterwards (a restart resets the generators of disabled channels as well)"""
    ops = [f"{k}w{hexs(L.req(6, [2, 0, 1]))}", f"{k}R", f"{k}r", f"{k}w{hexs(L.req(5, [1]))}", f"{k}R", f"{k}r"]
    ops += [f"{k}S", f"{k}r"] * rng.randrange(1, 4)
    if rng.random() < 0.35:
        ops += [f"{k}w{hexs(L.req(6, [2, 0, 0]))}", f"{k}R", f"{k}r", f"{k}z", f"{k}r", f"{k}r", f"{k}a",
                f"{k}w{hexs(L.req(6, [2, 0, 1]))}", f"{k}R", f"{k}r", f"{k}S", f"{k}r", f"{k}S", f"{k}r", f"{k}d"]
    else:
        ops += [f"{k}z", f"{k}r", f"{k}r", f"{k}a", f"{k}S", f"{k}r", f"{k}S", f"{k}r", f"{k}d"]
    return ops


DET_COMBOS = [(10, 1, 0, 1), (10, 1, 0, 2), (10, 3, 0, 5), (3, 3, 1, 7), (1, 0, 16, 8), (5, 1, 0, 2), (11, 1, 0, 1), (7, 3, 1, 7),
              (18, 64, 0, 6), (11, 4, 0, 10), (10, 1, 0, 0), (0, 0, 0, None), (7, 1, 0, 11), (10, 1, 0, 12), (11, 2, 0, 11),
              (6, 1, 0, 12), (10, 3, 0, 9)]


def det_custom(rng, snums=(1, 2, 3, 1, 2, 3, 5, 40)):
    """a custom device whose channels are deterministic and stream without raising"""
    chans = []
    for _ in range(rng.choice([1, 2, 3, 5])):
        ty, vdim, mlen, g = rng.choice(DET_COMBOS)
        chans.append(dict(type=ty, vdim=vdim, mlen=mlen, gen=g, en=int(rng.random() < 0.2), div=rng.choice([0, 0, 9]),
                          name=rng.choice(L.NAMES)))
    return dict(kind="C", flags=rng.choice([3, 3, 1, 2, 0]), rxp=rng.choice([0, 0, 8, 5]), snum=rng.choice(snums), chans=chans)


def gen_defs(rng, kind):
    """kind: a string over D (default set), C (separately built custom list), A (the list object of instance 0)"""
    defs = []
    for ch in kind:
        if ch == "D":
            defs.append(L.gen_default(rng))
        elif ch == "C":
            defs.append(det_custom(rng))
        else:   # the same list object as instance 0
            a = defs[0]
            defs.append(dict(kind="A", flags=rng.choice([3, 1]), rxp=a["rxp"], snum=rng.choice([1, 2]), alias=0, chans=a["chans"]))
    return defs


def gen_pair(rng, kind):
    return gen_defs(rng, kind)


def interleave(rng, lists):
    """a random merge of the op lists (the order inside each list is kept)"""
    lists = [list(x) for x in lists if x]
    out = []
    while lists:
        w = [len(x) for x in lists]
        i = rng.choices(range(len(lists)), weights=w)[0]
        # runs of a few ops of one instance, so that request / receive-step / read groups often stay together
        for _ in range(rng.choice([1, 1, 2, 3, 6])):
            if lists[i]:
                out.append(lists[i].pop(0))
        lists = [x for x in lists if x]
    return out


def inst_ops(rng, d, k, role, length):
    if role == "drive":
        ops = L.gen_history(rng, d, k=k, length=length, junk=0.1)
        if rng.random() < 0.5:
            ops += restart_ops(rng, d, k)
        return ops
    if role == "restart":
        return [f"{k}a"] + restart_ops(rng, d, k) + (observe_ops(rng, d, k, deep=False) if rng.random() < 0.5 else [])
    ops = [f"{k}a"] if rng.random() < 0.85 else []
    ops += observe_ops(rng, d, k, deep=rng.random() < 0.7)
    if "a" not in [o[1] for o in ops]:
        ops.insert(rng.randrange(1, len(ops)), f"{k}a")
    if rng.random() < 0.4:
        ops += restart_ops(rng, d, k)
    return ops


def gen_multi_history(rng, defs, length, late_ok=True):
    """every instance gets a role; the op lists are interleaved, or run one after the other in a random order"""
    n = len(defs)
    driven = rng.randrange(n)
    roles = []
    for k in range(n):
        if k == driven:
            roles.append("drive")
        else:
            roles.append(rng.choice(["observe", "observe", "restart", "drive"]))
    lists = [inst_ops(rng, defs[k], k, roles[k], length if roles[k] == "drive" else None) for k in range(n)]
    # LATE CONSTRUCTION: some instances are not constructed up-front but by an `n` op placed after ops of other instances
    # (a device created while / after others were driven); not the instances a shared-list device refers to
    bases = {d["alias"] for d in defs if d["kind"] == "A"}
    late = [k for k in range(n) if late_ok and k not in bases and defs[k]["kind"] != "A" and rng.random() < 0.35]
    if len(late) == n:
        late.remove(rng.choice(late))
    mode = rng.random()
    if mode < 0.6:
        ops = interleave(rng, lists)
        for k in late:
            first = min(i for i, o in enumerate(ops) if o[0] == str(k))
            ops.insert(rng.randrange(first // 2, first + 1), f"{k}n")
    else:
        order = list(range(n))
        rng.shuffle(order)          # drive 0 then observe 1, or drive 1 then observe 0, ...
        if late and order[0] in late and len(order) > 1:
            order.append(order.pop(0))           # somebody has to be driven before a late instance is constructed
        ops = []
        for k in order:
            if k in late:
                ops.insert(rng.randrange(len(ops) * 2 // 3, len(ops) + 1), f"{k}n")
            ops += lists[k]
        if rng.random() < 0.5:      # a look at a later instance in the middle of an earlier one's history
            k = order[-1]
            if k not in late:
                ops.insert(rng.randrange(1, len(ops)), f"{k}d")
    return ops


def gen_pair_history(rng, defs, length):
    return gen_multi_history(rng, defs, length)


def only(ops, k):
    return [o for o in ops if o[0] == str(k)]


KINDS = ["DD", "DD", "DC", "CD", "CC", "CC", "DDD", "CA", "DCD", "CDC", "DD", "CCCC", "CDA"]
TAGS = {"DD": "default-default", "DC": "default-custom", "CD": "custom-default", "CC": "custom-custom", "CA": "shared-list",
        "DDD": "three-default", "DCD": "three-mixed", "CDC": "three-mixed", "CCCC": "four-custom", "CDA": "three-shared"}


class C16(Prop):
    id = "C16"
    lean_module = "NxsModel.Props.C16"
    rule = ("two to four real DummyDev instances (default / custom in any combination with separately built lists; plus devices over "
            "the same list object for the heap model) under the virtual-time runtime; every instance has its own op list — a "
            "random history (requests in every form, junk, stream steps, reads, start / stop cycles, 5..45 ops), an observation "
            "sequence (state dump with call counters, common info, channel info of its channels, a stream of all its channels) "
            "or a restart sequence with deterministic channels — and the lists are interleaved op by op or run one after the "
            "other in a random order; about a third of the instances are constructed LATE (op `n`, after ops of other instances: a "
            "device created while others are configured / streaming / restarted); targeted: a START request to one instance while another one's "
            "stream thread runs (it stays silent), restarts after batches of 300..10001 rounds that cross the periods of every "
            "default generator (triangle wave restarted while falling), a restart after exactly 65536 samplings of a channel (also 65535 / "
            "131072 in the thorough tier), user-defined functions of the call index (F19); every "
            "token compared with the model of the instances over one heap; oracle: the observations of EVERY instance equal "
            "those of its own ops run alone, every default instance is defined like the default device of a fresh interpreter, and "
            "the deterministic channels begin their sequence (that of a fresh generator object) again after stop/start; "
            "distinct = distinct line; non-trivial = line with at least one stream frame")
    assumptions = ["virtual-time runtime (harness/vsim.py) preserves queue / lock / event / thread semantics",
                   "thread iterations are atomic (method granularity)",
                   "values of the random generators are compared by structure only (process-global `random`: independence is not claimed "
                   "for their values); the sine generator by value in oracle runs only",
                   "stop() drops one queued item of each queue; other stale frames / queued writes, enable flags, dividers and the "
                   "stream-started flag survive a restart (modelled)"]

    def cases(self, rng, tier):
        T = tier == "thorough"
        for it in range(900 if T else 260):
            kind = KINDS[it % len(KINDS)]
            defs = gen_defs(rng, kind)
            ops = gen_multi_history(rng, defs, rng.randrange(5, 45 if T else 30))
            yield L.line_of(defs, ops), TAGS[kind]
        # (quick tier: the 65536-round restart history is judged by the oracle only — extra_checks — not run a second time here)
        long_quick = set() if T else set(self.long_session_lines(False))
        for line in self.targeted(full=T):
            if line not in long_quick:
                yield line, "targeted"

    def targeted(self, full=True):
        en1 = hexs(L.req(6, [0, 1, 1]))
        div = hexs(L.req(7, [2, 0, 9]))
        start = hexs(L.req(5, [1]))
        ch1 = hexs(L.req(3, [1]))
        cmn = hexs(L.req(2, []))
        enall = hexs(L.req(6, [2, 0, 1]))
        out = []
        # a START request sent to instance 0 ONLY, while instance 1 (alive, started as an interface, a channel enabled) never got one:
        # 1's stream thread runs and 1 is read — it must stay silent; then a STOP request to 1 must not silence 0 (seeded C16-r5m1:
        # one "stream started" event shared by every instance through a dataclass default evaluated once); default-default and
        # custom-default
        stop = hexs(L.req(5, [0]))
        for defs in ("D,3,16,2+D,3,16,2", "C,3,0,2,5.1.0.1.0.0.61:10.1.0.2.0.0.62+D,1,8,3"):
            out.append(f"dummy run {defs} " + ";".join(
                ["0a", "1a", f"0w{en1}", "0R", "0r", f"1w{en1}", "1R", "1r", f"0w{start}", "0R", "0r", "0S", "0r", "1S", "1r", "1S", "1r",
                 f"1w{stop}", "1R", "1r", "0S", "0r", "1S", "1r", "0d", "1d"]))
        # enable / divider / start / streaming on device 0, device 1 looked at afterwards
        out.append("dummy run D,3,16,2+D,3,16,2 " + ";".join(
            ["0a", "1a", f"0w{en1}", "0R", "0r", f"0w{div}", "0R", "0r", f"0w{start}", "0R", "0r", "0S", "0r", "1d", f"1w{cmn}", "1R", "1r",
             f"1w{ch1}", "1R", "1r", f"1w{enall}", "1R", "1r", f"1w{start}", "1R", "1r", "1S", "1r", "0d", "1d"]))
        # restart of the default device: channels 1, 2, 6, 7 begin again
        out.append("dummy run D,3,16,3 " + ";".join(
            ["0a", f"0w{enall}", "0R", "0r", f"0w{start}", "0R", "0r", "0S", "0r", "0S", "0r", "0z", "0r", "0a", "0S", "0r", "0S", "0r", "0d"]))
        # a device STARTED while another is already streaming
        out.append("dummy run D,3,0,1+D,3,0,1 " + ";".join(
            ["0a", f"0w{enall}", "0R", "0r", f"0w{start}", "0R", "0r", "0S", "0r", "0S", "0r", "1a", "1d", f"1w{enall}", "1R", "1r",
             f"1w{start}", "1R", "1r", "1S", "1r", "0S", "0r", "1d"]))
        # a device CREATED (`1n`) while another is already configured and streaming gets fresh defaults; a third one created
        # after the second was driven and the first restarted; then a custom device created last
        out.append("dummy run D,3,0,1+D,3,0,1+D,1,8/4,2+C,3,0,2,7.1.0.11.1.0.69:10.1.0.2.1.0.2078 " + ";".join(
            ["0a", f"0w{enall}", "0R", "0r", f"0w{div}", "0R", "0r", f"0w{start}", "0R", "0r", "0S", "0r", "0S", "0r", "1n", "1d", "1a",
             f"1w{cmn}", "1R", "1r", f"1w{ch1}", "1R", "1r", f"1w{enall}", "1R", "1r", f"1w{start}", "1R", "1r", "1S", "1r", "0S", "0r",
             "0z", "0a", "2n", "2a", "2d", f"2w{ch1}", "2R", "2r", f"2w{en1}", "2R", "2r", f"2w{start}", "2R", "2r", "2S", "2r", "2S",
             "2r", "3n", "3a", "3d", f"3w{start}", "3R", "3r", "3S", "3r", "1S", "1r", "0d", "1d", "2d", "3d"]))
        out.append(L.late_default_line())
        # drive 1, then observe 0 (the other direction), three instances, the third never started
        out.append("dummy run D,3,16,2+D,1,0,3+D,3,8,1 " + ";".join(
            ["1a", f"1w{enall}", "1R", "1r", f"1w{div}", "1R", "1r", f"1w{start}", "1R", "1r", "1S", "1r", "1S", "0a", "0d", f"0w{cmn}", "0R", "0r",
             f"0w{ch1}", "0R", "0r", f"0w{enall}", "0R", "0r", f"0w{start}", "0R", "0r", "0S", "0r", "1S", "1r", "2d", "0d", "1d"]))
        # interleaved: 0 streams the triangle wave in batches of 2100 rounds and is restarted while falling; 1 streams by twos
        en12 = hexs(L.en_bulk(11, {1, 2}))
        out.append("dummy run D,3,16,2100+D,3,16,2 " + ";".join(
            ["0a", "1a", f"0w{en12}", f"1w{en12}", "0R", "1R", "0r", "1r", f"0w{start}", f"1w{start}", "1R", "0R", "1r", "0r", "0S", "1S", "1r",
             "0r", "1S", "0z", "1r", "0r", "0a", "1S", "0S", "1r", "0r", "0d", "1d"]))
        # channels disabled during the restart are reset as well (default device and call-index functions)
        dis = hexs(L.req(6, [2, 0, 0]))
        mid = [f"0w{dis}", "0R", "0r", "0z", "0r", "0r", "0a", f"0w{enall}", "0R", "0r", "0S", "0r", "0S", "0r", "0d"]
        out.append("dummy run D,3,16,3 " + ";".join(["0a", f"0w{enall}", "0R", "0r", f"0w{start}", "0R", "0r", "0S", "0r", "0S", "0r"] + mid))
        out.append("dummy run C,3,0,2,7.1.0.11.0.0.69:10.1.0.12.0.0.73:11.1.0.2.0.0.74 " + ";".join(
            ["0a", f"0w{enall}", "0R", "0r", f"0w{start}", "0R", "0r", "0S", "0r", "0S", "0r"] + mid))
        # F19: the call counter restarts; the wrap-arounds of every default generator with a restart inside
        out.append(L.f19_line())
        out += [l for l, _ in L.sparse_lines()[:2]]
        # (the C14 check runs all of the wrap-around histories in both tiers; here the quick tier keeps the one with the
        # call-index functions — the restart of the falling triangle wave is in the interleaved pair above)
        w = [l for l, _ in L.wrap_lines()]
        out += w if full else [w[4]]
        out += self.long_session_lines(full)
        return out

    @staticmethod
    def long_session_lines(full=True):
        """a restart after EXACTLY 65536 samplings of a channel (seeded C16-r5m2: a 16-bit call counter that reads 0 again makes
        `reset()` skip the generators): 4 batches of 16384 rounds of an int16 counter channel (49153 bytes a frame) — 3 stream
        steps + the batch `stop()` lets the started stream thread finish — then start and one more batch, which must begin 1, 2, 3 …;
        thorough tier also: two channels (counter, triangle wave) in 8 batches of 8192 rounds with the stream stopped by request
        before stop(), 131072 samplings (8 x 16384), and the neighbour 65535 (5 x 13107)"""
        start, stop = L.START.hex(), L.STOP.hex()
        one, two = "5.1.0.1.1.0.61", "5.1.0.1.1.0.61:5.1.0.2.1.0.62"
        head = ["0a", f"0w{start}", "0R", "0r"]
        tail = ["0z", "0r", "0a", "0S", "0r", "0d"]
        out = [f"dummy run C,3,0,16384,{one} " + ";".join(head + ["0S", "0r"] * 3 + tail)]
        if full:
            byreq = [f"0w{stop}", "0R", "0r", "0z", "0d", "0a", "0d", f"0w{start}", "0R", "0r", "0S", "0r", "0d"]
            out.append(f"dummy run C,3,0,8192,{two} " + ";".join(head + ["0S", "0r"] * 8 + byreq))
            out.append(f"dummy run C,3,0,16384,{one} " + ";".join(head + ["0S", "0r"] * 7 + tail))
            out.append(f"dummy run C,3,0,13107,{one} " + ";".join(head + ["0S", "0r"] * 4 + tail))
        return out

    def impl(self, line):
        return L.impl_line(line)

    def nontrivial(self, line, out):
        return " S0" in out

    def oracle(self, line, impl_out=None):
        L.ORACLE_MODE[0] = True
        try:
            return self._oracle(line)
        finally:
            L.ORACLE_MODE[0] = False

    def _oracle(self, line):
        defs, ops = L.parse_line(line)
        try:
            out, info = L.run_history(defs, ops)
        except Exception as e:  # noqa: BLE001
            return {"key": "device-hangs", "what": f"the history does not run to completion: {type(e).__name__}: {e}",
                    "expected": "every op returns", "observed": type(e).__name__}
        # instances that were given the same list object share it by construction: no independence claimed between them
        shared = set()
        for k, d in enumerate(defs):
            if d["kind"] == "A":
                shared |= {k, d["alias"]}
        # "created with the default channel set": every default instance — whenever it was constructed, whatever happened to
        # other instances before — is defined like the default device of a fresh interpreter (nothing enabled, dividers 0, the
        # same channels and generator classes)
        fresh = L.Fresh.default_device()
        for k, d in enumerate(defs):
            snap = info["snap"][k]
            if d["kind"] == "D" and snap is not None and (snap["chmax"] != fresh["chmax"] or snap["chans"] != fresh["chans"]):
                bad = [(i, a, b) for i, (a, b) in enumerate(zip(snap["chans"], fresh["chans"])) if a != b][:1]
                return {"key": "default-not-pristine",
                        "what": f"default instance {k} was not created with the default channel set: its definition at construction "
                                f"differs from that of a default device in a fresh interpreter (first difference: channel {bad[0][0] if bad else '-'})",
                        "expected": str(bad[0][2] if bad else fresh["chmax"])[:200], "observed": str(bad[0][1] if bad else snap["chmax"])[:200]}
        J = L.Judge(defs, info, ops)

        def canon(k, tok):
            """values of channels whose generator class is not deterministic (process-global `random`) are not compared"""
            I = J.insts[k]
            if not tok.startswith("S") or I is None:
                return tok
            return "S" + L.mask_stream(bytes.fromhex(tok[1:]), I["chans"], lambda c: not J.deterministic(c)).hex()
        touched = sorted({int(o[0]) for o in ops})
        if len(touched) > 1:
            for k in touched:
                if k in shared:
                    continue
                kops = only(ops, k)
                try:
                    kout, _ = L.run_history(defs, kops)
                except Exception as e:  # noqa: BLE001
                    return {"key": "device-hangs", "what": f"instance {k} alone does not run: {e}", "expected": "-", "observed": "-"}
                got = [t for o, t in zip(ops, out) if o[0] == str(k)]
                for idx, (o, x, y) in enumerate(zip(kops, got, kout)):
                    cx, cy = canon(k, x), canon(k, y)
                    if cx != cy:
                        # (tokens as compared: values of non-deterministic channels zeroed; a window at the first difference)
                        at = next((i for i, (a, b) in enumerate(zip(cx, cy)) if a != b), min(len(cx), len(cy)))
                        lo = max(0, at - 40)
                        return {"key": "instances-share-state",
                                "what": f"what instance {k} lets a client observe depends on what was done to the other instance(s) "
                                        f"(its op {idx} `{o[:30]}`, token differs at character {at})",
                                "expected": f"{'…' if lo else ''}{cy[lo:at + 80]}  (other instances never touched)",
                                "observed": f"{'…' if lo else ''}{cx[lo:at + 80]}", "ops_on_it": kops}
        # restart: deterministic channels begin their sequence again (and the rest of C14 on every instance)
        v = L.judge(defs, ops, out, info)
        if v and v["key"] in ("generator-order", "stream-order"):
            v = dict(v)
            v["key"] = "restart-or-sequence"
            v["what"] = "sample sequence of a deterministic channel is not the generator sequence since the last start: " + v["what"]
            return v
        if v and v["key"] in ("state-differs", "unexpected-frame", "wrong-response", "response-missing", "stream-flag",
                              "disabled-channel-streamed"):
            return v
        return None

    def search_cases(self, rng):
        out = [(l, "targeted") for l in self.targeted()]
        for it in range(60):
            defs = gen_defs(rng, ["DD", "DC", "CC", "DDD", "CDC"][it % 5])
            out.append((L.line_of(defs, gen_multi_history(rng, defs, rng.randrange(5, 30))), "search"))
        return out

    def extra_checks(self, rng, tier, ev):
        viol = []
        n = 0
        lines = list(self.targeted(full=tier == "thorough"))
        if tier == "thorough":
            # (every case line goes through the oracle in the thorough tier anyway: the long sessions are not run a third time)
            lines = [l for l in lines if l not in set(self.long_session_lines(True))]
        for it in range(80 if tier == "thorough" else 24):
            defs = gen_defs(rng, ["DD", "DC", "CD", "CC", "DDD", "DCD"][it % 6])
            lines.append(L.line_of(defs, gen_multi_history(rng, defs, rng.randrange(5, 30))))
        for line in lines:
            v = self.oracle(line)
            n += 1
            if v and len(viol) < 4:
                v["case"] = line
                viol.append(v)
        ev["coverage"]["oracle_histories"] = n
        return viol


PROP = C16()
