"""C12 — concurrent application threads see a consistent device and never deadlock.

Correspondence.  The REAL `NxscopeHandler` + `CommHandler` with their receive and stream threads run
under `harness/vsim.py` with `preempt=True` (real threads, one runnable at a time, a switch point at
every Lock acquire / release, Queue put / get, Event op, thread start, link write) against the
reference device `refdev.RefDevice` (0..5 channels of mixed sample types; acknowledging, or — `pol=` —
answering the set requests with a scripted sequence of ack / nack / lost request / applied-but-ACK-lost).
2..4 application threads (`vsim.VThread`) run short programs over
    e<c,…> ch_enable   d<c,…> ch_disable   v<val>:<c,…> ch_divider      (suffix `!` = writenow=True)
    N ch_disable_all   A ch_enable_all   C channels_default_cfg         (N! / C! = writenow=True)
    W channels_write   T1 stream_start   T0 stream_stop  (issued by ONE of the application threads)
    s<c> stream_sub    u<k> stream_unsub (own k-th queue)   g<k> queue get (own k-th queue)
    u<k>@<t> / g<k>@<t>  the same on the k-th queue of application thread t (a thread reading / unsubscribing ANOTHER
                       thread's queue; a no-op while that thread has not subscribed)
    q<c> ch_is_enabled r<c> ch_div_get   i<c> dev_channel_get(c).data (device-info lock)
with the stream running in part of the cases.  `lat=1` in a spec line (only with an ACK-capable acknowledging device and
without T0 / T1 in the programs, see the end of this text) gives the device a processing latency: a request is held
by the link and handled when the receive thread is next SCHEDULED (a scheduling choice, no time passes) instead of inside
the client's write call — two requests of two threads can then be "on the wire" together, which is what shows whether the
library serialises whole request + ACK exchanges.  Every scheduling decision of the concurrent phase with
more than one candidate is recorded; a schedule is
    seed:<n>          seeded random choices
    script:<i,j,…>    explicit choice indices (index into the candidate list, 0 afterwards)
    stay:<i,j,…>      explicit choice indices, afterwards non-pre-emptive (the running thread keeps running while it can)
and schedules are drawn four ways: seeded random; exhaustive enumeration of the first D decision
points of tiny programs; all placements of <= k deviations from the all-zero (priority) schedule; all placements of <= k
pre-emptions of the non-pre-emptive schedule (a thread that was switched to keeps running until it blocks: the
request-overlap and check-then-act races of round 4 need 2 pre-emptions there, 3+ deviations from the priority schedule)
(k = 2 quick / 3 thorough, capped per program — caps that were hit are listed in the evidence).
Pinned schedules (`harness/corpus/C12/pinned.txt`, lines `#! c12 …`: the failing schedules of past
seeded changes) run first in every tier.

Trace at lock granularity.  Without touching /repo, the harness puts the lock objects THE LIBRARY CREATED into recording
wrappers (`HookLock`: every operation is delegated to the library's own object — under vsim a `threading.Lock()` of the
library is a `vsim.VLock`; anything else, e.g. a `contextlib.nullcontext()` used "as a lock", runs as it is, so a lock
that does not exclude does not exclude in the harness run either and the oracle sees the stale answers / lost updates;
further lock attributes the objects may carry are wrapped too, so that a hang names them) and wraps the public methods of
the real objects (instance attributes).  The sequence of critical sections of the channels lock AND of the
queue lock, in the order in which they were entered, each labelled with the call it belongs to and
with what it showed (the configuration state seen just before the channels lock is released; the
subscriber lists at the release of the queue lock; the answer of the stream thread's enabled check; the
puts of the stream thread's delivery block), is ONE history of the lock-level machine:
    cfg run <flags> <en> <div> <ops>     no subscriber-side section, the two halves of every write adjacent
    locks run <flags> <en> <div> <ops>   otherwise (`Wd:<o>` / `We:<o>` = divider / enable half, `s<ch>` `u<q>`
                                         `fc<ch>` `fd<ch>:<val>,…` = sub / unsub / enabled check / delivery)
(`e` with no channel / `q` = a query: the state string carries the ANSWER the thread got in place of
the corresponding bit of `now`).  `impl` returns the observed per-section outputs in exactly the format
of the model driver, which must reproduce them: every schedule is an op list of the model.

Oracle per run (independent of the Lean model): no Deadlock / Spin / TimeLimit / hang (lock cycle
reported from the lock owners and waiters), no exception in any thread, `sim.errors` empty, the
concurrent phase ends within its time budget — these for EVERY device; and on an acknowledging device:
linearizable answers — every change of the reference device's vectors is logged with a logical
step counter, and a `ch_is_enabled(c)` (`ch_div_get(c)`) call spanning steps [s0, s1] (also the stream
thread's) must return the device's value of channel c at SOME step of that interval; once all threads
are joined, what the client reports == device state, and — if a write started after the last setter
call had returned — device state == requested vector, where every channel's value must be the value of
a setter CALL OF THE APPLICATION (program level: `N` means "all channels off") that no later call
overrides; and for the subscriber side: within one fan-out of the stream thread every queue that is
subscribed throughout receives exactly the samples of its channel that passed the enabled check,
nothing is delivered to a queue whose unsubscription had already returned.

A violation's `case` is a `c12 …` line that contains the programs and the explicit script, so
`./check C12 --replay <file>` re-executes exactly that schedule.  `python harness/props/C12.py '<c12 line>'`
executes one spec line and prints the oracle's verdict and the trace.

Observation outside the property (not judged by this check).  `stream_start` / `stream_stop` send their request
outside the channels lock and ACK frames are not matched to requests.  Against a device with processing latency a
writer inside `channels_write` can consume the ACK of another thread's concurrent START request, mark its own
enable request as written and release the channels lock before the device has applied it; `ch_is_enabled` then
answers ahead of the device.  The property's operation list (configure, write, subscribe, unsubscribe, read) does
not contain concurrent stream start / stop, and at most one application thread of a spec issues T0 / T1; for that reason
the `lat=1` specs of the check never contain T0 / T1 (with configure / write / subscribe / read only, the unchanged library
shows no violation on the latency link: the channels lock serialises whole exchanges).  Reproduce (opt-in latency link for
ANY spec, a held request handled at the next link read):
  VERIF_C12_LATENCY=1 /venv/bin/python harness/props/C12.py 'c12 n=2 flags=3 ty=6,10 en=00 div=0,0 stream=0 pol=- progs=T1|e0!|q0;q0;q0;q0 sched=script:1,0,0,3,0,0,0,0,0,2,1,2,2,0,0,0,0,1,0,2,1,1,0,1,1,1,1,0,1,1,2,1,1,1,1,1,0,1,0,1'
  -> stale-answer: ch_is_enabled(0) … returned True but the device's value of channel 0 was [False] throughout
(control: the same with `W` in place of `T1`: no violation in 400 seeds + all schedules with <= 2 deviations).
"""
from __future__ import annotations

import multiprocessing
import os
import random
import struct
import sys

sys.path.insert(0, os.path.dirname(os.path.dirname(os.path.abspath(__file__))))     # when run as a script
import common
from common import Prop, hexs
import vsim
import refdev
import sessionlib as sl

JOIN_BUDGET = 5.0        # virtual seconds the concurrent phase may take (plus 1.1 s per possibly unanswered request)
MAX_DECISIONS = 6000
TYPES_OK = [4, 5, 6, 7, 8, 9, 10, 11]     # numeric sample types of >= 2 bytes: a sample value identifies the sample
PINNED = os.path.join(common.HERE, "corpus", "C12", "pinned.txt")
# opt-in scenario, NOT part of quick / thorough (see "observations outside the property" at the end of the module doc):
# VERIF_C12_LATENCY=1 gives the reference device a processing latency during the concurrent phase — a request is
# handled at the next link read instead of inside the client's write call
LATENCY = os.environ.get("VERIF_C12_LATENCY", "") not in ("", "0")


# ---------------------------------------------------------------------------------------------------------
# spec lines
# ---------------------------------------------------------------------------------------------------------
def spec_line(spec, sched):
    n = spec["n"]
    types = spec.get("types") or [6] * n
    pol = spec.get("pol")
    return (f"c12 n={n} flags={spec['flags']} ty={','.join(map(str, types)) or '-'} en={sl.bits(spec['en'])} "
            f"div={sl.ints(spec['div'])} stream={int(spec['stream'])} pol={','.join(pol) if pol else '-'} "
            f"{'lat=1 ' if spec.get('lat') else ''}progs={'|'.join(';'.join(p) for p in spec['progs'])} sched={sched}")


def parse_spec(line):
    kv = dict(t.split("=", 1) for t in line.split(" ")[1:])
    n = int(kv["n"])
    en = [] if kv["en"] == "-" else [c == "1" for c in kv["en"]]
    div = [] if kv["div"] == "-" else [int(x) for x in kv["div"].split(",")]
    ty = kv.get("ty", "-")
    types = [6] * n if ty == "-" else [int(x) for x in ty.split(",")]
    pol = kv.get("pol", "-")
    progs = [p.split(";") for p in kv["progs"].split("|")]
    return dict(n=n, flags=int(kv["flags"]), types=types, en=en, div=div, stream=kv["stream"] == "1",
                pol=None if pol == "-" else pol.split(","), progs=progs, sched=kv["sched"], lat=kv.get("lat", "0") == "1")


class Stay(list):
    """explicit choice indices, and AFTERWARDS the non-pre-emptive default: the running thread keeps running while it can
    (first candidate once it blocks) — a deviation from that schedule is one pre-emption"""


def sched_parse(s):
    """-> (seed | None, script list | None); a `stay:` schedule gives a `Stay` list"""
    if s.startswith("seed:"):
        return int(s[5:]), None
    if s.startswith("stay:"):
        body = s[5:]
        return None, Stay([int(x) for x in body.split(",")] if body not in ("", "-") else [])
    if s.startswith("script:"):
        body = s[7:]
        return None, ([int(x) for x in body.split(",")] if body not in ("", "-") else [])
    raise ValueError(s)


def script_str(choices, stay=False):
    c = list(choices)
    if stay:        # every recorded decision (the default afterwards is not "0")
        return "stay:" + (",".join(map(str, c)) or "-")
    # trailing zeros are the default anyway
    while c and c[-1] == 0:
        c.pop()
    return "script:" + (",".join(map(str, c)) or "-")


def writes_of(op):
    """number of set requests the op can emit"""
    return 2 if (op == "W" or op.endswith("!") or op == "T1") else 0


# ---------------------------------------------------------------------------------------------------------
# instrumentation
# ---------------------------------------------------------------------------------------------------------
class XSim(vsim.Sim):
    """vsim.Sim whose decisions during the concurrent phase follow a script / a seed / the all-zero priority
    schedule, and are recorded together with the number of candidates"""

    def __init__(self):
        super().__init__(preempt=False, spin_limit=400000, time_limit=2000.0)
        self.phase = False
        self.xscript = []
        self.xrng = None
        self.xstay = False
        self.xchoices = []
        self.xn = []

    def _pick(self, cands):
        if len(cands) == 1 or not self.phase:
            return super()._pick(cands)
        if len(self.xchoices) >= MAX_DECISIONS:
            raise vsim.Spin("more than %d scheduling decisions in the concurrent phase" % MAX_DECISIONS)
        if self.xscript:
            i = self.xscript.pop(0) % len(cands)
        elif self.xrng is not None:
            i = self.xrng.randrange(len(cands))
        elif self.xstay and self.cur in cands:
            i = cands.index(self.cur)
        else:
            i = 0
        self.xchoices.append(i)
        self.xn.append(len(cands))
        return cands[i]


class Rec:
    def __init__(self):
        self.step = 0
        self.active = False
        self.cur_call = {}      # task -> innermost wrapped call record
        self.calls = []
        self.sections = []
        self.open = {}
        self.devlog = []
        self.puts = []
        self.pollog = []        # (step, kind, outcome token) of every set request the device decided on
        self.intents = []       # program-level setter calls of the application
        self.stream_cur = None
        self.snap = None        # function -> snapshot dict
        self.subsnap = None     # function -> list of per-channel queue-object lists
        self.link = None
        self.sim = None
        self.qids = {}          # id(queue object) -> queue number (order of the stream_sub sections)
        self.qkeep = []
        self.next_qid = 0

    def tick(self):
        self.step += 1
        return self.step

    def on_enter(self, lock, task):
        if not self.active:
            return
        sec = dict(lock=lock.name, task=task.name if task else "?", enter=self.tick(), w0=len(self.link.writes),
                   t0=self.sim.now, call=self.cur_call.get(task), fan=None)
        if lock.name == "queue":
            if sec["task"] == "stream":
                sec["fan"] = self.stream_cur
                self.stream_cur = None
            elif sec["call"] is not None and sec["call"]["name"] == "stream_sub":
                sec["qid"] = self.next_qid
                self.next_qid += 1
        self.open[(lock.name, task)] = sec      # per task: a lock that does not exclude has several sections open at once
        self.sections.append(sec)
        if sec["call"] is not None:
            sec["call"]["sections"].append(sec)

    def on_exit(self, lock, task):
        if not self.active:
            return
        sec = self.open.pop((lock.name, task), None)
        if sec is None:
            return
        if lock.name == "channels":
            sec["snap"] = self.snap()
            sec["sent"] = [w for w, t in zip(self.link.writes[sec["w0"]:], self.link.wtask[sec["w0"]:]) if t == sec["task"]]
            sec["dt"] = self.sim.now - sec["t0"]
        elif lock.name == "queue":
            subs = []
            for lst in self.subsnap():
                row = []
                for q in lst:
                    k = self.qids.get(id(q))
                    if k is None:       # the queue this very section appends
                        k = sec.get("qid", -1)
                        self.qids[id(q)] = k
                        self.qkeep.append(q)
                    row.append(k)
                subs.append(row)
            sec["subs"] = subs
        sec["exit"] = self.tick()


class HookLock:
    """recording WRAPPER around the lock object the library itself created: every operation is delegated to that object
    (whatever it is — under vsim a `threading.Lock()` of the library is a `vsim.VLock`; a `contextlib.nullcontext()` used
    "as a lock" is wrapped as it is and does not exclude anybody in the harness run either), the wrapper only records who
    entered / left and who is waiting"""

    def __init__(self, name, rec, inner):
        self.name = name
        self.rec = rec
        self.inner = inner
        self.waiters = []

    @property
    def owner(self):
        return getattr(self.inner, "owner", None)

    def free(self):
        if hasattr(self.inner, "owner"):
            self.inner.owner = None
        if hasattr(self.inner, "depth"):
            self.inner.depth = 0

    def acquire(self, *a, **k):
        me = vsim.sim().cur
        self.waiters.append(me)
        try:
            ok = self.inner.acquire(*a, **k)
        finally:
            self.waiters.remove(me)
        if ok:
            self.rec.on_enter(self, me)
        return ok

    def release(self):
        self.rec.on_exit(self, vsim.sim().cur)
        return self.inner.release()

    def locked(self):
        return self.inner.locked()

    def __enter__(self):
        me = vsim.sim().cur
        self.waiters.append(me)
        try:
            self.inner.__enter__()
        finally:
            self.waiters.remove(me)
        self.rec.on_enter(self, me)
        return self

    def __exit__(self, *a):
        self.rec.on_exit(self, vsim.sim().cur)
        return self.inner.__exit__(*a)


def make_link(sim, device, stream_every=None, latency=False):
    """ICommInterface over the reference device (as refdev.make_link, with an adjustable poll interval: a read
    blocks at most `poll` virtual seconds; long while one thread talks, short in the concurrent phase)"""
    from nxslib.intf.iintf import ICommInterface

    pending = []

    class Link(ICommInterface):
        def __init__(self):
            super().__init__()
            self.writes = []
            self.wtask = []          # who wrote it (a request outside the channels lock — stream start / stop of another
            self.reads = 0           # thread — may be written while somebody's critical section is open)
            self.poll = 0.2

        def start(self):
            pass

        def stop(self):
            pass

        def drop_all(self):
            pass

        def _read(self):
            self.reads += 1
            if pending and not latency:      # VERIF_C12_LATENCY=1 (opt-in scenario): a held request is handled at the next read
                device.on_write(pending.pop(0))
            if stream_every and self.reads % stream_every == 0:
                device.stream_tick()
            sim.block(lambda: len(device.rx) > 0 or (latency and bool(pending)), self.poll, "link-read")
            if pending and latency:      # `lat=1`: the device handles ONE held request whenever the reader gets to run (no time
                device.on_write(pending.pop(0))      # passes: the latency is a scheduling choice, not a duration)
            if not device.rx:
                return b""
            out = bytes(device.rx)
            del device.rx[:]
            return out

        def _write(self, data):
            self.writes.append(bytes(data))
            self.wtask.append(sim.cur.name if sim.cur else "?")
            sim.yield_("link-write")
            if (LATENCY or latency) and getattr(sim, "phase", False):
                pending.append(bytes(data))
            else:
                device.on_write(bytes(data))

    device.now = lambda: sim.now
    return Link()


def make_logqueue(rec):
    class LogQueue(vsim.VQueue):
        def put(self, item, block=True, timeout=None):
            if rec.active:
                cur = vsim.sim().cur
                rec.puts.append((rec.tick(), self, cur.name if cur else "?", item))
            super().put(item, block, timeout)
    return LogQueue


def wrap(obj, name, rec, after=None):
    orig = getattr(obj, name)

    def w(*a, **k):
        if not rec.active:
            return orig(*a, **k)
        task = vsim.sim().cur
        outer = rec.cur_call.get(task)
        call = dict(task=task.name if task else "?", name=name, args=a, s0=rec.tick(), s1=None, sections=[], result=None,
                    exc=None)
        rec.cur_call[task] = call
        rec.calls.append(call)
        try:
            r = orig(*a, **k)
            call["result"] = r
            if after is not None:
                after(call)
            return r
        except BaseException as e:  # noqa: BLE001
            call["exc"] = e
            raise
        finally:
            call["s1"] = rec.tick() if rec.active else None
            rec.cur_call[task] = outer
    setattr(obj, name, w)


def chans_arg(s):
    cs = [int(x) for x in s.split(",") if x != ""]
    return cs[0] if len(cs) == 1 else cs


def sample_bytes(ty, v):
    """one sample of a numeric channel type carrying the number v"""
    import streamglue as sg
    code, size, _ = sg.STD[ty & 0x1F]
    if code in "fd":
        return struct.pack("<" + code, float(v))
    return int(v).to_bytes(size, "little")


def sval(x):
    """the number a decoded sample carries"""
    return int(x.data[0])


# ---------------------------------------------------------------------------------------------------------
# one execution
# ---------------------------------------------------------------------------------------------------------
class Result:
    __slots__ = ("line", "impl", "verdict", "choices", "ncands", "nontrivial", "spec", "split", "abnormal", "kinds", "stay")


def run_spec(spec, seed=None, script=None):
    """execute one schedule of one spec on the real code; returns Result"""
    n, flags = spec["n"], spec["flags"]
    types = spec.get("types") or [6] * n
    pol = list(spec.get("pol") or [])
    rec = Rec()
    sim = XSim()
    rec.sim = sim
    out = {}
    holder = {}

    def scenario():
        import nxslib.nxscope as nxm
        from nxslib.nxscope import NxscopeHandler
        from nxslib.proto.parse import Parser

        class LogDevice(refdev.RefDevice):
            def _apply_set(self, kind, p):
                super()._apply_set(kind, p)
                if rec.active:
                    rec.devlog.append((rec.tick(), tuple(self.en), tuple(self.div)))

            def stream_tick(self):
                # one frame with one sample of every enabled channel; the sample of channel i in frame k carries 8k+i
                if not self.started:
                    return
                body = bytearray([0])
                for i, ch in enumerate(self.chans):
                    if ch["en"]:
                        body.append(i)
                        body += sample_bytes(ch["type"], self.stream_cntr * 8 + i)
                self.stream_cntr += 1
                if len(body) > 1:
                    self._send(refdev.STREAM, bytes(body))

        def policy(dev_, kind, req):
            if kind not in ("enable", "div"):
                return "ack"
            o = pol.pop(0) if pol else "a"
            if rec.active:
                rec.pollog.append((rec.tick(), kind, o))
            return {"a": "ack", "x": "applied-ack-lost", "l": "lost"}.get(o) or ("nack", int(o[1:]))

        dev = LogDevice(sl.mk_chans(spec["en"], spec["div"], types=list(types)), flags=flags, policy=policy)
        has_t = any(op in ("T0", "T1") for p in spec["progs"] for op in p)
        link = make_link(sim, dev, stream_every=2 if (spec["stream"] or any(op in ("T1",) for p in spec["progs"] for op in p)) else None,
                         latency=bool(spec.get("lat")) and not has_t and bool(flags & 2) and not pol)
        rec.link = link
        nxm.queue.Queue = make_logqueue(rec)          # the shim namespace installed by vsim (restored on exit)
        nx = NxscopeHandler(link, Parser())
        comm = nx._comm
        holder["nx"] = nx
        nx.connect()
        # instrument the real objects: the library's OWN lock objects stay in place, inside a recording wrapper
        locks = {"channels": HookLock("channels", rec, comm._channels_lock), "queue": HookLock("queue", rec, nx._queue_lock),
                 "devinfo": HookLock("devinfo", rec, comm._dev._channels_lock)}
        comm._channels_lock = locks["channels"]
        nx._queue_lock = locks["queue"]
        comm._dev._channels_lock = locks["devinfo"]
        # any further lock the objects carry (none in the unchanged library) is wrapped too, so that a hang names it
        for oname, obj in (("CommHandler", comm), ("NxscopeHandler", nx), ("Device", comm._dev)):
            for attr, val in list(vars(obj).items()):
                if isinstance(val, (vsim.VLock, vsim.VRLock)):
                    locks[f"{oname}.{attr}"] = HookLock(f"{oname}.{attr}", rec, val)
                    setattr(obj, attr, locks[f"{oname}.{attr}"])
        holder["locks"] = locks

        def snap():
            ch = comm._channels
            chs = comm._dev._channels
            return dict(now_en=list(ch.en_now), now_div=list(ch.div_now), new_en=list(ch.en_new), new_div=list(ch.div_new),
                        dev_en=dev.en, dev_div=dev.div, cp_en=[c.data.en for c in chs], cp_div=[c.data.div for c in chs],
                        rs=(bool(ch.en_resync), bool(ch.div_resync)))
        rec.snap = snap
        rec.subsnap = lambda: [list(l) for l in nx._sub_q]

        def after_stream_data(call):
            if call["task"] == "stream" and call["result"] is not None:
                rec.stream_cur = dict(sdata=call["result"], answers=[])

        def after_is_enabled(call):
            if call["task"] == "stream" and rec.stream_cur is not None:
                rec.stream_cur["answers"].append((call["args"][0], call["result"]))

        for name in ("ch_enable", "ch_disable", "ch_divider", "channels_write", "ch_div_get", "_ch_divider_default"):
            wrap(comm, name, rec)
        wrap(comm, "ch_is_enabled", rec, after_is_enabled)
        wrap(comm, "stream_data", rec, after_stream_data)
        wrap(nx, "stream_sub", rec)
        wrap(nx, "stream_unsub", rec)
        rec.active = True
        rec.devlog.append((rec.tick(), tuple(dev.en), tuple(dev.div)))
        out["init"] = (list(dev.en), list(dev.div))
        if spec["stream"]:
            nx.stream_start()

        def intent(kind, chans, value):
            it = dict(kind=kind, chans=chans, value=value, s0=rec.tick(), s1=None, task=vsim.sim().cur.name)
            rec.intents.append(it)
            return it

        allqs = [[] for _ in spec["progs"]]

        def prog(k, ops):
            for op in ops:
                qs = allqs[k]
                if op[0] in "ug" and "@" in op:        # `u<j>@<t>` / `g<j>@<t>`: the j-th queue of application thread t
                    op, _, other = op.partition("@")
                    qs = allqs[int(other) % len(allqs)]
                step(op, qs, allqs[k])

        def step(op, qs, mine):
            if True:
                wn = op.endswith("!")
                if wn:
                    op = op[:-1]
                c = op[0]
                it = None
                try:
                    if op == "W":
                        nx.channels_write()
                    elif op == "T1":
                        nx.stream_start()
                    elif op == "T0":
                        nx.stream_stop()
                    elif op == "N":
                        it = intent("en", list(range(n)), False)
                        nx.ch_disable_all(True) if wn else nx.ch_disable_all()
                    elif op == "A":
                        it = intent("en", list(range(n)), True)
                        comm.ch_enable_all()
                    elif op == "C":
                        it = intent("en+div", list(range(n)), False)
                        nx.channels_default_cfg(True) if wn else nx.channels_default_cfg()
                    elif c == "e":
                        a = chans_arg(op[1:])
                        it = intent("en", a if isinstance(a, list) else [a], True)
                        nx.ch_enable(a, True) if wn else nx.ch_enable(a)
                    elif c == "d":
                        a = chans_arg(op[1:])
                        it = intent("en", a if isinstance(a, list) else [a], False)
                        nx.ch_disable(a, True) if wn else nx.ch_disable(a)
                    elif c == "v":
                        v, cs = op[1:].split(":")
                        a = chans_arg(cs)
                        it = intent("div", a if isinstance(a, list) else [a], int(v))
                        nx.ch_divider(a, int(v), True) if wn else nx.ch_divider(a, int(v))
                    elif c == "s":
                        mine.append(nx.stream_sub(int(op[1:])))
                    elif c == "u":
                        if qs:
                            nx.stream_unsub(qs[int(op[1:]) % len(qs)])
                    elif c == "g":
                        if qs:
                            try:
                                qs[int(op[1:]) % len(qs)].get(block=True, timeout=0.05)
                            except vsim.Empty:
                                pass
                    elif c == "q":
                        comm.ch_is_enabled(int(op[1:]))
                    elif c == "r":
                        comm.ch_div_get(int(op[1:]))
                    elif c == "i":
                        ch = nx.dev_channel_get(int(op[1:]))
                        if ch is not None:
                            _ = (ch.data.en, ch.data.div, ch.data.name)
                    else:
                        raise ValueError(op)
                finally:
                    if it is not None:
                        it["s1"] = rec.tick()

        ths = [vsim.VThread(target=prog, args=(k, p), name=f"app{k}") for k, p in enumerate(spec["progs"])]
        out["phase_step"] = rec.tick()
        sim.xscript = list(script) if script else []
        sim.xstay = isinstance(script, Stay)
        sim.xrng = random.Random(seed) if seed is not None else None
        link.poll = 0.02
        sim.phase = True
        sim.preempt = True
        budget = JOIN_BUDGET
        if spec.get("pol"):
            budget += 1.1 * (2 + sum(writes_of(op) for p in spec["progs"] for op in p))
        out["budget"] = budget
        t_start = sim.now
        deadline = sim.now + budget
        for t in ths:
            t.start()
        hung = []
        for t in ths:
            t.join(timeout=max(0.0, deadline - sim.now))
            if t.task.state != "done":
                hung.append(t.name)
        sim.phase = False
        sim.preempt = False
        out["phase_time"] = sim.now - t_start
        if hung:
            desc = []
            for t in sim.tasks:
                if t.state == "done":
                    continue
                holds = [l.name for l in locks.values() if l.owner is t]
                waits = [l.name for l in locks.values() if t in l.waiters]
                if holds or waits:
                    desc.append(f"{t.name} holds {holds} waits for {waits}")
            out["hang"] = (hung, desc, [repr(t) for t in sim.tasks if t.state != "done"])
            return
        out["final_snap"] = snap()
        out["end"] = dict(dev_en=dev.en, dev_div=dev.div, new_en=list(comm._channels.en_new),
                          new_div=list(comm._channels.div_new),
                          rep_en=[comm.ch_is_enabled(i) for i in range(n)], rep_div=[comm.ch_div_get(i) for i in range(n)])
        rec.active = False
        # no disconnect: the life cycle is C09's business; the simulation is simply ended

    with vsim.installed(sim):
        try:
            sim.run(scenario)
            err = None
        except BaseException as e:  # noqa: BLE001
            err = e
        finally:
            rec.active = False
            nx = holder.get("nx")
            if nx is not None:           # make the late `__del__` -> disconnect a no-op, free the locks
                nx._connected = False
                nx._comm._started = False
                nx._stream_started = False
            for l in holder.get("locks", {}).values():
                l.free()

    res = Result()
    res.spec = spec
    res.choices = list(sim.xchoices)
    res.stay = isinstance(script, Stay)
    res.ncands = list(sim.xn)
    res.abnormal = None
    res.split = False
    res.kinds = set()
    res.verdict = judge(spec, rec, out, err, sim)
    build_trace(spec, rec, out, res)
    return res


# ---------------------------------------------------------------------------------------------------------
# the oracle (the property itself, on the observation of the real run)
# ---------------------------------------------------------------------------------------------------------
def value_at(devlog, idx, c, s0, s1):
    """set of values of component idx (1 = en, 2 = div) of channel c taken during steps [s0, s1]"""
    vals = set()
    cur = None
    for e in devlog:
        if e[0] <= s0:
            cur = e[idx][c]
        elif e[0] <= s1:
            vals.add(e[idx][c])
        else:
            break
    vals.add(cur)
    return vals


def admissible(intents, kinds, c, init):
    """values channel c may end with: the values of the application's setter calls touching c that no other such
    call follows (a call that started after this one had returned overrides it); `init` if nobody touched c"""
    mine = [it for it in intents if it["kind"] in kinds and c in it["chans"] and it["s1"] is not None]
    if not mine:
        return {init}
    out = set()
    for x in mine:
        if not any(y["s0"] > x["s1"] for y in mine):
            out.add(0 if (x["kind"] == "en+div" and "div" in kinds) else x["value"])
    return out


def judge(spec, rec, out, err, sim):
    n, flags = spec["n"], spec["flags"]
    acking = not spec.get("pol")

    def bad(key, what, expected="-", observed="-"):
        return {"key": key, "what": what, "expected": str(expected), "observed": str(observed)}
    if isinstance(err, vsim.Killed):
        dl = [e for _, e, _ in sim.errors if isinstance(e, vsim.Deadlock)]
        err = dl[0] if dl else err
    if err is not None:
        kind = type(err).__name__
        if isinstance(err, vsim.Deadlock):
            return bad("deadlock", f"no runnable thread: {err}", "completion", kind)
        if isinstance(err, (vsim.Spin, vsim.TimeLimit)):
            return bad("no-progress", f"{kind}: {err}", "completion", kind)
        return bad("exception", f"the session raised {kind}: {err}", "no exception", kind)
    if sim.errors:
        name, e, _ = sim.errors[0]
        return bad("thread-exception", f"thread {name} died with {type(e).__name__}: {e}", "no exception in any thread",
                   type(e).__name__)
    if "hang" in out:
        hung, desc, tasks = out["hang"]
        if desc:
            return bad("deadlock", "threads never finished; lock wait-for state: " + "; ".join(desc), "all threads finish",
                       f"not finished: {hung}")
        return bad("hang", f"threads {hung} not finished after {out.get('budget')} virtual seconds: {tasks}", "all threads finish", hung)
    if not acking:
        return None       # a device that rejects / loses requests: deadlock, exception and bounded time only
    # linearizable answers
    for call in rec.calls:
        if call["name"] in ("ch_is_enabled", "ch_div_get") and call["exc"] is None and call["s1"] is not None:
            c = call["args"][0]
            if not (0 <= c < n):
                continue
            if call["name"] == "ch_div_get" and not flags & 1:
                continue
            idx = 1 if call["name"] == "ch_is_enabled" else 2
            vals = value_at(rec.devlog, idx, c, call["s0"], call["s1"])
            if call["result"] not in vals:
                return bad("stale-answer",
                           f"{call['name']}({c}) called by {call['task']} during steps [{call['s0']},{call['s1']}] returned "
                           f"{call['result']!r} but the device's value of channel {c} was {sorted(vals, key=str)} throughout",
                           sorted(vals, key=str), call["result"])
    # final state
    end = out["end"]
    init_en, init_div = out["init"]
    if end["rep_en"] != end["dev_en"]:
        return bad("final-state", "after all threads finished: what ch_is_enabled reports differs from the device's enable "
                   "vector", f"dev={sl.bits(end['dev_en'])}", f"reported={sl.bits(end['rep_en'])}")
    if flags & 1 and end["rep_div"] != end["dev_div"]:
        return bad("final-state", "after all threads finished: what ch_div_get reports differs from the device's dividers",
                   f"dev={sl.ints(end['dev_div'])}", f"reported={sl.ints(end['rep_div'])}")
    if not flags & 1 and end["dev_div"] != init_div:
        return bad("final-state", "dividers of a device without divider support changed", sl.ints(init_div),
                   sl.ints(end["dev_div"]))
    writes = [c["s0"] for c in rec.calls if c["name"] == "channels_write" and c["exc"] is None and c["s1"] is not None]
    for kinds, key, dev_v, new_v, init_v, on in ((("en", "en+div"), "enable", end["dev_en"], end["new_en"], init_en, True),
                                                 (("div", "en+div"), "divider", end["dev_div"], end["new_div"], init_div, bool(flags & 1))):
        if not on or n == 0:
            continue
        setters = [it for it in rec.intents if it["kind"] in kinds]
        # the setter part of a writenow call ends where its own write begins
        ends = []
        for it in setters:
            e1 = it["s1"]
            for c in rec.calls:
                if c["name"] == "channels_write" and c["task"] == it["task"] and it["s0"] < c["s0"] < it["s1"]:
                    e1 = min(e1, c["s0"])
            ends.append(e1)
        last = max(ends) if ends else 0
        if setters and not any(w >= last for w in writes):
            continue          # some setter is not followed by a write: nothing is claimed about this vector
        its = [dict(it, s1=e) for it, e in zip(setters, ends)]
        for c in range(n):
            adm = admissible(its, kinds, c, init_v[c])
            if dev_v[c] not in adm:
                return bad("final-state", f"after all threads finished (a write started after the last {key} setter call had "
                           f"returned): the device's {key} state of channel {c} is {dev_v[c]!r}, the last request(s) of the "
                           f"application for that channel asked for {sorted(adm, key=str)}", sorted(adm, key=str), dev_v[c])
        if list(dev_v) != list(new_v):
            return bad("final-state", f"after all threads finished: device {key} vector differs from the requested vector",
                       f"dev={dev_v}", f"requested={new_v}")
    # subscriber side: per fan-out of the stream thread
    subs = []       # (queue, chan, step sub returned, step unsub called, step unsub returned)
    for call in rec.calls:
        if call["name"] == "stream_sub" and call["exc"] is None and call["s1"] is not None:
            subs.append([call["result"], call["args"][0], call["s1"], float("inf"), float("inf")])
    for call in rec.calls:
        if call["name"] == "stream_unsub":
            for s in subs:
                if s[0] is call["args"][0]:
                    s[3] = min(s[3], call["s0"])
                    s[4] = min(s[4], call["s1"] if call["exc"] is None and call["s1"] is not None else float("inf"))
    for sec in rec.sections:
        if sec["lock"] != "queue" or sec["task"] != "stream" or "exit" not in sec:
            continue
        fan = sec["fan"]
        if fan is None or len(fan["answers"]) != len(fan["sdata"].samples):
            continue
        groups = {}
        for smp, (c, ans) in zip(fan["sdata"].samples, fan["answers"]):
            if ans is True:
                groups.setdefault(smp.chan, []).append(smp.data)
        for q, c, s_ret, u0, u1 in subs:
            got = [[x.data for x in item] for st, qq, task, item in rec.puts
                   if qq is q and sec["enter"] < st < sec["exit"]]
            if s_ret < sec["enter"] and sec["exit"] < u0:
                want = [groups[c]] if groups.get(c) else []
                if got != want:
                    return bad("delivery", f"fan-out during steps [{sec['enter']},{sec['exit']}]: a queue subscribed to channel {c} "
                               f"since step {s_ret} (not unsubscribed before step {u0}) received {got}, the frame carried "
                               f"{want} for it", want, got)
            elif u1 < sec["enter"] and got:
                return bad("delivered-after-unsub", f"a queue whose stream_unsub returned at step {u1} received {got} in the "
                           f"fan-out of steps [{sec['enter']},{sec['exit']}]", [], got)
    # the answer of ch_is_enabled is a truth value the callers test with `is True` (the stream thread's filter does)
    for call in rec.calls:
        if call["name"] == "ch_is_enabled" and call["exc"] is None and call["s1"] is not None and \
                not isinstance(call["result"], bool):
            return bad("non-bool-answer", f"ch_is_enabled({call['args'][0]}) called by {call['task']} returned {call['result']!r} "
                       f"({type(call['result']).__name__}): callers that test the answer with `is True` — the stream thread's "
                       "sample filter — treat it as not enabled", "True / False", repr(call["result"]))
    return None


# ---------------------------------------------------------------------------------------------------------
# the lock-level trace as a driver line + the observed per-op outputs
# ---------------------------------------------------------------------------------------------------------
def state_str(snap, sent, dt, err="-", now_en=None, now_div=None):
    return (f"s={','.join(hexs(x) for x in sent) or '-'};t={round(dt * 10)};e={err};"
            f"now={sl.bits(now_en if now_en is not None else snap['now_en'])}/{sl.ints(now_div if now_div is not None else snap['now_div'])};"
            f"new={sl.bits(snap['new_en'])}/{sl.ints(snap['new_div'])};dev={sl.bits(snap['dev_en'])}/{sl.ints(snap['dev_div'])};"
            f"cp={sl.bits(snap['cp_en'])}/{sl.ints(snap['cp_div'])};rs={int(snap['rs'][0])}{int(snap['rs'][1])}")


def cs_str(a):
    return ",".join(map(str, a)) if isinstance(a, list) else str(a)


def dotted(l):
    return ".".join(map(str, l)) or "-"


def subs_str(subs):
    return "/".join(dotted(r) for r in subs) if subs else "none"


def build_trace(spec, rec, out, res):
    """fills res.line / res.impl / res.nontrivial / res.split / res.abnormal / res.kinds"""
    n, flags = spec["n"], spec["flags"]
    secs = [s for s in rec.sections if s["lock"] in ("channels", "queue") and "exit" in s]
    # expected number of channels-lock sections per call
    abnormal = None
    for call in rec.calls:
        if call["exc"] is not None and call["name"] != "stream_data":
            continue
        k = len([s for s in call["sections"] if s["lock"] == "channels"])
        want = {"ch_enable": 1, "ch_disable": 1, "ch_divider": 1, "ch_is_enabled": 1, "ch_div_get": 1, "_ch_divider_default": 1,
                "channels_write": 0 if n == 0 else (2 if flags & 1 else 1)}.get(call["name"])
        if want is not None and k != want and call["s1"] is not None:
            abnormal = f"{call['name']} of {call['task']} entered the channels lock {k} times (expected {want})"
            break
    items = []      # dicts: cfg token / state (None if not expressible in `cfg run`), locks tokens / states, task

    def item(cfg_tok, cfg_state, l_toks, l_states, task):
        items.append(dict(cfg=cfg_tok, cfg_state=cfg_state, ltoks=l_toks, lstates=l_states, task=task))

    def outcome(sec, kind):
        for st, k, o in rec.pollog:
            if sec["enter"] < st < sec["exit"] and k == kind:
                return o
        return "a"
    fan_items = False
    if abnormal is None:
        order = secs
        i = 0
        while i < len(order):
            s = order[i]
            call = s["call"]
            if s["lock"] == "queue":
                fan_items = True
                if s["task"] == "stream" and call is None:
                    fan = s["fan"]
                    smps = [] if fan is None else [(x.chan, sval(x)) for x in fan["sdata"].samples]
                    puts = [(rec.qids.get(id(qq), -1), [sval(x) for x in itm]) for st, qq, task, itm in rec.puts
                            if s["enter"] < st < s["exit"]]
                    tok = "fd" + (",".join(f"{c}:{v}" for c, v in smps) or "-")
                    item(None, None, [tok], ["puts=" + (",".join(f"{q}:{dotted(g)}" for q, g in puts) or "-")], s["task"])
                    res.kinds.add("deliver")
                elif call is not None and call["name"] == "stream_sub":
                    item(None, None, [f"s{call['args'][0]}"], [f"sub={s.get('qid', '?')};subs={subs_str(s['subs'])}"], s["task"])
                    res.kinds.add("sub")
                elif call is not None and call["name"] == "stream_unsub":
                    qid = rec.qids.get(id(call["args"][0]))
                    if qid is None:
                        abnormal = f"stream_unsub of {s['task']} for a queue that was never subscribed"
                        break
                    item(None, None, [f"u{qid}"], [f"subs={subs_str(s['subs'])}"], s["task"])
                    res.kinds.add("unsub")
                else:
                    abnormal = f"queue-lock section of {s['task']} outside stream_sub / stream_unsub / the stream thread"
                    break
                i += 1
                continue
            if call is None:
                abnormal = f"critical section of {s['task']} outside any public call"
                break
            nm = call["name"]
            st = state_str(s["snap"], s["sent"], s["dt"])
            if nm in ("ch_enable", "ch_disable"):
                tok = ("e" if nm == "ch_enable" else "d") + cs_str(call["args"][0])
                item(tok, st, [tok], [st], s["task"])
            elif nm == "ch_divider":
                tok = f"v{call['args'][1]}:{cs_str(call['args'][0])}"
                item(tok, st, [tok], [st], s["task"])
            elif nm == "_ch_divider_default":
                tok = "v0:" + ",".join(map(str, range(n)))
                item(tok, st, [tok], [st], s["task"])
            elif nm == "ch_is_enabled" and s["task"] == "stream":
                if call["s1"] is None:
                    # the phase ended before the stream thread's call returned: its answer was not observed
                    i += 1
                    continue
                fan_items = True
                item(None, None, [f"fc{call['args'][0]}"], [f"ans={int(bool(call['result']))}"], s["task"])
                res.kinds.add("fancheck")
            elif nm in ("ch_is_enabled", "ch_div_get"):
                c = call["args"][0]
                now_en, now_div = list(s["snap"]["now_en"]), list(s["snap"]["now_div"])
                if call["exc"] is None and 0 <= c < n:
                    if nm == "ch_is_enabled":
                        now_en[c] = call["result"]
                    else:
                        now_div[c] = call["result"]
                st = state_str(s["snap"], s["sent"], s["dt"], now_en=now_en, now_div=now_div)
                item("e", st, ["q"], [st], s["task"])
            elif nm == "channels_write":
                ids = [f[3] for f in s["sent"] if len(f) > 3]
                if ids == [7]:
                    kind = "Wd"
                    o1 = outcome(s, "div")
                elif ids == [6]:
                    kind = "We"
                    o1 = outcome(s, "enable")
                else:
                    abnormal = f"a critical section of channels_write of {s['task']} sent frames with ids {ids}"
                    break
                if o1 != "a":
                    res.kinds.add("outcome-" + o1[0])
                if kind == "Wd" and i + 1 < len(order) and order[i + 1]["call"] is call:
                    s2 = order[i + 1]
                    ids2 = [f[3] for f in s2["sent"] if len(f) > 3]
                    if ids2 != [6]:
                        abnormal = f"second critical section of channels_write of {s['task']} sent frames with ids {ids2}"
                        break
                    o2 = outcome(s2, "enable")
                    if o2 != "a":
                        res.kinds.add("outcome-" + o2[0])
                    st2 = state_str(s2["snap"], s2["sent"], s2["dt"])
                    item(f"W:{o1}:{o2}", state_str(s2["snap"], s["sent"] + s2["sent"], s["dt"] + s2["dt"]),
                         [f"Wd:{o1}", f"We:{o2}"], [st, st2], s["task"])
                    i += 2
                    continue
                if kind == "We" and not flags & 1:
                    item(f"W:a:{o1}", st, [f"We:{o1}"], [st], s["task"])
                else:
                    res.split = True
                    item(None, None, [f"{kind}:{o1}"], [st], s["task"])
            else:
                abnormal = f"critical section inside {nm}"
                break
            i += 1
    init_en, init_div = out.get("init", (spec["en"], spec["div"]))
    head = f"{flags} {sl.bits(init_en)} {sl.ints(init_div)}"
    res.abnormal = abnormal
    if abnormal is None and not items and "final_snap" in out and (n == 0 or not any(op[0] in "edvNACWTqr" for p in spec["progs"] for op in p)):
        # no critical section at all is what a device without channels shows: the state is the initial one
        res.line = f"cfg run {head} e"
        res.impl = "ok " + state_str(out["final_snap"], [], 0)
        res.nontrivial = False
        return
    if abnormal is not None or not items:
        # still a line, so that the break shows up as a disagreement with the model
        ops = ";".join(op.rstrip("!") for p in spec["progs"] for op in p if op[0] in "edv") or "e"
        res.line = f"cfg run {head} {ops}"
        res.impl = "abnormal: " + (abnormal or "no critical section recorded")
        res.nontrivial = False
        return
    toks, states = [], []
    if res.split or fan_items:
        for it in items:
            toks += it["ltoks"]
            states += it["lstates"]
        res.line = f"locks run {head} {';'.join(toks)}"
    else:
        for it in items:
            toks.append(it["cfg"])
            states.append(it["cfg_state"])
        res.line = f"cfg run {head} {';'.join(toks)}"
    res.impl = "ok " + " | ".join(states)
    # non-trivial: the application threads' steps are really interleaved (some thread's steps are not contiguous)
    seq = [it["task"] for it in items if it["task"].startswith("app")]
    runs = sum(1 for a, b in zip(seq, seq[1:]) if a != b) + (1 if seq else 0)
    res.nontrivial = runs > len(set(seq))


# ---------------------------------------------------------------------------------------------------------
# schedule enumeration
# ---------------------------------------------------------------------------------------------------------
def explore(spec, prefix, k, depth=None, cap=None, counter=None):
    """the run with script `prefix` (zeros afterwards), then every run that deviates from it at up to k later
    decision points (positions < depth); depth-first, each schedule once"""
    counter = counter if counter is not None else [0]
    stack = [(prefix if isinstance(prefix, Stay) else list(prefix), k)]
    while stack:
        pre, kk = stack.pop()
        if cap is not None and counter[0] >= cap:
            return
        res = run_spec(spec, script=pre)
        counter[0] += 1
        yield res
        if kk <= 0:
            continue
        hi = len(res.choices) if depth is None else min(len(res.choices), depth)
        children = []
        for j in range(len(pre), hi):
            for alt in range(res.ncands[j]):
                if alt != (res.choices[j] if isinstance(pre, Stay) else 0):
                    children.append((type(pre)(res.choices[:j] + [alt]), kk - 1))
        stack.extend(reversed(children))


def _pin_init(counter, cores):
    """one core per worker: the baton hand-over between the simulation's OS threads is ~3x cheaper on one core"""
    try:
        with counter.get_lock():
            k = counter.value
            counter.value += 1
        os.sched_setaffinity(0, {cores[k % len(cores)]})
    except (AttributeError, OSError):
        pass


class pinned:
    """pin the calling process to one core for the duration of the block"""

    def __enter__(self):
        try:
            self.old = os.sched_getaffinity(0)
            os.sched_setaffinity(0, {sorted(self.old)[-1]})
        except (AttributeError, OSError):
            self.old = None

    def __exit__(self, *a):
        if self.old:
            try:
                os.sched_setaffinity(0, self.old)
            except OSError:
                pass


def prefixes(spec, length):
    """every choice prefix of `length` decisions (or shorter, if the run has fewer): a partition of the schedules"""
    out, stack = [], [[]]
    with pinned():
        while stack:
            pre = stack.pop()
            if len(pre) == length:
                out.append(pre)
                continue
            res = run_spec(spec, script=pre)
            if len(res.choices) <= len(pre):
                out.append(pre)
                continue
            for alt in range(res.ncands[len(pre)]):
                stack.append(pre + [alt])
    return out


def prog_str(spec):
    return "|".join(";".join(p) for p in spec["progs"])


def _job(job):
    """(kind, spec, arg) -> dict(runs, capped, rows, violations, maxdec)"""
    kind, spec, arg = job
    rows = {}
    viol = []
    nrun = 0
    maxdec = 0
    capped = False
    kinds = {}
    if kind == "random":
        seeds = arg
        gen = (run_spec(spec, seed=s) for s in seeds)
        tag = f"random-t{len(spec['progs'])}"
    elif kind == "pinned":
        gen = iter([run_spec(spec, script=arg)])
        tag = "pinned"
    else:
        prefix, k, depth, cap = arg
        counter = [0]
        gen = explore(spec, prefix, k, depth, cap, counter)
        if kind == "exhaustive":
            tag = f"exhaustive-d{depth}"
        elif kind == "npreempt":
            tag = f"npreempt-k{k + (1 if len(prefix) else 0)}"
        else:
            tag = f"preempt-k{k + sum(1 for x in prefix if x)}"
        tag += f"-t{len(spec['progs'])}"
    for res in gen:
        nrun += 1
        maxdec = max(maxdec, len(res.choices))
        for kk in res.kinds:
            kinds[kk] = kinds.get(kk, 0) + 1
        sp = spec_line(spec, script_str(res.choices, res.stay))
        if res.verdict is not None and len(viol) < 3:
            v = dict(res.verdict)
            v["case"] = sp
            v["trace"] = res.line
            viol.append(v)
        key = res.line
        old = rows.get(key)
        if old is None or (old[1] == res.impl and old[3] is None and res.verdict is not None) or (old[1].startswith("ok") and not res.impl.startswith("ok")):
            rows[key] = (tag, res.impl, sp, res.verdict and dict(res.verdict, case=sp), res.nontrivial, res.split)
    if kind not in ("random", "pinned") and arg[3] is not None and nrun >= arg[3]:
        capped = True
    return dict(runs=nrun, capped=capped, rows=rows, violations=viol, maxdec=maxdec, kind=kind, kinds=kinds,
                prog="|".join(";".join(p) for p in spec["progs"]))


# ---------------------------------------------------------------------------------------------------------
# program generation
# ---------------------------------------------------------------------------------------------------------
def gen_prog(rng, n, length, ctl=False, acking=True, end_write=True, others=()):
    """one application thread's program.  ctl: this thread may stop / start the stream."""
    ops = []
    nq = 0
    if n == 0:
        for _ in range(length):
            ops.append(rng.choice(["W", "N", "N!", "A", "C", "C!", "i0", "W"] + (["T0", "T1"] if ctl else [])))
        ops.append("W")
        return ops
    for _ in range(length):
        r = rng.random()
        c = rng.randrange(n)
        cs = sorted(set(rng.randrange(n) for _ in range(rng.choice([1, 1, 2]))))
        wn = "!" if rng.random() < 0.2 else ""
        if r < 0.16:
            ops.append("e" + ",".join(map(str, cs)) + wn)
        elif r < 0.27:
            ops.append("d" + ",".join(map(str, cs)) + wn)
        elif r < 0.37:
            ops.append(f"v{rng.choice([0, 1, 3, 200, 255])}:" + ",".join(map(str, cs)) + wn)
        elif r < 0.41:
            ops.append("N" + wn)
        elif r < 0.44:
            ops.append("A")
        elif r < 0.47:
            ops.append("C" + wn)
        elif r < 0.57:
            ops.append("W")
        elif r < 0.72:
            ops.append(f"q{c}")
        elif r < 0.76:
            ops.append(f"r{c}")
        elif r < 0.80:
            ops.append(f"i{c}")
        elif ctl and acking and r < 0.84:
            ops.append(rng.choice(["T0", "T1"]))
        elif r < 0.91 or not nq:
            ops.append(f"s{c}")
            nq += 1
        elif others and rng.random() < 0.35:
            # another application thread's queue (no-op if that thread has not subscribed yet)
            ops.append(f"{'u' if r < 0.95 else 'g'}{rng.randrange(2)}@{rng.choice(others)}")
        elif r < 0.96:
            ops.append(f"u{rng.randrange(nq)}")
        else:
            ops.append(f"g{rng.randrange(nq)}")
    if end_write:
        ops.append("W")
    return ops


def gen_spec(rng, nthreads=None, length=None, stream=None, flags=None, n=None, pol=None):
    if n is None:
        n = rng.choice([1, 2, 2, 3, 3, 4, 5])
    flags = rng.choice([3, 3, 3, 2, 2, 1, 0]) if flags is None else flags
    en = [rng.random() < 0.3 for _ in range(n)]
    div = [rng.choice([0, 0, 5]) for _ in range(n)]
    types = [rng.choice(TYPES_OK) for _ in range(n)]
    stream = (rng.random() < 0.5) if stream is None else stream
    nt = nthreads or rng.choice([2, 2, 3, 3, 4])
    if pol is None and rng.random() < 0.15:
        pol = [rng.choice(["a", "a", "n3", "l", "x", "n1"]) for _ in range(rng.randrange(1, 6))]
    ctl = rng.randrange(nt) if rng.random() < 0.35 else -1
    # a thread that does not end with a write: the final state is judged only if somebody else's write follows
    progs = [gen_prog(rng, n, length if length is not None else rng.randrange(1, 5), ctl=(k == ctl), acking=not pol,
                      end_write=(k == 0 or rng.random() < 0.75), others=[j for j in range(nt) if j != k]) for k in range(nt)]
    # latency link (the device handles a request when the reader is next scheduled, not inside the write call): only
    # with an acknowledging device and without stream start / stop in the concurrent phase (see the module doc)
    lat = (not pol) and bool(flags & 2) and not any(op in ("T0", "T1") for p in progs for op in p) and rng.random() < 0.4
    return dict(n=n, flags=flags, types=types, en=en, div=div, stream=stream, pol=pol or None, progs=progs, sched="", lat=lat)


def T(flags, stream, n, progs, en=None, div=None, types=None, pol=None, lat=False):
    return dict(n=n, flags=flags, types=types or ([6, 10, 4, 9, 11][:n]), en=list(en) if en is not None else [False] * n,
                div=list(div) if div is not None else [0] * n, stream=stream, pol=pol, progs=progs, sched="", lat=lat)


TINY = [
    # writers and readers overlapping in all orders
    T(3, False, 2, [["e0", "W"], ["q0", "W"]]),
    T(3, False, 2, [["e0", "W"], ["d0", "e1", "W"]]),
    T(3, False, 2, [["e0", "v3:1", "W"], ["q0", "r1", "W"]]),
    T(2, False, 2, [["e0", "W"], ["q0", "e1", "W"]]),
    T(3, True, 2, [["e0", "W"], ["s0", "q0", "W"]]),
    T(3, True, 2, [["e0", "e1", "W"], ["s0", "u0", "W"]]),
    T(1, False, 2, [["e1", "W"], ["q1", "W"]]),
    # set-all calls are not atomic; writenow; the device-info lock
    T(3, False, 2, [["e1", "W"], ["N", "W"]]),
    T(3, False, 2, [["e0!", "i0"], ["i0", "q0", "W"]]),
]

TARGETED = [
    # aimed at: unprotected read of the acknowledged vector, released lock during the ACK wait, lock-order
    # inversion between subscription and the stream thread, unprotected subscriber list
    T(3, False, 2, [["e0", "W"], ["q0", "q0", "W"]]),
    T(3, False, 2, [["e0", "e1", "W", "d0", "W"], ["q0", "q1", "q0", "W"]]),
    # writes in flight (their replies make the device emit stream frames) while others subscribe / unsubscribe
    T(3, True, 2, [["e0", "W", "s0", "W", "u0", "W", "W"], ["s0", "W", "W", "u0", "W"]]),
    # set-all against a buffered change of another thread; a channel enabled at connect and a bulk request
    T(3, False, 3, [["e1", "W"], ["N", "W"]], en=[True, False, False]),
    T(3, False, 4, [["d3", "W"], ["A", "W"]], en=[False, False, False, True]),
    T(3, False, 5, [["e0", "W"], ["e1", "W"]], en=[False, False, False, True, False]),
    # a setter between another thread's request and its bookkeeping, then a one-channel difference
    T(3, False, 5, [["e1!", "e3!", "q2"], ["e2", "q2", "W"]]),
    T(3, True, 2, [["e0", "e1", "W", "s0", "g0", "W"], ["s0", "s1", "u0", "q0", "g1", "W"], ["s1", "u0", "s0", "W"]]),
    T(3, True, 2, [["e0", "W", "s0", "u0", "s0", "u0", "W"], ["s0", "g0", "g0", "g0", "W"]]),
    T(3, True, 3, [["e0", "e1", "e2", "W", "s0", "s1", "u0", "u1", "W"], ["s0", "s1", "g0", "u0", "g1", "W"], ["q0", "s2", "u0", "W"]]),
    # the stream stopped / started by an application thread while others configure and subscribe
    T(3, True, 3, [["T0", "T1", "W"], ["s0", "e0!", "g0", "u0", "W"], ["e1", "q1", "W"]]),
    # … with frames flowing from the start (channels enabled at connect): stop while the stream thread fans out
    T(3, True, 2, [["s0", "g0", "g0", "T0", "W"], ["s1", "g0", "g0", "u0", "s0", "W"]], en=[True, True]),
    # default configuration / writenow / the client's copy of the device description
    T(3, False, 4, [["C!", "e2", "W"], ["v7:1,2", "e1!", "i1", "r1"], ["N!", "i2", "W"]], en=[True, True, False, False], div=[0, 5, 0, 5]),
    # a device without channels
    T(3, False, 0, [["N!", "W", "C"], ["A", "W", "C!", "i0"]]),
    T(2, True, 0, [["T0", "T1", "W"], ["C", "W"]]),
    # ACK support without divider support: a writer and a reader
    T(2, False, 3, [["e0!", "d0!"], ["q0", "q0", "q0", "W"]]),
    # requests rejected / lost: deadlock, exception and bounded time only
    T(3, False, 3, [["e0", "W", "e1", "W"], ["d0", "v5:1", "W", "q0"]], pol=["n3", "l", "a", "x", "a", "n1"]),
    T(1, True, 2, [["e0!", "s0", "g0", "W"], ["d0!", "e1!", "u0"]], pol=["l", "a", "l", "x"]),
    # round 4: a writer's own query right after its write while another thread buffers a change (no exclusion at all);
    # a divider request and an enable request of two threads against a device with latency (requests serialised?);
    # a thread reading another thread's queue while that one unsubscribes it
    T(3, False, 2, [["e0", "W", "q1"], ["e1", "W"]]),
    T(3, False, 2, [["e0", "W", "q0"], ["v7:1", "W", "r1"]], lat=True),
    T(3, False, 3, [["e0", "W"], ["v7:1", "W"], ["r1", "q0", "r1", "q0"]], lat=True),
    T(3, True, 2, [["s0", "g0", "W", "u0", "W"], ["s1", "g0@0", "g0@0", "g0@0", "g0@0", "W"]], en=[True, False]),
    T(3, True, 2, [["s0", "s1", "g0", "u1@1", "W"], ["s1", "g0@0", "u0@0", "g1", "W"]], en=[True, True], lat=True),
]
QUICK_TARGETED = [0, 3, 4, 5, 6, 10, 11, 13, 15, 16, 18, 19, 21]     # indices into TARGETED explored with <= k deviations from
#                                                                 the priority schedule in the quick tier
QUICK_STAY = [0, 5, 10, 18, 19, 21]     # … explored with <= k pre-emptions of the non-pre-emptive schedule, quick tier
THOROUGH_STAY = [0, 2, 5, 8, 10, 18, 19, 20, 21, 22]     # … thorough tier
STAY_ONLY = [20, 22]                    # not explored from the priority schedule in the thorough tier


def pinned_specs():
    """the pinned schedules: lines `#! c12 …` of harness/corpus/C12/pinned.txt"""
    out = []
    try:
        for l in open(PINNED):
            l = l.strip()
            if l.startswith("#! c12 "):
                out.append(parse_spec(l[3:]))
    except FileNotFoundError:
        pass
    return out


class C12(Prop):
    id = "C12"
    lean_module = "NxsModel.Props.C12"
    rule = ("real NxscopeHandler/CommHandler with receive + stream threads under vsim (preempt switch points at every lock / "
            "queue / event / thread-start / link-write operation) against the reference device (0..5 channels of mixed numeric "
            "types, device flags 0..3; acknowledging, or — about 15% of the random specs and two targeted ones — answering the "
            "set requests with a scripted sequence of ack / nack / lost / applied-but-ACK-lost); 2..4 application threads with "
            "programs over {enable, disable, divider (each also with writenow=True), disable_all, enable_all, "
            "channels_default_cfg, write, sub, unsub, get (own queue or another thread's), is_enabled, div_get, dev_channel_get, "
            "stream_start / stream_stop from one of the threads}, most ending with a write, stream running in about half of the "
            "cases; in part of the specs with an ACK-capable acknowledging device and no stream start / stop (`lat=1`) the "
            "device handles a request when the receive thread is next scheduled instead of inside the write call; the "
            "library's own lock objects stay in place (recording wrappers delegate to them); schedules: pinned "
            "(harness/corpus/C12/pinned.txt), exhaustive over the first D decision points of tiny 2-thread programs, every "
            "placement of <= k deviations from the priority schedule and of <= k pre-emptions of the non-pre-emptive schedule "
            "(k = 2 quick, 3 thorough; per-program caps reported in schedule_families_capped), seeded random; a case = one DISTINCT lock-level trace (sequence of critical sections "
            "of the channels lock and of the queue lock with what each showed) as a `cfg run` / `locks run` history; "
            "executions counted separately as schedules_executed; non-trivial = the application threads' critical sections "
            "are interleaved (some thread's sections are not contiguous)")
    assumptions = ["vsim shims implement the documented semantics of Lock / Queue / Event / Thread on real OS threads, with "
                   "switch points only at these primitives: pre-emption INSIDE a critical section between two primitives, the "
                   "GIL and the fairness of threading.Lock are not exercised (the property is partial in that sense)",
                   "the reference device (harness/refdev.py) is a conforming NxScope device that applies a request before "
                   "the client's write call returns or (`lat=1` specs: ACK-capable, acknowledging, no stream start / stop in "
                   "the concurrent phase) when the receive thread is next scheduled, one held request at a time, and, unless "
                   "scripted otherwise, acknowledges",
                   "the mutual exclusion of the library's locks is that of the objects the library created, as vsim "
                   "virtualises them (threading.Lock / RLock -> VLock / VRLock; anything else runs as it is); that the "
                   "constructor IS threading.Lock is a fact of the regenerated lock table (import resolution)",
                   "connect / disconnect are issued by one thread before / after the concurrent phase (life cycle is C09); "
                   "stream_start / stream_stop are issued by at most ONE of the application threads of a spec",
                   "lock-level atomicity is argued from the regenerated lock table (Gen/Locks.lean), not derived from a "
                   "semantics of Python"]
    trusted_base = Prop.trusted_base + ["harness/translate_locks.py (lock-discipline table)",
                                        "harness/vsim.py (deterministic scheduler, shims of Lock/Queue/Event/Thread)",
                                        "harness/refdev.py (reference device)"]

    def __init__(self):
        self._impl = {}
        self._spec = {}
        self._verdict = {}
        self._nontrivial = {}
        self.violations = []
        self.executed = 0
        self.sampled = []
        self.split_traces = 0
        self.maxdec = 0
        self.locks_driver = None
        self.skipped_split = 0
        self.families = {}
        self.jobs_per = {}
        self.kinds = {}
        self.spec_stats = {}

    def note_spec(self, spec):
        st = self.spec_stats
        for k, v in (("n", spec["n"]), ("flags", spec["flags"]), ("threads", len(spec["progs"])),
                     ("device", "scripted-outcomes" if spec.get("pol") else "acking"), ("stream", int(spec["stream"]))):
            d = st.setdefault(k, {})
            d[str(v)] = d.get(str(v), 0) + 1
        d = st.setdefault("ops", {})
        for p in spec["progs"]:
            for op in p:
                key = op[0] + ("!" if op.endswith("!") else "") if op[0] not in "T" else op
                d[key] = d.get(key, 0) + 1

    # -- jobs -----------------------------------------------------------------------------
    def jobs(self, rng, tier):
        T_ = tier == "thorough"
        jobs = []
        for spec in pinned_specs():
            _, script = sched_parse(spec["sched"])
            jobs.append(("pinned", spec, script or []))
        # exhaustive over the first D decision points of tiny programs (split over the workers by the first 3 choices)
        D = 12 if T_ else 9
        for spec in TINY:
            for pre in prefixes(spec, 3):
                jobs.append(("exhaustive", spec, (pre, D, D, 1300 if T_ else 220)))
        # <= k deviations from the priority schedule
        k = 3 if T_ else 2
        specs = [t for i, t in enumerate(TARGETED) if i not in STAY_ONLY] if T_ else [TARGETED[i] for i in QUICK_TARGETED]
        for _ in range(10 if T_ else 3):
            specs.append(gen_spec(rng, nthreads=rng.choice([2, 3]), length=rng.randrange(2, 4)))
        for spec in specs:
            with pinned():
                base = run_spec(spec, script=[])
            cap = 360 if T_ else 300
            nfirst = 40 if T_ else 36
            firsts = [(j, alt) for j in range(len(base.choices)) for alt in range(1, base.ncands[j])]
            if len(firsts) > nfirst:
                self.sampled.append(f"{prog_str(spec)}: {nfirst} of {len(firsts)} first-deviation positions (sampled)")
                firsts = sorted(rng.sample(firsts, nfirst))
            jobs.append(("preempt", spec, ([], 0, None, None)))
            for j, alt in firsts:
                jobs.append(("preempt", spec, (base.choices[:j] + [alt], k - 1, None, cap)))
        # <= k pre-emptions of the non-pre-emptive schedule (the running thread keeps running while it can)
        for spec in [TARGETED[i] for i in (THOROUGH_STAY if T_ else QUICK_STAY)]:
            with pinned():
                base = run_spec(spec, script=Stay())
            cap = 200 if T_ else 220
            nfirst = 32 if T_ else 28
            firsts = [(j, alt) for j in range(len(base.choices)) for alt in range(base.ncands[j]) if alt != base.choices[j]]
            if len(firsts) > nfirst:
                self.sampled.append(f"{prog_str(spec)}: {nfirst} of {len(firsts)} first-pre-emption positions (sampled)")
                firsts = sorted(rng.sample(firsts, nfirst))
            jobs.append(("npreempt", spec, (Stay(), 0, None, None)))
            for j, alt in firsts:
                jobs.append(("npreempt", spec, (Stay(base.choices[:j] + [alt]), k - 1, None, cap)))
        # seeded random
        for i in range(300 if T_ else 130):
            spec = gen_spec(rng, n=0 if i == 0 else None)
            jobs.append(("random", spec, [rng.randrange(1 << 30) for _ in range(60 if T_ else 14)]))
        for spec in TARGETED:
            jobs.append(("random", spec, [rng.randrange(1 << 30) for _ in range(150 if T_ else 24)]))
        for j in jobs:
            self.note_spec(j[1])
        return jobs

    def run_jobs(self, jobs):
        try:
            cores = sorted(os.sched_getaffinity(0))
        except AttributeError:
            cores = list(range(os.cpu_count() or 2))
        procs = min(len(jobs), max(1, min(14, len(cores) - 1)))
        if procs <= 1:
            with pinned():
                rs = [_job(j) for j in jobs]
        else:
            ctx = multiprocessing.get_context("fork")
            with ctx.Pool(procs, initializer=_pin_init, initargs=(ctx.Value("i", 0), cores)) as pool:
                rs = pool.map(_job, jobs, chunksize=1)
        out = []
        for r in rs:
            self.executed += r["runs"]
            self.maxdec = max(self.maxdec, r["maxdec"])
            self.families[r["kind"]] = self.families.get(r["kind"], 0) + r["runs"]
            for kk, v in r["kinds"].items():
                self.kinds[kk] = self.kinds.get(kk, 0) + v
            key = f"{r['kind']} {r['prog']}"
            tot = self.jobs_per.get(key, [0, 0])
            tot[0] += 1
            tot[1] += 1 if r["capped"] else 0
            self.jobs_per[key] = tot
            self.violations += r["violations"]
            for line, (tag, impl, sp, verdict, nontriv, split) in r["rows"].items():
                if line in self._impl:
                    if verdict is not None and self._verdict.get(line) is None:
                        self._verdict[line] = verdict
                        self._spec[line] = sp
                    continue
                self._impl[line] = impl
                self._spec[line] = sp
                self._verdict[line] = verdict
                self._nontrivial[line] = nontriv
                if split:
                    self.split_traces += 1
                out.append((line, tag))
        return out

    def have_locks_driver(self):
        if self.locks_driver is None:
            try:
                ans = common.driver_run(["locks run 3 0 0 q;s0;fc0;fd0:1;u0"])[0]
                self.locks_driver = ans.startswith("ok")
            except Exception:  # noqa: BLE001
                self.locks_driver = False
        return self.locks_driver

    # -- Prop interface -------------------------------------------------------------------
    def cases(self, rng, tier):
        rows = self.run_jobs(self.jobs(rng, tier))
        if not self.have_locks_driver():
            keep = [r for r in rows if not r[0].startswith("locks ")]
            self.skipped_split = len(rows) - len(keep)
            rows = keep
        return rows

    def impl(self, line):
        if line in self._impl:
            return self._impl[line]
        if line.startswith("cfg run "):
            t = line.split(" ")
            en = [] if t[3] == "-" else [c == "1" for c in t[3]]
            div = [] if t[4] == "-" else [int(x) for x in t[4].split(",")]
            outl, info = sl.run_cfg_history(int(t[2]), en, div, t[5].split(";"))
            return "ok " + " | ".join(outl)
        if line.startswith("c12 "):
            spec = parse_spec(line)
            seed, script = sched_parse(spec["sched"])
            return run_spec(spec, seed=seed, script=script).impl
        return "harness: unknown line"

    def nontrivial(self, line, out):
        return self._nontrivial.get(line, False)

    def oracle(self, line, impl_out=None):
        if line.startswith("c12 "):
            if line in self._verdict:
                v = self._verdict[line]
                return dict(v) if v else None
            spec = parse_spec(line)
            seed, script = sched_parse(spec["sched"])
            res = run_spec(spec, seed=seed, script=script)
            if res.verdict is None:
                return None
            v = dict(res.verdict)
            v["case"] = spec_line(spec, script_str(res.choices, res.stay))
            v["trace"] = res.line
            return v
        if line in self._verdict:
            v = self._verdict[line]
            return dict(v) if v else None
        if line in self._spec:
            return self.oracle(self._spec[line])
        return None

    def search_cases(self, rng):
        """targeted search, in parallel; returns the spec lines (with explicit scripts) of the failing executions
        found, plus the distinct traces of the rest"""
        jobs = []
        for spec in TARGETED:
            jobs.append(("random", spec, [rng.randrange(1 << 30) for _ in range(400)]))
            with pinned():
                base = run_spec(spec, script=[])
            firsts = [(j, alt) for j in range(len(base.choices)) for alt in range(1, base.ncands[j])]
            if len(firsts) > 40:
                firsts = sorted(rng.sample(firsts, 40))
            for j, alt in firsts:
                jobs.append(("preempt", spec, (base.choices[:j] + [alt], 1, None, 80)))
            with pinned():
                base = run_spec(spec, script=Stay())
            firsts = [(j, alt) for j in range(len(base.choices)) for alt in range(base.ncands[j]) if alt != base.choices[j]]
            if len(firsts) > 40:
                firsts = sorted(rng.sample(firsts, 40))
            for j, alt in firsts:
                jobs.append(("npreempt", spec, (Stay(base.choices[:j] + [alt]), 1, None, 80)))
        for _ in range(60):
            jobs.append(("random", gen_spec(rng, stream=True, flags=3), [rng.randrange(1 << 30) for _ in range(25)]))
        for _ in range(40):
            jobs.append(("random", gen_spec(rng, stream=False, pol=[]), [rng.randrange(1 << 30) for _ in range(25)]))
        before = len(self.violations)
        self.run_jobs(jobs)
        out = []
        for v in self.violations[before:]:
            self._verdict[v["case"]] = v
            out.append((v["case"], "search"))
        return out

    def extra_checks(self, rng, tier, ev):
        cov = ev["coverage"]
        cov["schedules_executed"] = self.executed
        cov["schedules_by_family"] = dict(self.families)
        cov["schedule_families_capped"] = [f"{k}: {v[1]} of {v[0]} enumeration jobs stopped at their run cap"
                                            for k, v in sorted(self.jobs_per.items()) if v[1]][:60]
        cov["first_deviations_sampled"] = self.sampled[:40]
        cov["exhaustive"] = False     # exhaustive only within the stated depth / deviation bounds of the uncapped jobs
        cov["traces_validated_against_impl"] = len(self._impl) - self.skipped_split
        cov["traces_with_split_write"] = self.split_traces
        cov["split_traces_not_replayed_driver_lacks_locks_op"] = self.skipped_split
        cov["max_decision_points"] = self.maxdec
        cov["executions_with_section_kind"] = dict(sorted(self.kinds.items()))
        cov["spec_distribution"] = {k: dict(sorted(v.items())) for k, v in self.spec_stats.items()}
        try:
            import translate_locks
            cov["lock_table_rows"] = {k: v for k, v in translate_locks.gen_locks(common.REPO).facts.items()}
        except Exception as e:  # noqa: BLE001
            cov["lock_table_rows"] = f"unavailable: {e}"
        # one violation per key, each with its explicit schedule
        seen = set()
        out = []
        for v in self.violations:
            if v["key"] in seen:
                continue
            seen.add(v["key"])
            out.append(v)
        return out


PROP = C12()


if __name__ == "__main__":
    for _line in sys.argv[1:]:
        _spec = parse_spec(_line)
        _seed, _script = sched_parse(_spec["sched"])
        _res = run_spec(_spec, seed=_seed, script=_script)
        print("latency link:", LATENCY)
        print("verdict:", _res.verdict)
        print("schedule:", script_str(_res.choices, _res.stay))
        print("trace:", _res.line)
        print("observed:", _res.impl)
