"""C07 — buffered channel configuration reaches the device exactly at write time.

Cases are lines of the Lean driver op `cfgx run` (lean/NxsModel/Driver/ConfigExt.lean; format in harness/c07lib.py):
every dimension of the property's quantifier is explicit in the line — flags, rx padding, which handler is driven
(CommHandler, or the NxscopeHandler wrappers called without / with `writenow`), stream left running at connect time,
stream running during the exchange, channel count, initial device state, the call history (Python channel ids:
negative = from the end, True/False = 1/0).  A few lines of the older op `cfg run` (no padding / ids / writenow in
the model; those dimensions chosen by a hash of the line and the padding stripped before comparing) are kept.
"""
import os
import zlib

from common import Prop, LEAN, log
import c07lib as cl
import sessionlib as sl

PADS = [0, 0, 4, 16, 3, 8, 64, 255]


def _wired():
    """is the `cfgx` op wired into the driver (lean/Main.lean is the owner's file)?"""
    try:
        return "cfgxOp" in open(os.path.join(LEAN, "Main.lean"), encoding="utf-8").read()
    except OSError:
        return False


def gen_ids(rng, n, ext):
    cs = sorted(set(rng.randrange(n) for _ in range(rng.choice([1, 1, 1, 2, 3]))))
    out = []
    for c in cs:
        r = rng.random() if ext else 1.0
        if r < 0.15:
            out.append(str(c - n))           # the same channel, counted from the end
        elif r < 0.2 and c <= 1:
            out.append("FT"[c])              # bool is an int in Python
        else:
            out.append(str(c))
    return ",".join(out)


def gen_history(rng, n, outcomes="a", maxlen=14, ext=False, high=False):
    """ext: Python ids (negative, bool); high: setters may carry `!` (writenow=True)"""
    ops = []
    for _ in range(rng.randrange(1, maxlen + 1)):
        r = rng.random()
        bang = "!" if (ext and high and rng.random() < 0.2) else ""
        if r < 0.18:
            ops.append("e" + gen_ids(rng, n, ext) + bang)
        elif r < 0.30:
            ops.append("d" + gen_ids(rng, n, ext) + bang)
        elif r < 0.47:
            ops.append(f"v{rng.choice([0, 1, 2, 127, 128, 200, 255, rng.randrange(256)])}:" + gen_ids(rng, n, ext) + bang)
        elif r < 0.57:
            ops.append("D" + bang)
        elif r < 0.67:
            ops.append("A")
        elif r < 0.77:
            ops.append("N" + bang)
        else:
            ops.append(f"W:{rng.choice(outcomes)}:{rng.choice(outcomes)}")
    if rng.random() < 0.8:
        ops.append("W:a:a")
    if rng.random() < 0.3:
        ops.append("W:a:a")
    return ops


def parse_line(line):
    """both line kinds → dict(flags, pad, mode, en, div, calls, legacy)"""
    t = line.split(" ")
    if t[0] == "cfgx":
        p = cl.parse_line(line)
        p["legacy"] = False
        return p
    h = zlib.crc32(line.encode())
    en = [] if t[3] == "-" else [c == "1" for c in t[3]]
    div = [] if t[4] == "-" else [int(x) for x in t[4].split(",")]
    mode = ("h" if (h >> 5) & 1 else "") + ("s" if h & 1 else "")
    return dict(flags=int(t[2]), pad=PADS[(h >> 2) & 7], mode=mode, en=en, div=div, calls=t[5].split(";"), legacy=True)


def emulate_setter(body, req_en, req_div):
    """the documented meaning of a setter on the requested vectors, with Python's list indexing for the ids (the
    statements `vec[chan] = v` in a loop: effects before a raising index are kept); returns the error name or None"""
    n = len(req_en)
    try:
        if body == "D":
            req_en[:] = [False] * n
            req_div[:] = [0] * n
        elif body == "A":
            req_en[:] = [True] * n
        elif body == "N":
            req_en[:] = [False] * n
        elif body[0] in "ed":
            for c in cl.parse_ids(body[1:]):
                req_en[c] = body[0] == "e"
        elif body[0] == "v":
            v, cs = body[1:].split(":")
            if not 0 <= int(v) <= 255:
                return "value"
            for c in cl.parse_ids(cs):
                req_div[c] = int(v)
    except IndexError:
        return "index"
    return None


class C07(Prop):
    id = "C07"
    lean_module = "NxsModel.Props.C07"
    rule = ("random configuration histories (enable/disable/divider/default/all + writes, 1..16 calls) on the real CommHandler "
            "and (half of the lines) through the NxscopeHandler wrappers — called without their writenow argument, and a fifth of "
            "the setter calls with writenow=True — under the virtual-time runtime against the reference device; explicit in "
            "every line and identical for the real code and the model: channel count (0..64, 100..255), the four "
            "divider/ACK flag combinations, rx padding (0, 3, 4, 8, 16, 64, 255, random), random initial device state, "
            "stream left running at connect time (half of the lines), stream running during the exchange with a stream "
            "frame between every set request and its acknowledgement (a third), Python channel ids (negative, bool), "
            "out-of-range ids and divider values; every request acknowledged; after every call the bytes written (padded), "
            "client view, requested vector, device state and the client's device copy (read through "
            "NxscopeHandler.dev_channel_get on the wrapper lines) are compared with the model; distinct = distinct line; "
            "non-trivial = history with a call that writes")
    assumptions = ["virtual-time runtime (harness/vsim.py) preserves queue/lock/thread semantics",
                   "reference device (harness/refdev.py) is a conforming NxScope device"]
    outcomes = ["a"]

    # -- cases -------------------------------------------------------------------------------------------------
    def legacy_cases(self, rng, T):
        for flags in range(4):
            yield f"cfg run {flags} - - W:a:a;A;D;N;W:a:a", "zero-channels"
        yield "cfg run 3 - - e0;W:a:a;v5:0;W:a:a", "zero-channels"
        for it in range(600 if T == "all" else 120 if T else 24):
            n = rng.choice([1, 2, 3, 4, 5, 8, 16, 64]) if it % 12 else rng.choice([100, 127, 128, 200, 254, 255])
            flags = rng.randrange(4)
            en = [rng.random() < 0.4 for _ in range(n)]
            div = [rng.choice([0, 0, 3, 200]) for _ in range(n)]
            ops = gen_history(rng, n, self.outcomes)
            if rng.random() < 0.1:
                ops.insert(rng.randrange(len(ops) + 1), rng.choice([f"e{n}", "v256:0", "v-1:0", f"d0,{n + 3}", f"v5:{n}"]))
            yield f"cfg run {flags} {sl.bits(en)} {sl.ints(div)} {';'.join(ops)}", f"legacy-flags{flags}"

    def fixed_cases(self):
        # a device without channels: every write is a no-op (F18)
        for flags in range(4):
            yield f"cfgx run {flags} {PADS[flags + 2]} {'h' if flags & 1 else '-'} - - W:a:a;A;D;N;W:a:a", "zero-channels"
        yield "cfgx run 3 8 hs - - e0;W:a:a;v5:0;W:a:a;e-1;N!;D!", "zero-channels"
        # every wrapper, alone, without its writenow argument: nothing may reach the device (E-C07-1)
        for i, call in enumerate(["e0", "d1", "v5:0", "D", "N", "e0,2", "d1,2", "v9:1,2", "e-1", "dT"]):
            for flags in (0, 3):
                yield f"cfgx run {flags} {PADS[i % 8]} h 010 7,0,200 {call}", "wrapper-default"
                yield f"cfgx run {flags} {PADS[(i + 3) % 8]} h{'sr'[i % 2]} 010 7,0,200 A;W:a:a;{call};{call};W:a:a", "wrapper-default"
        # every wrapper with writenow=True: the call is setter + write
        for i, call in enumerate(["e0!", "d1!", "v5:0!", "D!", "N!", "e0,2!", "v9:-1,F!"]):
            for flags in range(4):
                yield f"cfgx run {flags} {PADS[(i + flags) % 8]} h{['', 's', 'r', 'sr'][flags]} 010 7,0,200 {call};{call};W:a:a", "wrapper-writenow"
        # a raising setter with writenow=True writes nothing, also when requests are pending
        for call in ["e3!", "d-4!", "v256:0!", "v5:0,3!", "e0,7!"]:
            yield f"cfgx run 3 4 h 010 7,0,200 e2;{call};W:a:a", "wrapper-writenow-raises"
        # Python ids
        for call in ["e-1", "e-3", "e-4", "d-2", "v5:-1", "v5:-3,-1", "eT", "eF", "dT", "v6:T,F", "e-1,0", "d1,-4,0"]:
            yield f"cfgx run 3 16 {'h' if len(call) % 2 else '-'} 010 7,0,200 {call};W:a:a", "python-ids"
        # stream frames between every request and its acknowledgement, on every flag combination
        for flags in range(4):
            yield f"cfgx run {flags} 0 r 110 1,0,0 e2;W:a:a;v3:0;W:a:a;d0,1;W:a:a;W:a:a", "stream-during"
            yield f"cfgx run {flags} 16 hsr 110 1,0,0 e2!;v3:0!;d0,1;W:a:a;W:a:a;A;D!", "stream-during"

    def exhaustive_cases(self):
        """thorough tier: every value of the one-byte dimensions on a short history"""
        for pad in range(256):           # every rx padding
            yield f"cfgx run {pad % 4} {pad} {['-', 'h', 'r', 'hs'][(pad >> 2) % 4]} 0110 0,9,0,200 e0;v{pad}:-1,1;W:a:a;d1,2;W:a:a;W:a:a", "all-paddings"
        for v in range(-1, 258):         # every divider value (and the first ones out of range), single and vector form
            yield f"cfgx run {1 + 2 * (v % 2)} {PADS[v % 8]} {'h' if v % 3 else '-'} 01 0,7 v{v}:0;W:a:a;v{v}:0,1;W:a:a", "all-dividers"
        for n in (1, 2, 5):              # every Python index of a short vector, and the first ones out of range
            for c in list(range(-n - 2, n + 2)) + ["T", "F"]:
                for call in (f"e{c}", f"d{c}", f"v77:{c}", f"e0,{c}", f"v3:{c}!"):
                    yield (f"cfgx run 3 {PADS[(n + len(call)) % 8]} h {'10110'[:n]} {','.join('50604'[:n])} {call};W:a:a;A;{call};W:a:a",
                           "all-ids")

    def cases(self, rng, tier):
        T = tier == "thorough"
        if not _wired():
            log("[C07] WARNING: driver op `cfgx` is not wired into lean/Main.lean — running the `cfg run` cases only "
                "(rx padding, Python ids and writenow calls are then not compared with the model)")
            yield from self.legacy_cases(rng, "all" if T else True)
            return
        yield from self.fixed_cases()
        yield from self.legacy_cases(rng, T)
        if T:
            yield from self.exhaustive_cases()
        for it in range(1500 if T else 110):
            n = rng.choice([1, 2, 3, 4, 5, 8, 16, 64]) if it % 12 else rng.choice([100, 127, 128, 200, 254, 255])
            flags = rng.randrange(4)
            pad = rng.choice(PADS) if rng.random() < 0.8 else rng.randrange(1, 256)
            high = rng.random() < 0.5
            mode = ("h" if high else "") + ("s" if rng.random() < 0.5 else "") + ("r" if rng.random() < 0.35 else "")
            en = [rng.random() < 0.4 for _ in range(n)]
            div = [rng.choice([0, 0, 3, 200]) for _ in range(n)]
            ops = gen_history(rng, n, self.outcomes, ext=True, high=high)
            if rng.random() < 0.12:
                bad = [f"e{n}", "v256:0", "v-1:0", f"d0,{n + 3}", f"v5:{n}", f"e{-n - 1}", f"d{-n - 5}", f"v7:0,{-n - 1}"]
                if high:
                    bad += [f"e{n}!", f"d{-n - 1}!", "v256:0!", f"v5:0,{n}!"]
                ops.insert(rng.randrange(len(ops) + 1), rng.choice(bad))
            yield (f"cfgx run {flags} {pad} {mode or '-'} {sl.bits(en)} {sl.ints(div)} {';'.join(ops)}",
                   f"flags{flags}" + ("-wrappers" if high else ""))

    # -- real code -----------------------------------------------------------------------------------------------
    def run(self, p):
        out, info = cl.run_calls(p["flags"], p["pad"], p["mode"], p["en"], p["div"], p["calls"])
        if p["legacy"] and p["pad"]:
            # the `cfg run` model knows no padding: compare the frames
            def strip(st):
                f = st.split(";", 1)
                if f[0] == "s=-":
                    return st
                return "s=" + ",".join(sl.hexs(sl.strip_pad(bytes.fromhex(x))) for x in f[0][2:].split(",")) + ";" + f[1]
            out = [strip(st) for st in out]
        return out, info

    def impl(self, line):
        out, info = self.run(parse_line(line))
        if info.get("unaligned"):
            return "unaligned-write " + repr(info["unaligned"][:3])
        if info["errors"] or info["live_after"]:
            return "harness: " + repr(info["errors"]) + repr(info["live_after"])
        return "ok " + " | ".join(out)

    def nontrivial(self, line, out):
        return ";W:" in line or " W:" in line or "!" in line

    # -- the property, judged on the real code ---------------------------------------------------------------------
    def oracle(self, line, impl_out=None):
        p = parse_line(line)
        v = self.judge(p)
        if v:
            # the dimensions of the run spelled out (for a `cfg run` line they come from a hash of the line)
            v["dimensions"] = {"flags": p["flags"], "rx_padding": p["pad"], "channels": len(p["en"]),
                               "handler": "NxscopeHandler wrappers" if "h" in p["mode"] else "CommHandler",
                               "stream_left_running_at_connect": "s" in p["mode"],
                               "stream_running_during_exchange": "r" in p["mode"]}
        return v

    def judge(self, p):
        en, div, calls, flags, pad, mode = p["en"], p["div"], p["calls"], p["flags"], p["pad"], p["mode"]
        try:
            out, info = self.run(p)
        except Exception as e:
            return {"key": "session-raises", "what": f"{type(e).__name__}: {e}", "expected": "no exception", "observed": type(e).__name__}
        if info.get("unaligned"):
            return {"key": "unaligned-write", "what": f"with rx padding {pad} a request was written with a length that is not a multiple of it "
                    f"(a device receiving in rx-padding-sized blocks never consumes it): {info['unaligned'][:3]}",
                    "expected": "every write padded to a multiple of the rx padding", "observed": str(info["unaligned"][:3])}
        if info["errors"]:
            return {"key": "thread-died", "what": "a library thread died: " + repr(info["errors"][0]), "expected": "-", "observed": "-"}
        if info["dev_started_after_connect"]:
            return {"key": "stream-not-stopped", "what": "device still streaming after connect", "expected": "stopped", "observed": "started"}
        if info["dev_after_connect"] != (sl.bits(en), sl.ints(div)):
            return {"key": "connect-changed-device", "what": "connecting (and starting the stream) changed the device's channel configuration",
                    "expected": f"{sl.bits(en)}/{sl.ints(div)}", "observed": "/".join(info["dev_after_connect"])}
        div_sup = bool(flags & 1)
        req_en, req_div = list(en), list(div)
        dev_en, dev_div = list(en), list(div)
        prev_write = False
        for call, st in zip(calls, out):
            f = dict(kv.split("=", 1) for kv in st.split(";"))
            d_en, d_div = f["dev"].split("/")
            body, now = cl.split_call(call)
            is_write = body.startswith("W:")
            if not is_write:
                raised = emulate_setter(body, req_en, req_div)
                if (f["e"] != "-") != (raised is not None):
                    return None   # error behaviour of a setter on a bad argument: not this property's subject
                if now is None or raised:
                    how = ("without its writenow argument" if "h" in mode else "on CommHandler") if now is None else \
                        "with writenow=True, raising " + str(raised)
                    if f["s"] != "-" or d_en != sl.bits(dev_en) or d_div != sl.ints(dev_div):
                        return {"key": "setter-not-silent", "what": f"call {call} ({how}) reached the device", "expected": "nothing sent, "
                                f"device stays {sl.bits(dev_en)}/{sl.ints(dev_div)}", "observed": st, "history": calls}
                    prev_write = False
                    continue
            outcomes = tuple(body.split(":")[1:]) if is_write else now
            if outcomes != ("a", "a"):
                return None
            if f["e"] != "-":
                return {"key": "write-raises", "what": f"call {call} raised {f['e']}", "expected": "returns", "observed": st, "history": calls}
            want_div = req_div if div_sup else dev_div
            now_en, now_div = f["now"].split("/")
            cp_en, cp_div = f["cp"].split("/")
            if d_en != sl.bits(req_en) or d_div != sl.ints(want_div):
                return {"key": "write-does-not-sync", "what": f"device state after {call} differs from the requested state",
                        "expected": f"{sl.bits(req_en)}/{sl.ints(want_div)}", "observed": f["dev"], "history": calls}
            if now_en != d_en or cp_en != d_en or (div_sup and (now_div != d_div or cp_div != d_div)):
                return {"key": "client-view", "what": "client reports a state different from the device "
                        "(now = ch_is_enabled/ch_div_get, cp = dev_channel_get(c).data.en/.div)",
                        "expected": f["dev"], "observed": f"now={f['now']} cp={f['cp']}", "history": calls}
            if not div_sup and any(x[6:8] == "07" for x in f["s"].split(",") if x != "-"):
                return {"key": "div-without-support", "what": "divider request sent to a device without divider support",
                        "expected": "no DIV frame", "observed": f["s"]}
            if prev_write and is_write and (d_en, d_div) != (sl.bits(dev_en), sl.ints(dev_div)):
                return {"key": "write-not-idempotent", "what": "second write changed the device", "expected": "-", "observed": st}
            dev_en, dev_div = list(req_en), list(want_div)
            prev_write = is_write
        return None


PROP = C07()
