"""C07 — buffered channel configuration reaches the device exactly at write time."""
from common import Prop
import sessionlib as sl


def gen_history(rng, n, outcomes="a", maxlen=14):
    ops = []
    for _ in range(rng.randrange(1, maxlen + 1)):
        r = rng.random()
        cs = sorted(set(rng.randrange(n) for _ in range(rng.choice([1, 1, 1, 2, 3]))))
        if r < 0.2:
            ops.append("e" + ",".join(map(str, cs)))
        elif r < 0.35:
            ops.append("d" + ",".join(map(str, cs)))
        elif r < 0.55:
            ops.append(f"v{rng.choice([0, 1, 2, 127, 128, 200, 255, rng.randrange(256)])}:" + ",".join(map(str, cs)))
        elif r < 0.6:
            ops.append("D")
        elif r < 0.65:
            ops.append("A")
        elif r < 0.7:
            ops.append("N")
        else:
            ops.append(f"W:{rng.choice(outcomes)}:{rng.choice(outcomes)}")
    if rng.random() < 0.8:
        ops.append("W:a:a")
    if rng.random() < 0.3:
        ops.append("W:a:a")
    return ops


def parse_line(line):
    t = line.split(" ")
    flags = int(t[2])
    en = [] if t[3] == "-" else [c == "1" for c in t[3]]
    div = [] if t[4] == "-" else [int(x) for x in t[4].split(",")]
    return flags, en, div, t[5].split(";")


class C07(Prop):
    id = "C07"
    lean_module = "NxsModel.Props.C07"
    rule = ("random configuration histories (enable/disable/divider/default/all + writes, 1..15 ops) on the real CommHandler "
            "(half of the histories through the NxscopeHandler wrappers called without their writenow argument) under the virtual-time runtime against the reference device, for channel counts 0..64 and 100..255, all four "
            "divider/ACK flag combinations, random initial device state (channels enabled, dividers set, stream left "
            "running), every request acknowledged; after every call the frames sent, client view, requested vector, "
            "device state and the client's device copy are compared with the model; also out-of-range channel ids and "
            "divider values; distinct = distinct line; non-trivial = history with a write that sends a set request")
    assumptions = ["virtual-time runtime (harness/vsim.py) preserves queue/lock/thread semantics",
                   "reference device (harness/refdev.py) is a conforming NxScope device"]
    outcomes = ["a"]

    def cases(self, rng, tier):
        T = tier == "thorough"
        # a device without channels: every write is a no-op (F18)
        for flags in range(4):
            yield f"cfg run {flags} - - W:a:a;A;D;N;W:a:a", "zero-channels"
        yield "cfg run 3 - - e0;W:a:a;v5:0;W:a:a", "zero-channels"
        for it in range(600 if T else 110):
            n = rng.choice([1, 2, 3, 4, 5, 8, 16, 64]) if it % 12 else rng.choice([100, 127, 128, 200, 254, 255])
            flags = rng.randrange(4)
            en = [rng.random() < 0.4 for _ in range(n)]
            div = [rng.choice([0, 0, 3, 200]) for _ in range(n)]
            ops = gen_history(rng, n, self.outcomes)
            if rng.random() < 0.1:
                ops.insert(rng.randrange(len(ops) + 1), rng.choice([f"e{n}", f"v256:0", f"v-1:0", f"d0,{n + 3}", f"v5:{n}"]))
            yield f"cfg run {flags} {sl.bits(en)} {sl.ints(div)} {';'.join(ops)}", f"flags{flags}"

    def impl(self, line):
        flags, en, div, ops = parse_line(line)
        import zlib
        h = zlib.crc32(line.encode())
        started = (h & 3) == 0
        rxp = [0, 0, 4, 16, 3, 8, 64, 255][(h >> 2) & 7]
        out, info = sl.run_cfg_history(flags, en, div, ops, started=started, rxpadding=rxp, high=bool((h >> 5) & 1))
        if info.get("unaligned"):
            return "unaligned-write " + repr(info["unaligned"][:3])
        if info["errors"] or info["live_after"]:
            return "harness: " + repr(info["errors"]) + repr(info["live_after"])
        return "ok " + " | ".join(out)

    def nontrivial(self, line, out):
        return ";W:" in line or " W:" in line

    def oracle(self, line, impl_out=None):
        flags, en, div, ops = parse_line(line)
        n = len(en)
        import zlib
        h = zlib.crc32(line.encode())
        rxp = [0, 0, 4, 16, 3, 8, 64, 255][(h >> 2) & 7]
        try:
            out, info = sl.run_cfg_history(flags, en, div, ops, started=True, rxpadding=rxp, high=bool((h >> 5) & 1))
        except Exception as e:
            return {"key": "session-raises", "what": f"{type(e).__name__}: {e}", "expected": "no exception", "observed": type(e).__name__}
        if info.get("unaligned"):
            return {"key": "unaligned-write", "what": f"with rx padding {rxp} a request was written with a length that is not a multiple of it "
                    f"(a device receiving in rx-padding-sized blocks never consumes it): {info['unaligned'][:3]}",
                    "expected": "every write padded to a multiple of the rx padding", "observed": str(info["unaligned"][:3])}
        if info["errors"]:
            return {"key": "thread-died", "what": "a library thread died: " + repr(info["errors"][0]), "expected": "-", "observed": "-"}
        if info["dev_started_after_connect"]:
            return {"key": "stream-not-stopped", "what": "device still streaming after connect", "expected": "stopped", "observed": "started"}
        div_sup = bool(flags & 1)
        ack_sup = bool(flags & 2)
        req_en, req_div = list(en), list(div)
        dev_en, dev_div = list(en), list(div)
        prev = None
        for op, st in zip(ops, out):
            f = dict(kv.split("=", 1) for kv in st.split(";"))
            d_en, d_div = f["dev"].split("/")
            if not op.startswith("W:"):
                if f["s"] != "-" or d_en != sl.bits(dev_en) or d_div != sl.ints(dev_div):
                    return {"key": "setter-not-silent", "what": f"call {op} reached the device", "expected": "nothing sent", "observed": st}
                if f["e"] == "-":
                    if op[0] == "e":
                        for c in op[1:].split(","):
                            req_en[int(c)] = True
                    elif op[0] == "d":
                        for c in op[1:].split(","):
                            req_en[int(c)] = False
                    elif op[0] == "v":
                        v, cs = op[1:].split(":")
                        for c in cs.split(","):
                            req_div[int(c)] = int(v)
                    elif op == "D":
                        req_en = [False] * n
                        req_div = [0] * n
                    elif op == "A":
                        req_en = [True] * n
                    elif op == "N":
                        req_en = [False] * n
                else:
                    return None   # partial effects of a raising setter: outside the property's quantifier
            else:
                if op != "W:a:a":
                    return None
                want_div = req_div if div_sup else dev_div
                now_en, now_div = f["now"].split("/")
                cp_en, cp_div = f["cp"].split("/")
                if d_en != sl.bits(req_en) or d_div != sl.ints(want_div):
                    return {"key": "write-does-not-sync", "what": "device state after write differs from the requested state",
                            "expected": f"{sl.bits(req_en)}/{sl.ints(want_div)}", "observed": f["dev"], "history": ops}
                if now_en != d_en or cp_en != d_en or (div_sup and (now_div != d_div or cp_div != d_div)):
                    return {"key": "client-view", "what": "client reports a state different from the device",
                            "expected": f["dev"], "observed": f"now={f['now']} cp={f['cp']}", "history": ops}
                if not div_sup and any(x[6:8] == "07" for x in f["s"].split(",") if x != "-"):
                    return {"key": "div-without-support", "what": "divider request sent to a device without divider support",
                            "expected": "no DIV frame", "observed": f["s"]}
                if prev == "W:a:a" and (d_en, d_div) != (sl.bits(dev_en), sl.ints(dev_div)):
                    return {"key": "write-not-idempotent", "what": "second write changed the device", "expected": "-", "observed": st}
                dev_en, dev_div = list(req_en), list(want_div)
            prev = op
        return None


PROP = C07()
