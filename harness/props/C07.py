"""C07 — buffered channel configuration reaches the device exactly at write time.

Cases are lines of the Lean driver op `cfgx run` (lean/NxsModel/Driver/ConfigExt.lean; format in harness/c07lib.py):
every dimension of the property's quantifier is explicit in the line — the flags byte (0..255), rx padding, which handler
is driven (CommHandler, or the NxscopeHandler wrappers called without / with `writenow`), stream left running at connect
time (frames really in the pipe), stream running during the exchange (read / unread), channel types (UNDEF, critical bit),
a previous session on the same handler object (reconnect), channel count, initial device state, the call history (Python
channel ids: negative = from the end, True/False = 1/0).  A few lines of the older op `cfg run` (no padding / ids / writenow in
the model; those dimensions chosen by a hash of the line and the padding stripped before comparing) are kept.
"""
import os
import zlib

from common import Prop, LEAN, log
import c07lib as cl
import sessionlib as sl

PADS = [0, 0, 4, 16, 3, 8, 64, 255]


def _wired():
    """is the `cfgx` op wired into the driver (lean/Main.lean is the owner's file)?"""
    try:
        return "cfgxOp" in open(os.path.join(LEAN, "Main.lean"), encoding="utf-8").read()
    except OSError:
        return False


VALID_TYPES = list(range(1, 20))
ALL_TYPES = [0, 0, 0x80, 0x20, 0x2A] + VALID_TYPES + [t | 0x80 for t in VALID_TYPES]


def gen_flags(rng):
    """the two meaningful bits in every combination, the reserved bits anything"""
    base = rng.randrange(4)
    r = rng.random()
    return base if r < 0.5 else base | rng.choice([0x80, 0x04, 0xFC, 0x40]) if r < 0.7 else base | (rng.randrange(64) << 2)


def gen_types(rng, n, streaming):
    r = rng.random()
    if r < 0.45:
        return None
    if streaming:
        return [rng.choice(VALID_TYPES) | (0x80 if rng.random() < 0.25 else 0) for _ in range(n)]
    if r < 0.6:
        return [rng.choice([0, 0, 10, 0x80, 0x8A]) for _ in range(n)]
    return [rng.choice(ALL_TYPES) for _ in range(n)]


def gen_ids(rng, n, ext, big=False):
    """big: (n > 128) half of the ids drawn from 128..n-1"""
    cs = sorted(set(rng.randrange(128, n) if (big and rng.random() < 0.5) else rng.randrange(n)
                    for _ in range(rng.choice([1, 1, 1, 2, 3]))))
    out = []
    for c in cs:
        r = rng.random() if ext else 1.0
        if r < 0.15:
            out.append(str(c - n))           # the same channel, counted from the end
        elif r < 0.2 and c <= 1:
            out.append("FT"[c])              # bool is an int in Python
        else:
            out.append(str(c))
    return ",".join(out)


def gen_history(rng, n, outcomes="a", maxlen=14, ext=False, high=False, big=False):
    """ext: Python ids (negative, bool); high: setters may carry `!` (writenow=True)"""
    ops = []
    for _ in range(rng.randrange(1, maxlen + 1)):
        r = rng.random()
        bang = "!" if (ext and high and rng.random() < 0.2) else ""
        if r < 0.18:
            ops.append("e" + gen_ids(rng, n, ext, big) + bang)
        elif r < 0.30:
            ops.append("d" + gen_ids(rng, n, ext, big) + bang)
        elif r < 0.47:
            ops.append(f"v{rng.choice([0, 1, 2, 127, 128, 200, 255, rng.randrange(256)])}:" + gen_ids(rng, n, ext, big) + bang)
        elif r < 0.57:
            ops.append("D" + bang)
        elif r < 0.67:
            ops.append("A")
        elif r < 0.77:
            ops.append("N" + bang)
        else:
            ops.append(f"W:{rng.choice(outcomes)}:{rng.choice(outcomes)}")
    if rng.random() < 0.8:
        ops.append("W:a:a")
    if rng.random() < 0.3:
        ops.append("W:a:a")
    return ops


def parse_line(line):
    """both line kinds → dict(flags, pad, mode, en, div, calls, legacy)"""
    t = line.split(" ")
    if t[0] == "cfgx":
        p = cl.parse_line(line)
        p["legacy"] = False
        return p
    h = zlib.crc32(line.encode())
    en = [] if t[3] == "-" else [c == "1" for c in t[3]]
    div = [] if t[4] == "-" else [int(x) for x in t[4].split(",")]
    mode = ("h" if (h >> 5) & 1 else "") + ("s" if h & 1 else "")
    return dict(flags=int(t[2]), pad=PADS[(h >> 2) & 7], mode=mode, en=en, div=div, calls=t[5].split(";"), legacy=True)


def emulate_setter(body, req_en, req_div):
    """the documented meaning of a setter on the requested vectors, with Python's list indexing for the ids (the
    statements `vec[chan] = v` in a loop: effects before a raising index are kept); returns the error name or None"""
    n = len(req_en)
    try:
        if body == "D":
            req_en[:] = [False] * n
            req_div[:] = [0] * n
        elif body == "A":
            req_en[:] = [True] * n
        elif body == "N":
            req_en[:] = [False] * n
        elif body[0] in "ed":
            for c in cl.parse_ids(body[1:]):
                req_en[c] = body[0] == "e"
        elif body[0] == "v":
            v, cs = body[1:].split(":")
            if not 0 <= int(v) <= 255:
                return "value"
            for c in cl.parse_ids(cs):
                req_div[c] = int(v)
    except IndexError:
        return "index"
    return None


class C07(Prop):
    id = "C07"
    lean_module = "NxsModel.Props.C07"
    rule = ("random configuration histories (enable/disable/divider/default/all + writes, 1..16 calls) on the real CommHandler "
            "and (half of the lines) through the NxscopeHandler wrappers — called without their writenow argument, and a fifth of "
            "the setter calls with writenow=True — under the virtual-time runtime against the reference device; explicit in "
            "every line and identical for the real code and the model: channel count (0..64, 100..255; above 128 half of the ids "
            ">= 128), the flags byte (0..255: the divider/ACK bits in every combination, reserved bits set in half of the lines), "
            "rx padding (0, 3, 4, 8, 16, 64, 255, random), random initial device state; harness-side dimensions named in the "
            "mode token: channel type bytes (UNDEF, NONE, every sample type, critical / reserved bits), stream left running at "
            "connect time (half: 3 stream frames in the pipe + one emitted while the stop request is processed — a line whose "
            "mode promises frames that were not produced is reported), stream running during the exchange with a stream frame "
            "between every set request and its acknowledgement (30 %), stream started at CommHandler level and 65..150 frames "
            "unread before the first call (10 %), a previous session on the SAME handler object followed by disconnect, a "
            "changed device state and a second connect (20 %), Python channel ids (negative, bool), out-of-range ids and "
            "divider values; fixed lines: every wrapper alone, flags bytes with reserved bits, UNDEF/critical channels enabled at "
            "connect, reconnects, ids >= 128 on 129/200/255 channels, buffered requests overridden before the write, every "
            "single change on two channels; thorough adds every padding / flags byte / type byte / divider / id >= 128 and every "
            "pair of calls on two channels; every request acknowledged; the device receives the byte stream in rx-padding "
            "blocks; after every call the bytes written (padded), client view, requested vector, device state and the client's "
            "device copy (read through NxscopeHandler.dev_channel_get on the wrapper lines) are compared with the model, and "
            "every line is judged by the oracle; distinct = distinct line; non-trivial = history with a call that writes")
    assumptions = ["virtual-time runtime (harness/vsim.py) preserves queue/lock/thread semantics",
                   "reference device (harness/refdev.py) is a conforming NxScope device"]
    outcomes = ["a"]

    # -- cases -------------------------------------------------------------------------------------------------
    def legacy_cases(self, rng, T):
        for flags in range(4):
            yield f"cfg run {flags} - - W:a:a;A;D;N;W:a:a", "zero-channels"
        yield "cfg run 3 - - e0;W:a:a;v5:0;W:a:a", "zero-channels"
        for it in range(600 if T == "all" else 120 if T else 24):
            n = rng.choice([1, 2, 3, 4, 5, 8, 16, 64]) if it % 12 else rng.choice([100, 127, 128, 200, 254, 255])
            flags = rng.randrange(4)
            en = [rng.random() < 0.4 for _ in range(n)]
            div = [rng.choice([0, 0, 3, 200]) for _ in range(n)]
            ops = gen_history(rng, n, self.outcomes)
            if rng.random() < 0.1:
                ops.insert(rng.randrange(len(ops) + 1), rng.choice([f"e{n}", "v256:0", "v-1:0", f"d0,{n + 3}", f"v5:{n}"]))
            yield f"cfg run {flags} {sl.bits(en)} {sl.ints(div)} {';'.join(ops)}", f"legacy-flags{flags}"

    def fixed_cases(self):
        # a device without channels: every write is a no-op (F18)
        for flags in range(4):
            yield f"cfgx run {flags} {PADS[flags + 2]} {'h' if flags & 1 else '-'} - - W:a:a;A;D;N;W:a:a", "zero-channels"
        yield "cfgx run 3 8 hs - - e0;W:a:a;v5:0;W:a:a;e-1;N!;D!", "zero-channels"
        # every wrapper, alone, without its writenow argument: nothing may reach the device (E-C07-1)
        for i, call in enumerate(["e0", "d1", "v5:0", "D", "N", "e0,2", "d1,2", "v9:1,2", "e-1", "dT"]):
            for flags in (0, 3):
                yield f"cfgx run {flags} {PADS[i % 8]} h 010 7,0,200 {call}", "wrapper-default"
                yield f"cfgx run {flags} {PADS[(i + 3) % 8]} h{'sr'[i % 2]} 010 7,0,200 A;W:a:a;{call};{call};W:a:a", "wrapper-default"
        # every wrapper with writenow=True: the call is setter + write
        for i, call in enumerate(["e0!", "d1!", "v5:0!", "D!", "N!", "e0,2!", "v9:-1,F!"]):
            for flags in range(4):
                yield f"cfgx run {flags} {PADS[(i + flags) % 8]} h{['', 's', 'r', 'sr'][flags]} 010 7,0,200 {call};{call};W:a:a", "wrapper-writenow"
        # a raising setter with writenow=True writes nothing, also when requests are pending
        for call in ["e3!", "d-4!", "v256:0!", "v5:0,3!", "e0,7!"]:
            yield f"cfgx run 3 4 h 010 7,0,200 e2;{call};W:a:a", "wrapper-writenow-raises"
        # Python ids
        for call in ["e-1", "e-3", "e-4", "d-2", "v5:-1", "v5:-3,-1", "eT", "eF", "dT", "v6:T,F", "e-1,0", "d1,-4,0"]:
            yield f"cfgx run 3 16 {'h' if len(call) % 2 else '-'} 010 7,0,200 {call};W:a:a", "python-ids"
        # stream frames between every request and its acknowledgement, on every flag combination
        for flags in range(4):
            yield f"cfgx run {flags} 0 r 110 1,0,0 e2;W:a:a;v3:0;W:a:a;d0,1;W:a:a;W:a:a", "stream-during"
            yield f"cfgx run {flags} 16 hsr 110 1,0,0 e2!;v3:0!;d0,1;W:a:a;W:a:a;A;D!", "stream-during"

    def r4_cases(self):
        """targeted lines for the dimensions the second review found unvaried (REVIEW R4-B-H3, R4-B-H1) and the n = 2 corner"""
        # (a) the flags byte: reserved bits set, the two meaningful bits in every combination
        for i, fl in enumerate([0x83, 0x81, 0x82, 0x80, 0x07, 0xFC, 0xFD, 0xFE, 0xFF, 0x43, 0x04, 0x29]):
            yield f"cfgx run {fl} {PADS[i % 8]} - 010 7,0,200 v5:0;e0;W:a:a;W:a:a", "flags-byte"
            yield f"cfgx run {fl} {PADS[(i + 2) % 8]} h 010 7,0,200 v5:0!;e0,2;W:a:a;v9:-1;D!", "flags-byte"
        # (b) channel types: UNDEF (0) channels enabled at connect time, critical bit, reserved type bits
        for i, (ty, en) in enumerate([("0.10.138", "110"), ("0.0.0", "101"), ("128.1.19", "111"), ("10.0.138", "010"),
                                      ("138.138.0", "001"), ("42.32.2", "100"), ("0.128.0", "111")]):
            for calls in ("e2;W:a:a;W:a:a", "d1;v4:0,2;W:a:a;W:a:a", "W:a:a;A;W:a:a;N;W:a:a", "D;W:a:a;e0;W:a:a;W:a:a"):
                yield (f"cfgx run {[3, 2, 1, 0x83][i % 4]} {PADS[i % 8]} {'h' if i % 2 else ''}/T{ty} {en} 7,0,200 {calls}",
                       "channel-types")
        # (c) reconnect on the same handler object, the device in another state at the second connect
        for i, (prev, en, div, calls) in enumerate([
                ("000:0,0,0:e0;W:a:a", "000", "0,0,0", "e1;W:a:a"),
                ("000:0,0,0:e0;W:a:a", "000", "0,0,0", "W:a:a;W:a:a"),
                ("010:1,2,3:A;v9:0,1;W:a:a", "010", "3,0,7", "W:a:a;d0;W:a:a"),
                ("111:5,5,5:N;W:a:a;e2", "101", "0,4,0", "v4:0;e1;W:a:a;W:a:a"),
                ("001:0,0,0:D;W:a:a;v7:2;e0", "110", "9,9,9", "D;W:a:a"),
                ("110:0,0,0:", "001", "0,0,8", "e0;W:a:a;N;W:a:a")]):
            for letters in ("", "h", "s", "hr"):
                yield (f"cfgx run {[3, 2, 1, 0][(i + len(letters)) % 4] if i else 3} {PADS[(i + len(letters)) % 8]} "
                       f"{letters}/R{prev} {en} {div} {calls}", "reconnect")
        # (d) stream left running at connect time (frames in the pipe), on every flag combination, both handlers
        for flags in range(4):
            yield f"cfgx run {flags} {PADS[flags]} s 101 1,0,3 e1;W:a:a;v3:0;W:a:a;N;W:a:a", "stream-at-connect"
            yield f"cfgx run {flags} {PADS[flags + 3]} hs/T2.138.19 011 0,2,0 e0!;v3:0;W:a:a;D!", "stream-at-connect"
        # (e) single-channel requests for channel ids >= 128
        for i, n in enumerate([129, 200, 255]):
            for c in sorted({128, n - 1, 150 if n > 150 else 128}):
                z = "0" * n
                d = ",".join(["0"] * n)
                yield f"cfgx run 3 {PADS[i]} - {z} {d} e{c};W:a:a;v7:{c};W:a:a;d{c};W:a:a", "high-ids"
                yield f"cfgx run 2 {PADS[i + 4]} h {z} {d} e{c - n}!;v200:{c}!;W:a:a", "high-ids"
        # R4-B-H1: the stream started at CommHandler level, nobody reads it, more than 64 frames before the write
        for i, (fl, k) in enumerate([(3, 70), (2, 80), (3, 130), (0x83, 66)]):
            yield f"cfgx run {fl} {PADS[i]} u/U{k} 100 0,0,0 e1;W:a:a;W:a:a", "unread-stream"
            yield f"cfgx run {fl} {PADS[i + 3]} hu/U{k}/T3.138.10 101 2,0,0 e1!;v3:0;W:a:a;d0,2;W:a:a", "unread-stream"
        # buffered requests overridden before the write (disable-all / default configuration after a buffered enable)
        for i, calls in enumerate(["e1;W:a:a;e3;D;W:a:a", "e2;N;W:a:a", "e0;v4:0;D;W:a:a", "A;N;W:a:a", "e3;W:a:a;e1;N;e4;W:a:a",
                                   "d0;A;W:a:a", "e1;d1;W:a:a", "v3:1;v0:1;W:a:a"]):
            yield f"cfgx run {[3, 2, 1, 0][i % 4]} {PADS[i % 8]} - 10000 0,0,0,0,0 {calls}", "override-before-write"
            yield f"cfgx run 3 {PADS[(i + 1) % 8]} h 00000 0,0,6,0,0 {calls};{calls.split(';')[0]};N!", "override-before-write"
        # two channels: every single change from every enable state (a (channel, value) pair has the length of the state vector)
        i = 0
        for en in ("00", "01", "10", "11"):
            for div in ("0,0", "1,1", "0,1", "3,0"):
                for op in ("e0", "e1", "d0", "d1", "v0:0", "v1:1", "v1:0", "v0:1"):
                    if (op[0] == "v") != (i % 2 == 1) and div not in ("0,0", "1,1"):
                        i += 1
                        continue
                    yield (f"cfgx run {[3, 2, 3, 1][i % 4]} {PADS[i % 8]} {'h' if i % 3 == 0 else '-'} {en} {div} "
                           f"{op};W:a:a;W:a:a", "two-channels")
                    i += 1

    def exhaustive_cases(self):
        """thorough tier: every value of the one-byte dimensions on a short history"""
        for pad in range(256):           # every rx padding
            yield f"cfgx run {pad % 4} {pad} {['-', 'h', 'r', 'hs'][(pad >> 2) % 4]} 0110 0,9,0,200 e0;v{pad}:-1,1;W:a:a;d1,2;W:a:a;W:a:a", "all-paddings"
        for fl in range(256):            # every flags byte
            yield f"cfgx run {fl} {PADS[fl % 8]} {['-', 'h', 's', 'hr'][(fl >> 3) % 4]} 0110 0,9,0,200 v{fl}:0;e0;W:a:a;d1,2;W:a:a;W:a:a", "all-flags"
        for ty in range(256):            # every channel type byte (streaming only where the type has a sample format)
            st = ['-', 'h', 's', 'hr'][(ty >> 3) % 4] if 1 <= (ty & 0x1F) <= 19 else ['-', 'h'][(ty >> 3) % 2]
            yield (f"cfgx run {ty % 4} {PADS[ty % 8]} {st.strip('-')}/T{ty}.10.{255 - ty if 1 <= ((255 - ty) & 0x1F) <= 19 else 2} "
                   f"101 0,9,0 e1;v5:0;W:a:a;d0;W:a:a;W:a:a"), "all-types"
        for v in range(-1, 258):         # every divider value (and the first ones out of range), single and vector form
            yield f"cfgx run {1 + 2 * (v % 2)} {PADS[v % 8]} {'h' if v % 3 else '-'} 01 0,7 v{v}:0;W:a:a;v{v}:0,1;W:a:a", "all-dividers"
        for n in (1, 2, 5):              # every Python index of a short vector, and the first ones out of range
            for c in list(range(-n - 2, n + 2)) + ["T", "F"]:
                for call in (f"e{c}", f"d{c}", f"v77:{c}", f"e0,{c}", f"v3:{c}!"):
                    yield (f"cfgx run 3 {PADS[(n + len(call)) % 8]} h {'10110'[:n]} {','.join('50604'[:n])} {call};W:a:a;A;{call};W:a:a",
                           "all-ids")
        for c in range(128, 255):        # every single-channel id >= 128
            yield (f"cfgx run {3 - c % 2} {PADS[c % 8]} {'h' if c % 3 == 0 else '-'} {'0' * 255} {','.join(['0'] * 255)} "
                   f"e{c};v{c}:{c};W:a:a;d{c - 255};W:a:a", "all-high-ids")
        ops = ["e0", "e1", "d0", "d1", "v0:0", "v1:1", "v1:0", "A", "N", "D", "W:a:a"]
        i = 0
        for en in ("00", "01", "10", "11"):   # two channels: every pair of calls, then a write
            for a in ops:
                for b in ops:
                    yield (f"cfgx run {[3, 2, 1, 3][i % 4]} {PADS[i % 8]} {'h' if i % 2 else '-'} {en} {['0,0', '1,1', '1,0'][i % 3]} "
                           f"{a};{b};W:a:a;W:a:a", "two-channels-pairs")
                    i += 1

    def cases(self, rng, tier):
        T = tier == "thorough"
        self._memo = {}
        if not _wired():
            log("[C07] WARNING: driver op `cfgx` is not wired into lean/Main.lean — running the `cfg run` cases only "
                "(rx padding, Python ids and writenow calls are then not compared with the model)")
            yield from self.legacy_cases(rng, "all" if T else True)
            return
        yield from self.fixed_cases()
        yield from self.r4_cases()
        yield from self.legacy_cases(rng, T)
        if T:
            yield from self.exhaustive_cases()
        for it in range(1500 if T else 110):
            n = rng.choice([1, 2, 2, 3, 4, 5, 8, 16, 64]) if it % 12 else rng.choice([100, 127, 128, 129, 200, 254, 255])
            flags = gen_flags(rng)
            pad = rng.choice(PADS) if rng.random() < 0.8 else rng.randrange(1, 256)
            high = rng.random() < 0.5
            r = rng.random()
            stream = "r" if r < 0.3 else "u" if r < 0.4 else ""
            letters = ("h" if high else "") + ("s" if rng.random() < 0.5 else "") + stream
            en = [rng.random() < 0.4 for _ in range(n)]
            if stream == "u" and not any(en):
                en[rng.randrange(n)] = True
            div = [rng.choice([0, 0, 3, 200]) for _ in range(n)]
            types = gen_types(rng, n, any(c in letters for c in "sru"))
            prev = None
            if rng.random() < 0.2:
                prev = ([rng.random() < 0.5 for _ in range(n)], [rng.choice([0, 0, 5, 255]) for _ in range(n)],
                        gen_history(rng, n, "a", maxlen=5, ext=True, high=high))
            flood = rng.choice([65, 70, 100, 150]) if stream == "u" else None
            ops = gen_history(rng, n, self.outcomes, ext=True, high=high, big=n > 128)
            if rng.random() < 0.12:
                bad = [f"e{n}", "v256:0", "v-1:0", f"d0,{n + 3}", f"v5:{n}", f"e{-n - 1}", f"d{-n - 5}", f"v7:0,{-n - 1}"]
                if high:
                    bad += [f"e{n}!", f"d{-n - 1}!", "v256:0!", f"v5:0,{n}!"]
                ops.insert(rng.randrange(len(ops) + 1), rng.choice(bad))
            yield (f"cfgx run {flags} {pad} {cl.mode_str(letters, types, prev, flood)} {sl.bits(en)} {sl.ints(div)} {';'.join(ops)}",
                   f"flags{flags & 3}" + ("-wrappers" if high else "") + ("-reconnect" if prev else ""))

    # -- real code -----------------------------------------------------------------------------------------------
    _memo = None

    def run(self, p, key=None):
        """(states, info, exception or None); in the quick tier the run of a line is kept, so the oracle judges the
        very run the correspondence step compared (and every quick line is judged whatever the machine load)"""
        if key is not None and self._memo is not None and key in self._memo:
            return self._memo[key]
        exc = None
        try:
            out, info = cl.run_calls(p["flags"], p["pad"], p["mode"], p["en"], p["div"], p["calls"])
        except (KeyboardInterrupt, SystemExit):
            raise
        except BaseException as e:  # noqa: BLE001 - an exception of the library or a simulation verdict
            exc = e
            info = getattr(e, "c07_info", None) or {"out": []}
            info.setdefault("errors", [])
            out = list(info.get("out", []))
        if p["legacy"] and p["pad"]:
            # the `cfg run` model knows no padding: compare the frames
            def strip(st):
                f = st.split(";", 1)
                if f[0] == "s=-":
                    return st
                return "s=" + ",".join(sl.hexs(sl.strip_pad(bytes.fromhex(x))) for x in f[0][2:].split(",")) + ";" + f[1]
            out = [strip(st) for st in out]
        res = (out, info, exc)
        if key is not None and self._memo is not None:
            self._memo[key] = res
        return res

    @staticmethod
    def vacuous(p, info):
        """a line whose mode promises stream frames that were never produced"""
        letters = cl.parse_mode(p["mode"])["letters"]
        if "s" in letters and any(p["en"]) and not info.get("stream_frames_at_connect"):
            return "mode s: no stream frame was under way at connect time"
        if "u" in letters and any(p["en"]) and info.get("flood_frames", 0) < 65:
            return f"mode u: only {info.get('flood_frames')} stream frames before the first call"
        return None

    def impl(self, line):
        p = parse_line(line)
        out, info, exc = self.run(p, line)
        if exc is not None:
            return "harness-exc " + type(exc).__name__ + ": " + str(exc)[:100]
        if info.get("unaligned"):
            return "unaligned-write " + repr(info["unaligned"][:3])
        if info["errors"] or info["live_after"] or info.get("prev_live_after"):
            return "harness: " + repr(info["errors"]) + repr(info["live_after"]) + repr(info.get("prev_live_after"))
        if self.vacuous(p, info):
            return "harness: " + self.vacuous(p, info)
        return "ok " + " | ".join(out)

    def extra_checks(self, rng, tier, ev):
        """EVERY line of the run is judged by the oracle (on the run the correspondence step compared), in the quick tier not
        only the time-boxed sample of common.run_check"""
        vs = []
        for line in list(self._memo or {}):
            v = self.oracle(line)
            if v:
                v.setdefault("case", line)
                vs.append(v)
                if len(vs) >= 6:
                    break
        ev["coverage"]["lines_judged_by_oracle"] = len(self._memo or {})
        return vs

    def nontrivial(self, line, out):
        return ";W:" in line or " W:" in line or "!" in line

    # -- the property, judged on the real code ---------------------------------------------------------------------
    def oracle(self, line, impl_out=None):
        p = parse_line(line)
        v = self.judge(p, line)
        if v:
            # the dimensions of the run spelled out (for a `cfg run` line they come from a hash of the line)
            m = cl.parse_mode(p["mode"])
            v["dimensions"] = {"flags": p["flags"], "rx_padding": p["pad"], "channels": len(p["en"]),
                               "handler": "NxscopeHandler wrappers" if "h" in m["letters"] else "CommHandler",
                               "stream_left_running_at_connect": "s" in m["letters"],
                               "stream_running_during_exchange": "r" in m["letters"],
                               "stream_started_at_CommHandler_level_and_unread_frames": m["flood"] if "u" in m["letters"] else None,
                               "channel_types": m["types"] or "all 10 (FLOAT)",
                               "previous_session_on_the_same_handler": None if not m["prev"] else
                               {"device_en": sl.bits(m["prev"][0]), "device_div": sl.ints(m["prev"][1]), "calls": m["prev"][2],
                                "then": "disconnect, device put into the initial state of the line, connect again"},
                               "initial_device_state": f"{sl.bits(p['en'])}/{sl.ints(p['div'])}", "calls": p["calls"]}
        return v

    def judge(self, p, key=None):
        en, div, calls, flags, pad, mode = p["en"], p["div"], p["calls"], p["flags"], p["pad"], p["mode"]
        out, info, exc = self.run(p, key)
        v = self.judge_states(p, out, info) if info.get("dev_after_connect") else None
        if v:
            if info.get("unaligned_stream"):
                v["note"] = (f"with rx padding {pad} the bytes written by a call were not a multiple of it (a device receiving in "
                             f"rx-padding-sized blocks does not consume the rest): {info['unaligned_stream'][:3]}")
            return v
        if exc is not None:
            return {"key": "session-raises", "what": f"the session did not come back: {type(exc).__name__}: {str(exc)[:300]}",
                    "expected": "every call returns", "observed": type(exc).__name__, "states_so_far": out[-2:]}
        if info["errors"]:
            return {"key": "thread-died", "what": "a library thread died: " + repr(info["errors"][0]), "expected": "-", "observed": "-"}
        return None

    def judge_states(self, p, out, info):
        en, div, calls, flags, pad, mode = p["en"], p["div"], p["calls"], p["flags"], p["pad"], p["mode"]
        mode = cl.parse_mode(mode)["letters"]
        if info["dev_after_connect"] != (sl.bits(en), sl.ints(div)) or info.get("dev_before_calls", info["dev_after_connect"]) != (sl.bits(en), sl.ints(div)):
            return {"key": "connect-changed-device", "what": "connecting (and starting the stream) changed the device's channel configuration",
                    "expected": f"{sl.bits(en)}/{sl.ints(div)}", "observed": "/".join(info.get("dev_before_calls", info["dev_after_connect"]))}
        div_sup = bool(flags & 1)
        req_en, req_div = list(en), list(div)
        dev_en, dev_div = list(en), list(div)
        prev_write = False
        for call, st in zip(calls, out):
            f = dict(kv.split("=", 1) for kv in st.split(";"))
            d_en, d_div = f["dev"].split("/")
            body, now = cl.split_call(call)
            is_write = body.startswith("W:")
            if not is_write:
                raised = emulate_setter(body, req_en, req_div)
                if (f["e"] != "-") != (raised is not None):
                    return None   # error behaviour of a setter on a bad argument: not this property's subject
                if now is None or raised:
                    how = ("without its writenow argument" if "h" in mode else "on CommHandler") if now is None else \
                        "with writenow=True, raising " + str(raised)
                    if f["s"] != "-" or d_en != sl.bits(dev_en) or d_div != sl.ints(dev_div):
                        return {"key": "setter-not-silent", "what": f"call {call} ({how}) reached the device", "expected": "nothing sent, "
                                f"device stays {sl.bits(dev_en)}/{sl.ints(dev_div)}", "observed": st, "history": calls}
                    prev_write = False
                    continue
            outcomes = tuple(body.split(":")[1:]) if is_write else now
            if outcomes != ("a", "a"):
                return None
            if f["e"] != "-":
                return {"key": "write-raises", "what": f"call {call} raised {f['e']}", "expected": "returns", "observed": st, "history": calls}
            want_div = req_div if div_sup else dev_div
            now_en, now_div = f["now"].split("/")
            cp_en, cp_div = f["cp"].split("/")
            if d_en != sl.bits(req_en) or d_div != sl.ints(want_div):
                return {"key": "write-does-not-sync", "what": f"device state after {call} differs from the requested state",
                        "expected": f"{sl.bits(req_en)}/{sl.ints(want_div)}", "observed": f["dev"], "history": calls}
            # "equals what the client reports for each channel" holds on every flag combination: without divider support no
            # divider request is sent, the device's dividers stay what they were (want_div = dev_div above), and the client
            # must go on reporting THOSE, not the never-sent requested ones (C07-r5m2)
            if now_en != d_en or cp_en != d_en or now_div != d_div or cp_div != d_div:
                return {"key": "client-view", "what": "client reports a state different from the device "
                        "(now = ch_is_enabled/ch_div_get, cp = dev_channel_get(c).data.en/.div)",
                        "expected": f["dev"], "observed": f"now={f['now']} cp={f['cp']}", "history": calls}
            if not div_sup and any(x[6:8] == "07" for x in f["s"].split(",") if x != "-"):
                return {"key": "div-without-support", "what": "divider request sent to a device without divider support",
                        "expected": "no DIV frame", "observed": f["s"]}
            if prev_write and is_write and (d_en, d_div) != (sl.bits(dev_en), sl.ints(dev_div)):
                return {"key": "write-not-idempotent", "what": "second write changed the device", "expected": "-", "observed": st}
            dev_en, dev_div = list(req_en), list(want_div)
            prev_write = is_write
        return None


PROP = C07()
