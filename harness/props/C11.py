"""C11 — a rejected or unacknowledged request never advances the client's view."""
from props.C07 import C07, parse_line
import sessionlib as sl


class C11(C07):
    id = "C11"
    lean_module = "NxsModel.Props.C11"
    rule = ("configuration histories as in C07 but every set request answered by ack / nack r / applied-but-ACK-lost / "
            "lost (per-request scripts), on ACK-supporting devices (and the no-ACK variants as a control); compared "
            "with the model after every call incl. virtual elapsed time; distinct = distinct line; non-trivial = "
            "history containing a failed request followed by an acknowledged write")
    outcomes = ["a", "a", "x", "l", "n1", "n-5", "n22"]

    def cases(self, rng, tier):
        for line, tag in super().cases(rng, tier):
            t = line.split(" ")
            if rng.random() < 0.85:
                t[2] = str(int(t[2]) | 2)   # mostly ACK-supporting devices
            yield " ".join(t), "ack" if int(t[2]) & 2 else "noack"
        # the historical defect F13 and neighbours, exhaustively for 3 channels
        for first in ("x", "l", "n3"):
            for a in range(3):
                for b in range(3):
                    yield f"cfg run 3 000 0,0,0 e{a};W:a:{first};{'d' if a == b else 'e'}{b};W:a:a;W:a:a", "f13-family"
                    yield f"cfg run 3 000 0,0,0 v9:{a};W:{first}:a;v{0 if a == b else 7}:{b};W:a:a", "f13-family-div"

    def nontrivial(self, line, out):
        return any(o in line for o in (":x", ":l", ":n")) and line.rstrip().endswith("W:a:a")

    def oracle(self, line, impl_out=None):
        flags, en, div, ops = parse_line(line)
        if not flags & 2:
            return None
        n = len(en)
        try:
            out, info = sl.run_cfg_history(flags, en, div, ops)
        except Exception as e:
            return {"key": "session-raises", "what": f"{type(e).__name__}: {e}", "expected": "no exception", "observed": type(e).__name__}
        if info["errors"]:
            return {"key": "thread-died", "what": "a library thread died: " + repr(info["errors"][0]), "expected": "-", "observed": "-"}
        div_sup = bool(flags & 1)
        req_en, req_div = list(en), list(div)
        ack_en, ack_div = sl.bits(en), sl.ints(div)        # last state the device acknowledged
        for op, st in zip(ops, out):
            f = dict(kv.split("=", 1) for kv in st.split(";"))
            if f["e"] != "-":
                return None
            now_en, now_div = f["now"].split("/")
            cp_en, cp_div = f["cp"].split("/")
            if op.startswith("W:"):
                _, od, oe = op.split(":")
                if int(f["t"]) > 21:
                    return {"key": "unbounded-wait", "what": "write took longer than two ACK timeouts", "expected": "<= 2.1 s", "observed": f["t"]}
                div_ok = (not div_sup) or od == "a"
                en_ok = oe == "a"
                if div_sup and od == "a":
                    ack_div = sl.ints(req_div)
                if en_ok:
                    ack_en = sl.bits(req_en)
                if (now_en, cp_en) != (ack_en, ack_en) or (div_sup and (now_div, cp_div) != (ack_div, ack_div)):
                    return {"key": "view-advanced", "what": "client view is not the last acknowledged state",
                            "expected": f"{ack_en}/{ack_div}", "observed": f"now={f['now']} cp={f['cp']}", "history": ops}
                if div_ok and en_ok and od == "a":
                    d_en, d_div = f["dev"].split("/")
                    if d_en != sl.bits(req_en) or (div_sup and d_div != sl.ints(req_div)) or now_en != d_en:
                        return {"key": "no-convergence", "what": "an acknowledged write left device != requested/reported state",
                                "expected": f"{sl.bits(req_en)}/{sl.ints(req_div)}", "observed": st, "history": ops}
            else:
                if op[0] == "e":
                    for c in op[1:].split(","):
                        req_en[int(c)] = True
                elif op[0] == "d":
                    for c in op[1:].split(","):
                        req_en[int(c)] = False
                elif op[0] == "v":
                    v, cs = op[1:].split(":")
                    for c in cs.split(","):
                        req_div[int(c)] = int(v)
                elif op == "D":
                    req_en, req_div = [False] * n, [0] * n
                elif op == "A":
                    req_en = [True] * n
                elif op == "N":
                    req_en = [False] * n
        return None


PROP = C11()
