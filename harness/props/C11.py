"""C11 — a rejected or unacknowledged request never advances the client's view.

Two kinds of lines: `cfg run …` (configuration histories on the legacy driver op of lean/NxsModel/Driver/Config.lean,
every set request with an outcome) and `life nx|comm …` (whole sessions incl. stream start/stop, disconnect / reconnect,
wrappers with writenow; lean/NxsModel/Driver/Lifecycle.lean).  Self-contained: the session runners are in harness/lifelib.py.
"""
from common import Prop
import lifelib as ll

CODES = ["n1", "n-5", "n22", "n255", "n256", "n65536", "n-1", "n-256", "n-2147483648", "n2147483647"]
FAIL = ["x", "l"] + CODES


def gen_history(rng, n, outcomes="a", maxlen=14):
    """a configuration history e<cs> d<cs> v<val>:<cs> D A N W:<oDiv>:<oEn> on n >= 1 channels"""
    ops = []
    for _ in range(rng.randrange(1, maxlen + 1)):
        r = rng.random()
        cs = sorted(set(rng.randrange(n) for _ in range(rng.choice([1, 1, 1, 2, 3]))))
        if r < 0.2:
            ops.append("e" + ",".join(map(str, cs)))
        elif r < 0.35:
            ops.append("d" + ",".join(map(str, cs)))
        elif r < 0.55:
            ops.append(f"v{rng.choice([0, 1, 2, 127, 128, 200, 255, rng.randrange(256)])}:" + ",".join(map(str, cs)))
        elif r < 0.6:
            ops.append("D")
        elif r < 0.65:
            ops.append("A")
        elif r < 0.7:
            ops.append("N")
        else:
            ops.append(f"W:{rng.choice(outcomes)}:{rng.choice(outcomes)}")
    if rng.random() < 0.8:
        ops.append("W:a:a")
    if rng.random() < 0.3:
        ops.append("W:a:a")
    return ops


NOANS = ["l", "x"]          # outcomes after which no ACK frame reaches the client


def lost_run_cases(rng, count):
    """runs of 3..6 requests in a row (divider / enable / start / stop, in one connection) that get no answer at all,
    then a request the device rejects or does not answer, then acknowledged writes: fixed lines first, then random"""
    P3 = ll.plain_chans(3)
    for tail in ("n22", "l", "x", "n-2147483648", "n1"):
        # divider-capable device: two requests per write
        yield f"cfg run 3 000 0,0,0 e1;v5:2;W:l:l;W:l:{tail};W:a:a;W:a:a", "lost-run"
        yield f"cfg run 3 010 0,0,9 e0;v4:1;W:l:x;W:l:l;W:{tail}:a;d1;W:a:a", "lost-run"
        # no divider support: one request per write
        yield f"cfg run 2 000 0,0,0 e1;W:a:l;W:a:l;e2;W:a:x;W:a:{tail};W:a:a", "lost-run"
        yield ll.mk_line("nx", 3, [0, 0, 0], [0, 0, 0], 0, 0, P3,
                         ["C", "e1!~a,l,l", f"v5:2!~a,l,{tail}", "W", "W", "X"]), "lost-run"
        yield ll.mk_line("nx", 3, [0, 1, 0], [0, 0, 0], 0, 0, P3,
                         ["C", "S~l,l,l", f"e0!~a,{tail},{tail}", "W", f"T~{tail},a,a", "W", "X"]), "lost-run"
        yield ll.mk_line("comm", 3, [0, 1, 0], [0, 0, 0], 0, 0, P3,
                         ["C", "S~l,a,a", "T~l,a,a", "S~x,a,a", f"T~{tail},a,a", "e0", f"W~a,{tail},a", "W", "T", "X"]), "lost-run"
        yield ll.mk_line("comm", 3, [0, 0, 0], [0, 0, 0], 0, 0, P3,
                         ["C", "e2", "W~a,l,l", "S~l,a,a", f"S~{tail},a,a", f"T~{tail},a,a", "v3:0", "W", "X"]), "lost-run"
    for it in range(count):
        n = rng.choice([1, 2, 3, 4, 8])
        k = rng.randrange(3, 7)
        tail = rng.choice(["l", "x"] + CODES + CODES)
        en = [rng.random() < 0.4 for _ in range(n)]
        div = [rng.choice([0, 0, 3, 200]) for _ in range(n)]

        def setter():
            c = rng.randrange(n)
            return rng.choice([f"e{c}", f"d{c}", f"v{rng.choice([0, 1, 7, 255])}:{c}", "N", "D"])
        if it % 3 == 0:
            flags = rng.choice([3, 3, 2])
            per = 2 if flags & 1 else 1
            seq = [rng.choice(NOANS) for _ in range(k)] + [tail]
            if len(seq) % per:
                seq.append("a")
            ops = [setter(), setter()]
            if rng.random() < 0.5:
                ops.append("W:a:a")
            i = 0
            while i < len(seq):
                od, oe = (seq[i], seq[i + 1]) if per == 2 else ("a", seq[i])
                i += per
                ops.append(f"W:{od}:{oe}")
                if rng.random() < 0.4:
                    ops.append(setter())
            ops += ["W:a:a", "W:a:a"]
            yield f"cfg run {flags} {ll.bits(en)} {ll.ints(div)} {';'.join(ops)}", "lost-run"
        else:
            mode = "nx" if it % 3 == 1 else "comm"
            calls = ["C"]
            if rng.random() < 0.5:
                calls.append(f"e{rng.randrange(n)}" + ("!" if mode == "nx" else ""))
            left = k
            while left > 0:
                r = rng.random()
                lo = lambda: rng.choice(NOANS)      # noqa: E731
                if r < 0.35 and mode == "comm":
                    calls.append(rng.choice("ST") + f"~{lo()},a,a")
                    left -= 1
                elif r < 0.5 and mode == "nx":
                    # the high-level start / stop: issues a request only when the handler's stream flag changes
                    calls.append(rng.choice("ST") + f"~{lo()},{lo()},{lo()}")
                    left -= 1
                else:
                    c = setter()
                    if mode == "nx":
                        calls.append(c + f"!~a,{lo()},{lo()}")
                    else:
                        calls += [c, f"W~a,{lo()},{lo()}"]
                    left -= 2
            calls.append(rng.choice([f"W~a,{tail},{tail}", f"W~a,a,{tail}", f"W~a,{tail},a"] +
                                    ([f"S~{tail},a,a", f"T~{tail},a,a"] if mode == "comm" else [f"X~{tail},{tail},{tail}"])))
            if calls[-1].startswith("X"):
                calls.append("C")
            calls += [setter() + ("!" if mode == "nx" else ""), "W", "W", "X"]
            yield ll.mk_line(mode, 3, en, div, rng.randrange(2), 0, ll.plain_chans(n), calls), "lost-run"


def gen_life(rng, n, mode, length):
    """a session on an ACK-supporting device: in-range channel ids, every request answered at random"""
    nx = mode == "nx"
    out = ["C"] if rng.random() < 0.9 else []

    def ans():
        return "~" + ",".join(rng.choice(["a", "a", "a", rng.choice(FAIL)]) for _ in range(3))

    for _ in range(length):
        r = rng.random()
        cs = ",".join(str(rng.randrange(-n, n)) for _ in range(rng.choice([1, 1, 1, 2, 3])))
        wn = "!" if (nx and rng.random() < 0.6) else ""
        if r < 0.2:
            c = "S"
        elif r < 0.4:
            c = "T"
        elif r < 0.55:
            c = "e" + cs + wn
        elif r < 0.65:
            c = "d" + cs + wn
        elif r < 0.75:
            c = f"v{rng.choice([0, 1, 7, 200, 255])}:{cs}" + wn
        elif r < 0.8:
            c = rng.choice(["D", "N"]) + wn if nx else rng.choice(["D", "N", "A"])
        elif r < 0.93:
            c = "W"
        elif r < 0.97:
            c = "X"
        else:
            c = "C"
        if c != "C":
            c += ans()
        out.append(c)
    out.append("W")
    return out


class C11(Prop):
    id = "C11"
    lean_module = "NxsModel.Props.C11"
    rule = ("random configuration histories (enable/disable/divider/default/all + writes, 1..16 calls, channel counts 1..64 and 100..255, half of them through the NxscopeHandler wrappers, rx padding and a stream left running chosen per line) with every set request answered by ack / nack r / applied-but-ACK-lost / "
            "lost (per-request scripts; r over small, byte-boundary, 16-bit-boundary and extreme 32-bit codes of both signs incl. "
            "INT_MIN / INT_MAX on configuration writes and on start / stop at both handler levels; runs of 3..6 requests in a row "
            "without any answer followed by a rejected / unanswered request, as configuration histories and as sessions), "
            "on ACK-supporting devices (and the no-ACK variants as a control); plus sessions on the NxscopeHandler (wrappers "
            "with writenow, stream_start / stream_stop, disconnect) and on a bare CommHandler (stream_start / stream_stop "
            "return values) in which every stream start/stop, divider and enable request is answered at random; compared "
            "with the model after every call incl. virtual elapsed time and the returned ACK; a device that keeps streaming "
            "thousands of frames after a rejected stop must still get its next configuration write acknowledged in bounded "
            "time; distinct = distinct line; non-trivial = history containing a failed request followed by an acknowledged write")
    assumptions = ["virtual-time runtime (harness/vsim.py) preserves queue/lock/thread semantics",
                   "reference device (harness/refdev.py) is a conforming NxScope device"]

    def cases(self, rng, tier):
        T = tier == "thorough"
        outcomes = ["a", "a", "a", "x", "l", "n1", "n-5", rng.choice(CODES), rng.choice(CODES)]
        # a device without channels: every write is a no-op, whatever the device would answer (F18)
        for flags in (2, 3):
            yield f"cfg run {flags} - - W:l:n1;A;D;N;W:a:a", "zero-channels"
        for it in range(600 if T else 110):
            n = rng.choice([1, 2, 3, 4, 5, 8, 16, 64]) if it % 12 else rng.choice([100, 127, 128, 200, 254, 255])
            flags = rng.randrange(4) | (2 if rng.random() < 0.85 else 0)     # mostly ACK-supporting devices
            en = [rng.random() < 0.4 for _ in range(n)]
            div = [rng.choice([0, 0, 3, 200]) for _ in range(n)]
            ops = gen_history(rng, n, outcomes)
            if rng.random() < 0.1:
                ops.insert(rng.randrange(len(ops) + 1), rng.choice([f"e{n}", "v256:0", "v-1:0", f"d0,{n + 3}", f"v5:{n}"]))
            yield f"cfg run {flags} {ll.bits(en)} {ll.ints(div)} {';'.join(ops)}", "ack" if flags & 2 else "noack"
        # every NACK code on both requests
        for code in CODES:
            yield f"cfg run 3 010 0,0,9 e0;v4:1;W:{code}:{code};W:a:{code};W:a:a", "codes"
        # the historical defect F13 and neighbours, exhaustively for 3 channels
        for first in ("x", "l", "n3"):
            for a in range(3):
                for b in range(3):
                    yield f"cfg run 3 000 0,0,0 e{a};W:a:{first};{'d' if a == b else 'e'}{b};W:a:a;W:a:a", "f13-family"
                    yield f"cfg run 3 000 0,0,0 v9:{a};W:{first}:a;v{0 if a == b else 7}:{b};W:a:a", "f13-family-div"
        # a failed single-channel request that was applied, then that channel put back and exactly one other changed
        for first in ("x", "l"):
            for a, b in ((0, 2), (1, 0), (2, 1)):
                yield f"cfg run 3 000 0,0,0 e{a};W:a:{first};d{a};e{b};W:a:a;W:a:a", "single-then-single"
                yield f"cfg run 3 000 0,0,0 v7:{a};W:{first}:a;v0:{a};v2:{b};W:a:a", "single-then-single"
                yield ll.mk_line("nx", 3, [0, 0, 0], [0, 0, 0], 0, 0, ll.plain_chans(3),
                                 ["C", f"e{a}!~a,a,{first}", f"d{a}", f"e{b}!", "W", "X"]), "single-then-single"
        # start / stop requests under every outcome, both handler levels, idle and streaming device
        P3 = ll.plain_chans(3)
        for o in ["a", "x", "l"] + CODES:
            for fl in (3, 2, 1):
                yield ll.mk_line("comm", fl, [0, 1, 0], [0, 0, 0], 0, 0, P3, ["C", f"S~{o},a,a", "e0", f"T~{o},a,a", "W", f"S~a,a,a", f"T~{o},a,a", "T", "X"]), "startstop-comm"
                yield ll.mk_line("nx", fl, [0, 1, 0], [0, 0, 0], 1, 0, P3, ["C", f"S~{o},a,a", "e0", f"T~{o},a,a", "W", "S", f"X~{o},a,a", "C", "W", "X"]), "startstop-nx"
        yield ll.mk_line("comm", 3, [0, 0], [0, 0], 0, 0, ll.plain_chans(2), ["S~l,a,a", "T~n5,a,a", "C", "X", "S~x,a,a"]), "startstop-comm"
        # an ACK frame with code 0 sent by a device that did not apply the request: the client takes it as the positive ACK
        yield ll.mk_line("comm", 3, [0, 0], [0, 0], 1, 0, ll.plain_chans(2), ["C", "S~n0,a,a", "T~n0,a,a", "X"]), "startstop-code0"
        yield ll.mk_line("nx", 3, [0, 0], [0, 0], 0, 0, ll.plain_chans(2), ["C", "S~n0,a,a", "X~n0,a,a"]), "startstop-code0"
        # the wrappers with writenow under failing ACKs (F13 family through the high-level API)
        for first in ("x", "l", "n3"):
            for a in range(3):
                for b in range(3):
                    yield ll.mk_line("nx", 3, [0, 0, 0], [0, 0, 0], 0, 0, P3,
                                     ["C", f"e{a}!~a,a,{first}", f"{'d' if a == b else 'e'}{b}!", "W", "X"]), "f13-family-nx"
                    yield ll.mk_line("nx", 3, [0, 0, 0], [0, 0, 0], 0, 0, P3,
                                     ["C", f"v9:{a}!~a,{first},a", f"v{0 if a == b else 7}:{b}!", "W", "X"]), "f13-family-nx"
        # a channel left enabled by a rejected disable-all at disconnect, then a NACKed single request (bulk retry)
        for o in ("n5", "l"):
            yield ll.mk_line("nx", 3, [0] * 6, [0] * 6, 0, 0, ll.plain_chans(6),
                             ["C", "e3!", f"X~a,a,{o}", "C", f"e5!~a,a,{o}", "W", "X"]), "left-enabled"
        # several requests in a row without any answer, then a rejected / unanswered one
        yield from lost_run_cases(rng, 200 if T else 36)
        for it in range(500 if T else 90):
            n = rng.choice([1, 2, 3, 4, 5, 8])
            mode = "nx" if it % 3 else "comm"
            en = [rng.random() < 0.4 for _ in range(n)]
            div = [rng.choice([0, 0, 3, 200]) for _ in range(n)]
            rxp, chans = ll.gen_desc(rng, n, plain=rng.random() < 0.5)
            fl = 3 if rng.random() < 0.7 else rng.randrange(4)
            yield ll.mk_line(mode, fl, en, div, rng.randrange(2), rxp, chans, gen_life(rng, n, mode, rng.randrange(2, 16))), f"life-{mode}"

    def impl(self, line):
        if line.startswith("life "):
            return ll.impl_line(line)
        flags, en, div, ops = ll.parse_cfg_line(line)
        out, info = ll.run_cfg_history(flags, en, div, ops, **ll.cfg_dims(line))
        if info.get("unaligned"):
            return "unaligned-write " + repr(info["unaligned"][:3])
        if info["errors"] or info["live_after"]:
            return "harness: " + repr(info["errors"]) + repr(info["live_after"])
        return "ok " + " | ".join(out)

    def nontrivial(self, line, out):
        if line.startswith("life "):
            return any(f"{s}{o}" in line for s in "~," for o in ("x", "l", "n"))
        return any(o in line for o in (":x", ":l", ":n")) and line.rstrip().endswith(":a:a")

    def oracle(self, line, impl_out=None):
        if line.startswith("life "):
            p = ll.parse_line(line)
            v = life_oracle(p)
            if v:
                v.setdefault("history", [c + ("~" + ",".join(a) if a else "") for c, a in p["calls"]])
                v.setdefault("handler", "NxscopeHandler" if p["mode"] == "nx" else "bare CommHandler")
            return v
        v = self.cfg_oracle(line)
        if v:
            d = ll.cfg_dims(line)
            v["dimensions"] = {"handler": "NxscopeHandler wrappers (no writenow)" if d["high"] else "CommHandler",
                               "rx_padding": d["rxpadding"], "stream_left_running_at_connect": d["started"]}
        return v

    def cfg_oracle(self, line):
        """configuration histories: after every call the reported state is the last acknowledged one; a write returns
        within the bound derived from the source's time-outs; a fully acknowledged write makes device = requested = reported"""
        flags, en, div, ops = ll.parse_cfg_line(line)
        if not flags & 2:
            return None
        n = len(en)
        try:
            out, info = ll.run_cfg_history(flags, en, div, ops, **ll.cfg_dims(line))
        except Exception as e:
            key = "unbounded-wait" if type(e).__name__ in ll.STUCK else "session-raises"
            return {"key": key, "what": f"{type(e).__name__}: {str(e)[:300]}", "expected": "every call returns", "observed": type(e).__name__}
        if info["errors"]:
            return {"key": "thread-died", "what": "a library thread died: " + repr(info["errors"][0]), "expected": "-", "observed": "-"}
        div_sup = bool(flags & 1)
        req_en, req_div = list(en), list(div)
        ack_en, ack_div = ll.bits(en), ll.ints(div)        # last state the device acknowledged
        for op, st in zip(ops, out):
            f = dict(kv.split("=", 1) for kv in st.split(";"))
            if f["e"] != "-":
                if op.startswith("W:") and n > 0:
                    # the write itself raised: "the call returns within a bounded time" (a setter that raises on a bad
                    # id / value issues no request and is not this property's subject)
                    _, od, oe = op.split(":")
                    return {"key": "call-raises", "what": f"channels_write() with the divider request answered '{od}' and the enable "
                            f"request answered '{oe}' raised {f['e']} instead of returning",
                            "expected": "the call returns (client's view stays at the last acknowledged state)",
                            "observed": f"raises {f['e']}; state after the call: {st}", "history": ops}
                return None            # a raising setter (bad id / value): not this property's subject
            now_en, now_div = f["now"].split("/")
            cp_en, cp_div = f["cp"].split("/")
            is_write = op.startswith("W:")
            if is_write and n > 0:
                _, od, oe = op.split(":")
                if int(f["t"]) > 10 * ll.call_bound():
                    return {"key": "unbounded-wait", "what": f"write waited {int(f['t']) / 10} s for the device",
                            "expected": f"<= {ll.call_bound():.0f} s (10 x the largest time-out the source uses, at least 10 s)", "observed": f["t"],
                            "history": ops}
                if div_sup and od == "a":
                    ack_div = ll.ints(req_div)
                if oe == "a":
                    ack_en = ll.bits(req_en)
            elif op[0] == "e":
                for c in op[1:].split(","):
                    req_en[int(c)] = True
            elif op[0] == "d":
                for c in op[1:].split(","):
                    req_en[int(c)] = False
            elif op[0] == "v":
                v, cs = op[1:].split(":")
                for c in cs.split(","):
                    req_div[int(c)] = int(v)
            elif op == "D":
                req_en, req_div = [False] * n, [0] * n
            elif op == "A":
                req_en = [True] * n
            elif op == "N":
                req_en = [False] * n
            if (now_en, cp_en) != (ack_en, ack_en) or (div_sup and (now_div, cp_div) != (ack_div, ack_div)):
                return {"key": "view-advanced", "what": f"after {op} the client's view is not the last acknowledged state",
                        "expected": f"{ack_en}/{ack_div}", "observed": f"now={f['now']} cp={f['cp']}", "history": ops}
            if is_write and n > 0 and oe == "a" and (od == "a" or not div_sup):
                d_en, d_div = f["dev"].split("/")
                if d_en != ll.bits(req_en) or (div_sup and d_div != ll.ints(req_div)) or now_en != d_en:
                    return {"key": "no-convergence", "what": "an acknowledged write left device != requested/reported state",
                            "expected": f"{ll.bits(req_en)}/{ll.ints(req_div)}", "observed": st, "history": ops}
        return None

    # -- a device that keeps streaming after a rejected stop: later requests must still be acknowledged in bounded time ------
    BURST = [("nx", ["C", "e1!", "S", "T~n3,a,a", "e2!", "W", "X"], 4, 5000),
             ("nx", ["C", "e0!", "S", "T~l,a,a", "v7:1!", "X"], 4, 4200)]

    def burst_checks(self, which):
        out = []
        for mode, calls, idx, n in which:
            line = ll.mk_line(mode, 3, [0, 0, 0], [0, 0, 0], 0, 0, ll.plain_chans(3), calls)
            p = ll.parse_line(line)
            v = life_oracle(p, burst={idx: n})
            if v:
                v["case"] = f"burst:{idx}:{n}:{line}"
                v.setdefault("history", calls)
                v["what"] = (f"the device keeps streaming after the failed stop and sends {n} stream frames before call {idx} "
                             f"({calls[idx]}): " + v["what"])
                out.append(v)
        return out

    def extra_checks(self, rng, tier, ev):
        res = self.burst_checks(self.BURST if tier == "thorough" else self.BURST[:1])
        ev["coverage"]["burst_scenarios"] = len(self.BURST if tier == "thorough" else self.BURST[:1])
        return res

    def replay(self, obj):
        case = obj["case"]
        if case.startswith("burst:"):
            _, idx, n, line = case.split(":", 3)
            return life_oracle(ll.parse_line(line), burst={int(idx): int(n)})
        return self.oracle(case)

    def deep_search(self, rng):
        return self.burst_checks(self.BURST)

    def search_cases(self, rng):
        for _ in range(200):
            n = rng.choice([2, 3, 4, 6])
            mode = rng.choice(["nx", "comm"])
            yield ll.mk_line(mode, 3, [rng.random() < 0.4 for _ in range(n)], [rng.choice([0, 3]) for _ in range(n)], rng.randrange(2), 0,
                             ll.plain_chans(n), gen_life(rng, n, mode, rng.randrange(3, 12))), "search"


def issues_requests(c, wn, n):
    """the call (token without its `!`) sends requests to a connected device and has well-formed arguments"""
    if c in ("W", "S", "T", "X"):
        return True
    if not wn:
        return False
    if c in ("D", "N"):
        return True
    try:
        if c[0] in "ed":
            return all(0 <= int(x) < n for x in c[1:].split(","))
        if c[0] == "v":
            v, cs = c[1:].split(":")
            return 0 <= int(v) <= 255 and all(0 <= int(x) < n for x in cs.split(","))
    except ValueError:
        pass
    return False


def life_oracle(p, burst=None):
    """the property on a life-cycle session (ACK-supporting device): every call returns in bounded time; a start/stop
    request returns the acknowledgement it got (a call whose request failed returns, it does not raise); what the client reports is the last state the device acknowledged;
    an acknowledged write makes device = requested = reported"""
    if not p["flags"] & 2:
        return None
    if any(a and "n0" in a for _, a in p["calls"]):
        return None                # code 0 is not a rejection: outside the property's quantifier
    nx = p["mode"] == "nx"
    n = len(p["en"])
    div_sup = bool(p["flags"] & 1)
    rich = []
    final = None               # what to report if no single call can be blamed
    try:
        out, info = ll.run_life(p, rich, burst=burst, real_limit=40.0)
        if info["errors"]:
            final = {"key": "thread-died", "what": "a library thread died: " + repr(info["errors"][0]), "expected": "-", "observed": "-"}
    except Exception as e:
        key = "unbounded-wait" if type(e).__name__ in ll.STUCK else "session-raises"
        nxt = p["calls"][len(rich)][0] if len(rich) < len(p["calls"]) else "the final disconnect"
        final = {"key": key, "what": f"call {len(rich)} ({nxt}) did not return: {type(e).__name__}: {str(e)[:300]}",
                 "expected": "every call returns in bounded time", "observed": type(e).__name__}
    connected = False
    streaming = False          # the high-level handler's own idea (a second stream_start does nothing)
    req_en = req_div = ack_en = ack_div = None
    prev = None
    bound = ll.call_bound()        # "within a bounded time": the bound follows the source's own time-outs
    for i, r in enumerate(rich):
        call = r["call"]
        wn = call.endswith("!")
        c = call[:-1] if wn else call
        st, dv, en = r["ans"] or ("a", "a", "a")
        hist = [x["call"] + ("~" + ",".join(x["ans"]) if x["ans"] else "") for x in rich[:i + 1]]
        wait = r["dt"] - r["join"]
        if r["dt"] > bound:
            return {"key": "unbounded-wait", "what": f"call {call} waited {wait:.2f} s for the device and {r['join']:.2f} s for its threads",
                    "expected": f"<= {bound:.0f} s (10 x the largest time-out the source uses, at least 10 s)", "observed": f"{r['dt']:.2f}", "history": hist}
        if r["res"] not in ("ok",) and not r["res"].startswith("ack:"):
            if connected and r["res"] != "none" and issues_requests(c, wn, n) and r["ans"] and any(o != "a" for o in r["ans"]):
                # a call whose request the device rejected / did not answer must return
                return {"key": "call-raises", "what": f"call {i} ({call}) with its start/stop, divider, enable requests answered "
                        f"{','.join(r['ans'])} raised {r['res']} instead of returning",
                        "expected": "the call returns (a failed acknowledgement is reported by value / leaves the view unchanged)",
                        "observed": f"raises {r['res']}; requests the device saw during the call: {[k for k, _ in r['reqs']]}", "history": hist}
            return final           # a raising call (out-of-range id, call on a disconnected handler): outside this oracle
        if c == "C":
            if not connected:
                connected = True
                req_en, req_div = list(r["dev_en"]), list(r["dev_div"])
                ack_en, ack_div = list(r["dev_en"]), list(r["dev_div"])
            prev = r
            continue
        if not connected:
            prev = r
            continue
        writes = False
        if c in ("S", "T") and not nx:
            # return value of stream_start() / stream_stop(): the acknowledgement state
            want = {"a": "ack:1:0", "x": "ack:0:", "l": "ack:0:"}.get(st, "ack:0:" + st[1:])
            if not (r["res"].startswith(want) if want.endswith(":") else r["res"] == want):
                return {"key": "ack-state", "what": f"{'stream_start' if c == 'S' else 'stream_stop'}() answered with '{st}' returned {r['res']}",
                        "expected": want + ("<code>" if want.endswith(":") else ""), "observed": r["res"], "history": hist}
            if st in ("a", "x") and r["dev_started"] != (c == "S"):
                return {"key": "ack-state", "what": "an applied start/stop request did not reach the device", "expected": c == "S",
                        "observed": r["dev_started"], "history": hist}
        elif c == "S":
            if not streaming:
                writes = True
                streaming = True
        elif c == "T":
            streaming = False
        elif c == "X":
            if nx:
                req_en = [False] * n
                writes = True
                streaming = False
        elif c == "W":
            writes = True
        elif c[0] in "ed":
            for x in c[1:].split(","):
                req_en[int(x)] = c[0] == "e"
            writes = wn
        elif c[0] == "v":
            v, cs = c[1:].split(":")
            for x in cs.split(","):
                req_div[int(x)] = int(v)
            writes = wn
        elif c == "D":
            req_en, req_div = [False] * n, [0] * n
            writes = wn
        elif c == "N":
            req_en = [False] * n
            writes = wn
        elif c == "A":
            req_en = [True] * n
        if writes and n > 0:
            if div_sup and dv == "a":
                ack_div = list(req_div)
            if en == "a":
                ack_en = list(req_en)
        if c == "X":
            connected = False
            prev = r
            continue
        v = r["view"]
        if v["now_en"] != ack_en or v["cp_en"] != ack_en or (div_sup and (v["now_div"] != ack_div or v["cp_div"] != ack_div)):
            lag = prev is not None and prev["view"] is not None and all(v[k] == prev["view"][k] for k in ("now_en", "now_div", "cp_en", "cp_div"))
            return {"key": "ack-not-seen" if (lag and writes) else "view-advanced",
                    "what": f"after {call} the client's view is not the last state the device acknowledged"
                            + (" (the device acknowledged the request, the client did not take it)" if (lag and writes) else ""),
                    "expected": f"{ll.bits(ack_en)}/{ll.ints(ack_div)}",
                    "observed": f"reported={ll.bits(v['now_en'])}/{ll.ints(v['now_div'])} description copy={ll.bits(v['cp_en'])}/{ll.ints(v['cp_div'])}",
                    "history": hist}
        if writes and n > 0 and en == "a" and (dv == "a" or not div_sup):
            if r["dev_en"] != req_en or v["now_en"] != req_en or (div_sup and (r["dev_div"] != req_div or v["now_div"] != req_div)):
                return {"key": "no-convergence", "what": f"the write of {call}, every request acknowledged, left device / requested / reported state apart",
                        "expected": f"{ll.bits(req_en)}/{ll.ints(req_div)}",
                        "observed": f"device={ll.bits(r['dev_en'])}/{ll.ints(r['dev_div'])} reported={ll.bits(v['now_en'])}/{ll.ints(v['now_div'])}",
                        "history": hist}
        prev = r
    return final


PROP = C11()
