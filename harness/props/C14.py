"""C14 — the simulated device answers like a conforming NxScope device.

The real, unmodified `DummyDev` runs under the virtual-time simulation (harness/vsim.py, pre-emptive
mode) with a chooser that makes every thread iteration an explicit, atomic step:
  w<hex>  dev.write(bytes)            R  one iteration of the device's receive thread
  r       dev.read()                  S  one iteration of the device's stream thread
  a       dev.start()                 z  dev.stop()            d  state dump (observation only)
The device is driven only through write()/read()/start()/stop(); the chooser decides who runs:
 1 a task that has not reached an iteration boundary (`get`, `event-wait`, `join`, control wait) continues,
 2 the driving task when it can run, 3 the thread the current op asks for, 4 threads whose wait timed
 out (they just loop), 5 an idle task that advances the virtual clock.  Nothing else ever runs, so a
 history of ops is a deterministic sequential history — the one the Lean model (`Dummy.lean`) executes.
(This module is also the library of props/C16.py.)

Line syntax (shared with lean/NxsModel/Driver/Dummy.lean): `dummy run <defs> <ops>`; a definition is
`D,flags,pad,snum` (default channel set) | `C,flags,pad,snum,chan:chan…` | `A,flags,pad,snum,k` (the list object of
instance k); pad = `rxp` | `rxp/wpad` | `rxp/wpad/sleep_ms` (rx padding the device reports; the interface's write padding,
default = rxp as a client sets it; `stream_sleep`); `chan = type.vdim.mlen.gen.en.div.namehex[.id]` (id = the `chan` argument
of `DeviceChannel`, default: the position).  Op `<k>n` CONSTRUCTS instance k at that point of the history (an instance
with an `n` op is not constructed up-front): a device created after others were driven.

Generator kinds of a custom channel: 0..9 = dummy.py's ChannelFunc<k>;
10 = a user-defined vector function (ChannelFunc1's counter in every component); 11 = a user-defined function of the
CALL INDEX that `DeviceChannel.data_get` hands to `IDeviceChannelFunc.get(cntr)` (`get(cntr) -> (cntr,) * vdim`);
12 = its sparse variant (`None` unless `cntr % 3 == 0`); n = no function.  Kinds 11 / 12 make `DeviceChannel._cntr`
observable: it must advance on every call (also when the function returned None) and restart with the generators
(finding F19).  The state dump `d` also shows the call counters (compared with the model, not judged by the oracle).

THE ORACLE (class `Judge`) knows the NxScope protocol (harness/refdev.py, harness/ref.py) and NOTHING of dummy.py's
content (review findings FA1 / FA2: a hard-coded copy of the default channel table and of the generators' constants made
harmless edits of dummy.py — a renamed default channel, another period of the triangle wave — look like violations):
 * the device's DEFINITION (channel count, flags, rx padding, per channel enable / type / dimension / divider / metadata
   size / name / generator class) is what `snapshot` reads from the constructed device object BEFORE its history starts
   (default devices) or what the harness itself handed to the constructor (custom devices);
 * the expected sample sequence of a channel is what a FRESH object of its generator class yields — `cls()` created in a
   fresh interpreter (`Fresh`: the library freshly imported, nothing shared with the devices under test, so generators that
   keep state in class attributes cannot contaminate the reference), output j for the j-th sampling since the last start;
   a class is compared by VALUE iff two fresh objects give the same sequence under two different `random` seeds, else by
   structure; the harness-defined kinds 10 / 11 / 12 are known here;
 * a value that does not fit its channel's declared type / dimension / metadata size (`value_fits`) makes the device's
   encoder raise: modelled, not judged (the instance is `tainted`).
So the oracle judges "each channel's samples in generator order without loss or repetition, reset at start" and "the
answers describe the device that was defined", whatever the defaults and the generators' constants are.  Only the device's
definition and the generator classes are read from nxslib; encoders, callbacks, queues are not.

What the quantifier of the property covers here, and what it does not (exclusions accepted by the owner):
 * "padding, noise, CRC-damaged requests" are writes the NxScope receiver does not accept (no start byte, bad header,
   inconsistent length, bad checksum).  A CRC-VALID frame that is not a request — an ACK or STREAM id, a common-info
   request WITH a payload — is outside that class: `ParseRecv.recv_handle` asserts on it and the AssertionError ends
   DummyDev's receive thread.  The model reproduces this (`Thr.dead`, generator branch `*-bad`); the oracle does not
   judge such histories (the judge marks the instance `tainted`).
 * only the FIRST frame of one write() is handled (`recv_handle` looks for one start byte per call); a second request
   in the same write is dropped.  The nxslib client never batches requests, and the histories here carry one request
   per write (with leading / trailing padding).
 * the random generators (ChannelFunc0/3/4) draw from the process-global `random`: one device's streaming shifts the
   values another device's random channels produce under a seed.  Values of random channels are compared by
   STRUCTURE only (dimension, position), so C16's independence says nothing about their values; the sine generator
   (ChannelFunc9) is compared by value in oracle runs only.
 * what survives a restart: `stop()` lets the stream thread finish its iteration (one more batch if the stream is
   started), lets the receive thread take at most one more request, then drops ONE queued item from each queue — the
   rest of the queued writes and of the unread frames (stale responses / stream frames) survive into the next
   `start()`, as do enable flags, dividers and the stream-started flag; `start()` resets generators and call counters.
 * a stream batch larger than one frame payload ends the stream thread (known finding F17, key `batch-too-large`).
 * SCHEDULES are outside the quantifier (review finding G2): thread iterations are atomic here and in the model.  With real
   threads a stream frame can be sampled and queued AFTER a stop request was acknowledged: `_thread_stream` tests
   `_stream_started.wait()` and only then takes `_dummydev_lock`; `_start_cb` clears the event outside the lock and queues
   the ACK under it.  Schedule: the stream thread passes `wait()` and is descheduled before the lock; the client's stop
   request is handled and acknowledged; the stream thread continues and queues a whole batch after the ACK.  (Reviewer's
   script race14.py forces this legal OS schedule on the unmodified DummyDev.)  `stream_only_when_started` is a theorem
   about the ATOMIC model: "no frame from an iteration that BEGINS while not started".  Likewise the race between stop()
   and a batch being built, and with `stream_sleep > 0` how many queued requests the receive thread takes while the
   stream thread sleeps inside `stop()` (here: none — the sleeping thread is waited for, nobody overtakes it).
 * a channel name that is a `str` with a lone surrogate (e.g. "\\udc80"; review finding M2) makes `bytes(name, "utf-8")` raise
   inside the device's receive thread on a channel-info request, which ends that thread.  The model's name is a byte list
   (`DevOk` cannot say "name encodable") and the line syntax carries names as UTF-8 bytes, so no model input exists for it:
   names here are valid, NUL-free UTF-8 (with leading / trailing / inner white space, tabs, multi-byte characters).
 * structural blind spots of the correspondence named by the review, and what is varied now: channel ids that are not the
   positions (a quarter of the custom devices; the model has no id: the device addresses by position), write padding
   different from the rx padding (30 %), `stream_sleep` 1 ms / 0.5 s / 3 s of virtual time (15 %), names from a list of 25
   plus random names over an alphabet with white space and multi-byte characters, instances constructed late (`n`).
"""
import json
import os
import re
import struct
import subprocess
import sys

import common
from common import Prop, exc_name, hexs
import vsim
import refdev
import streamglue as sg
from ref import ref_frame, ref_crc16_xmodem

BOUNDARY = ("get", "event-wait", "join", "ctl")
IDX_GENS = (11, 12)            # user-defined functions of the call index (see module docstring)
HARNESS_GENS = (10, 11, 12)    # generator kinds defined by the harness (their sequences are known here)
RND_GENS = (0, 3, 4, 9)        # correspondence runs: values the Lean model does not compute (random, sine) are zeroed
# oracle runs: nothing is masked in the transcript; the judge decides per generator CLASS whether its values are
# compared (two fresh objects of the class give the same sequence under different `random` seeds) or only their structure
ORACLE_MODE = [False]


def default_table():
    """the default channel set as the library defines it NOW: [(type, vdim, mlen, name, generator number)], read from the
    module-level definition (`DUMMY_DEV_CHANNELS`) — used to generate requests for a default device (number of channels)
    and to zero unmodelled values in correspondence runs; the ORACLE never uses it (it reads the definition from the
    device object it judges, see `snapshot`)"""
    from nxslib.intf import dummy as dm
    out = []
    for ch in dm.DUMMY_DEV_CHANNELS:
        fn = getattr(ch, "_func", None)
        m = re.fullmatch(r"ChannelFunc(\d+)", type(fn).__name__) if fn is not None else None
        g = None if fn is None else (int(m.group(1)) if m else 0)      # unknown class: treated like a random generator
        out.append((ch.data._type, ch.data.vdim, ch.data.mlen, ch.data.name, g))
    return out


# ---------------------------------------------------------------------------------------------------------
# device definitions (line syntax shared with lean/NxsModel/Driver/Dummy.lean)
# ---------------------------------------------------------------------------------------------------------
def parse_pad(x):
    """`rxp` | `rxp/wpad` | `rxp/wpad/sleep_ms` -> (rxp, wpad, sleep_ms)"""
    t = [int(v) for v in x.split("/")]
    return t[0], (t[1] if len(t) > 1 else t[0]), (t[2] if len(t) > 2 else 0)


def pad_str(d):
    wp, sl = d.get("wpad", d["rxp"]), d.get("sleep", 0)
    if sl:
        return f"{d['rxp']}/{wp}/{sl}"
    return f"{d['rxp']}/{wp}" if wp != d["rxp"] else str(d["rxp"])


def parse_defs(s):
    out = []
    for d in s.split("+"):
        t = d.split(",")
        kind, flags, snum = t[0], int(t[1]), int(t[3])
        rxp, wpad, sleep = parse_pad(t[2])
        base = dict(kind=kind, flags=flags, rxp=rxp, wpad=wpad, sleep=sleep, snum=snum)
        if kind == "D":
            out.append(dict(base, chans=[dict(type=a, vdim=b, mlen=c, gen=g, en=0, div=0, name=n.encode()) for a, b, c, n, g in default_table()]))
        elif kind == "C":
            chans = []
            for c in t[4].split(":"):
                f = c.split(".")
                ty, vdim, mlen, gen, en, div, name = f[:7]
                ch = dict(type=int(ty), vdim=int(vdim), mlen=int(mlen), gen=None if gen == "n" else int(gen),
                          en=int(en), div=int(div), name=b"" if name == "-" else bytes.fromhex(name))
                if len(f) > 7:
                    ch["id"] = int(f[7])      # the `chan` argument of DeviceChannel(...) (default: the position)
                chans.append(ch)
            out.append(dict(base, chans=chans))
        elif kind == "A":
            k = int(t[4])
            out.append(dict(base, alias=k, chans=out[k]["chans"]))
        else:
            raise ValueError(d)
    return out


def chan_str(c):
    s = f"{c['type']}.{c['vdim']}.{c['mlen']}.{'n' if c['gen'] is None else c['gen']}.{c['en']}.{c['div']}.{hexs(c['name'])}"
    return s + (f".{c['id']}" if c.get("id") is not None else "")


def def_str(d):
    if d["kind"] == "D":
        return f"D,{d['flags']},{pad_str(d)},{d['snum']}"
    if d["kind"] == "A":
        return f"A,{d['flags']},{pad_str(d)},{d['snum']},{d['alias']}"
    return f"C,{d['flags']},{pad_str(d)},{d['snum']}," + ":".join(chan_str(c) for c in d["chans"])


# ---------------------------------------------------------------------------------------------------------
# running a history on the real DummyDev
# ---------------------------------------------------------------------------------------------------------
class Ctl:
    def __init__(self):
        self.want = []          # tasks the current op wants to run, in priority order
        self.fresh_only = False  # ... only while they have not reached their first wait (thread start-up)
        self.idle = None
        self.main = None
        self.counts = {}
        self.pos = 0

    def count(self, sim, task):
        """how many times the task was handed the baton (see CountingSim)"""
        return getattr(task, "nsched", 0)


class _NoTrace(list):
    """`Sim.trace` is capped at 100 000 entries; a batch of thousands of rounds makes more switches than that, so the
    scheduling counts are kept per task instead (CountingSim._pick) and the trace is not recorded"""

    def append(self, x):
        pass


class CountingSim(vsim.Sim):
    def __init__(self, *a, **kw):
        super().__init__(*a, **kw)
        self.trace = _NoTrace()

    def _pick(self, cands):
        t = super()._pick(cands)
        t.nsched = getattr(t, "nsched", 0) + 1
        return t


def timed_out(sim, t):
    """blocked, its condition is false and its timeout has expired: running it is a no-op wake-up"""
    if t.state != "blocked" or t.deadline is None or t.deadline > sim.now:
        return False
    try:
        return not t.pred()
    except Exception:
        return False


def make_chooser(ctl):
    def chooser(sim, cands):
        cur = sim.cur
        if cur in cands and cur is not ctl.idle:
            if cur.state == "ready" or cur.what not in BOUNDARY:
                return cands.index(cur)
        if ctl.main in cands:
            return cands.index(ctl.main)
        for t in ctl.want:
            if t in cands and (not ctl.fresh_only or t.state == "ready"):
                return cands.index(t)
            if t.state == "blocked" and t.what == "sleep" and ctl.idle in cands:
                # the wanted thread sleeps inside its iteration (`stream_sleep`): the clock advances, nobody else runs
                # (a thread further down the list must not overtake it: iterations stay atomic)
                return cands.index(ctl.idle)
        for i, t in enumerate(cands):
            if t is not ctl.idle and timed_out(sim, t):
                return i
        if ctl.idle in cands:
            return cands.index(ctl.idle)
        return 0
    return chooser


def vec_func(vdim):
    """a user-defined channel function (the public IDeviceChannelFunc interface): ChannelFunc1's counter in each of vdim components"""
    from nxslib.dev import DDeviceChannelFuncData, IDeviceChannelFunc

    class VecFunc(IDeviceChannelFunc):
        _cntr = 0

        def reset(self):
            self._cntr = 0

        def get(self, _):
            self._cntr += 1
            if self._cntr > 1000:
                self._cntr = 0
            return DDeviceChannelFuncData(data=(self._cntr,) * vdim)
    return VecFunc()


def idx_func(vdim, sparse):
    """a user-defined channel function that USES the call index `DeviceChannel.data_get` passes: the value is the index in
    every component; the sparse variant returns None unless the index is a multiple of 3"""
    from nxslib.dev import DDeviceChannelFuncData, IDeviceChannelFunc

    class IdxFunc(IDeviceChannelFunc):
        def reset(self):
            pass

        def get(self, cntr):
            if sparse and cntr % 3 != 0:
                return None
            return DDeviceChannelFuncData(data=(cntr,) * vdim)
    return IdxFunc()


def make_func(dm, c):
    g = c["gen"]
    if g is None:
        return None
    if g == 10:
        return vec_func(c["vdim"])
    if g in IDX_GENS:
        return idx_func(c["vdim"], g == 12)
    return getattr(dm, f"ChannelFunc{g}")()


def snapshot(dev):
    """the DEFINITION of a constructed DummyDev, read from its device object (no protocol code involved): what the
    oracle's reference device is built from"""
    dd = dev._dummydev
    chans = []
    for ch in dd._channels:
        fn = getattr(ch, "_func", None)
        chans.append(dict(en=bool(ch.data.en), type=int(ch.data._type), vdim=int(ch.data.vdim), div=int(ch.data.div),
                          mlen=int(ch.data.mlen), name=ch.data.name,
                          func=None if fn is None else [type(fn).__module__, type(fn).__qualname__]))
    return dict(chmax=int(dd.data.chmax), flags=int(dd.data.flags), rxp=int(dd.data.rxpadding), chans=chans)


# ---------------------------------------------------------------------------------------------------------
# what a FRESH generator object yields / what a FRESH default device is (asked of a fresh interpreter)
# ---------------------------------------------------------------------------------------------------------
_FRESH_CODE = r"""
import sys, json, random, importlib, logging
sys.path.insert(0, sys.argv[1])
logging.disable(logging.CRITICAL)
req = json.loads(sys.stdin.read())
def one(x):
    if isinstance(x, bool): return {"o": "bool"}
    if isinstance(x, int): return x
    if isinstance(x, float): return {"f": x.hex()}
    if isinstance(x, str): return {"s": x}
    return {"o": type(x).__name__}
def enc(r):
    if r is None: return None
    return [[one(x) for x in r.data], [one(x) for x in r.meta]]
out = {"gens": {}, "default": None}
for mod, qn, n in req["gens"]:
    key = mod + ":" + qn
    try:
        cls = importlib.import_module(mod)
        for part in qn.split("."):
            cls = getattr(cls, part)
        seqs = []
        for seed in (1, 2):
            random.seed(seed)
            g = cls()
            seqs.append([enc(g.get(j)) for j in range(n)])
        out["gens"][key] = {"det": seqs[0] == seqs[1], "out": seqs[0], "err": None}
    except Exception as e:
        out["gens"][key] = {"det": False, "out": [], "err": type(e).__name__ + ": " + str(e)}
if req.get("default"):
    from nxslib.intf import dummy as dm
    dev = dm.DummyDev()
    dd = dev._dummydev
    chans = []
    for ch in dd._channels:
        fn = getattr(ch, "_func", None)
        chans.append(dict(en=bool(ch.data.en), type=int(ch.data._type), vdim=int(ch.data.vdim), div=int(ch.data.div),
                          mlen=int(ch.data.mlen), name=ch.data.name,
                          func=None if fn is None else [type(fn).__module__, type(fn).__qualname__]))
    out["default"] = dict(chmax=int(dd.data.chmax), chans=chans)
    dev.stop = lambda: None
sys.stdout.write(json.dumps(out))
"""


class Fresh:
    """sequences of FRESH generator objects (`cls()` in a fresh interpreter: module freshly imported, nothing shared with
    the devices under test) and the description of a FRESH default device.  Cached for the life of the process."""
    gens = {}          # "module:qualname" -> {det, out: [decoded outputs], err}
    default = None
    spawns = 0

    @classmethod
    def _ask(cls, gens, default=False):
        req = json.dumps({"gens": gens, "default": default})
        p = subprocess.run([sys.executable, "-c", _FRESH_CODE, os.path.join(common.REPO, "src")], input=req,
                           capture_output=True, text=True, timeout=600)
        cls.spawns += 1
        if p.returncode != 0:
            raise RuntimeError("fresh-interpreter helper failed: " + p.stderr[-400:])
        r = json.loads(p.stdout)
        for key, g in r["gens"].items():
            g["out"] = [cls._dec(o) for o in g["out"]]
            cls.gens[key] = g
        if r.get("default") is not None:
            cls.default = r["default"]

    @staticmethod
    def _dec(o):
        if o is None:
            return None

        def one(x):
            if isinstance(x, dict):
                if "f" in x:
                    return float.fromhex(x["f"])
                if "s" in x:
                    return x["s"]
                return NotImplemented          # a value of a type the protocol has no encoding for
            return x
        return [one(x) for x in o[0]], [one(x) for x in o[1]]

    @classmethod
    def need(cls, keys, n=4096):
        """make sure the first n outputs of every class in keys ([module, qualname]) are known"""
        miss = [[m, q, max(n, 4096)] for m, q in keys if len(cls.gens.get(m + ":" + q, {"out": []})["out"]) < n
                and not cls.gens.get(m + ":" + q, {}).get("err")]
        if miss:
            cls._ask(miss)

    @classmethod
    def output(cls, func, j, hint=0):
        """(output j of a fresh object of the class: None | (data, meta), deterministic?) — ("unknown", False) if the class
        cannot be re-created; `hint`: how many outputs the caller expects to need at most"""
        key = func[0] + ":" + func[1]
        g = cls.gens.get(key)
        if g is None or (len(g["out"]) <= j and not g["err"]):
            cls._ask([[func[0], func[1], max(4096, hint, j + 1 + (j + 1) // 2)]])
            g = cls.gens[key]
        if g["err"] or len(g["out"]) <= j:
            return "unknown", False
        return g["out"][j], g["det"]

    @classmethod
    def default_device(cls):
        if cls.default is None:
            cls._ask([], default=True)
        return cls.default


def virtualise(dev, memo, depth=2):
    """standard primitives reachable from a constructed device that were created OUTSIDE the simulation — at import / class-creation
    time, e.g. a dataclass default `Event()` evaluated once — are replaced by their virtual stand-ins, IDENTITY PRESERVED (`memo`:
    one stand-in per real object for the whole run, so a primitive that two instances share stays shared).  Without this a task
    would block on a real primitive while holding the baton and the run would never come back.  Only attributes of objects of
    nxslib classes are looked at (not the channel lists)."""
    import queue as _q
    import threading as _t
    real = {_t.Event: "event", type(_t.Lock()): "lock", type(_t.RLock()): "rlock", _q.Queue: "queue", _q.SimpleQueue: "queue"}

    def stand_in(v):
        kind = real.get(type(v))
        if kind is None:
            return None
        if id(v) not in memo:
            if kind == "event":
                n = vsim.VEvent()
                n.flag = v.is_set()
            elif kind == "queue":
                n = vsim.VQueue(getattr(v, "maxsize", 0))
            else:
                n = vsim.VLock() if kind == "lock" else vsim.VRLock()
            memo[id(v)] = (v, n)          # the real object is kept alive: its id stays unique
        return memo[id(v)][1]

    def walk(o, d):
        try:
            attrs = list(vars(o).items())
        except TypeError:
            return
        for name, v in attrs:
            n = stand_in(v)
            if n is not None:
                try:
                    object.__setattr__(o, name, n)
                except Exception:  # noqa: BLE001
                    pass
            elif d > 0 and (type(v).__module__ or "").startswith("nxslib"):
                walk(v, d - 1)
    walk(dev, depth)


def stream_flag(dev):
    """the device's "stream started" event, wherever the implementation keeps it (observation only): `_stream_started`, or the
    one event named `*started*` one object below the device"""
    ev = getattr(dev, "_stream_started", None)
    if ev is None:
        for v in list(vars(dev).values()):
            if (type(v).__module__ or "").startswith("nxslib") and hasattr(v, "__dict__"):
                for name, e in vars(v).items():
                    if "started" in name and hasattr(e, "is_set"):
                        ev = e
    if ev is None:
        return "?"
    return int(ev.flag if hasattr(ev, "flag") else ev.is_set())


REAL_LIMIT = float(os.environ.get("VERIF_DUMMY_REAL_LIMIT_S", "600"))


def run_history(defs, ops, max_idle=200000):
    """returns (tokens, info).  tokens: one per op, in the format of the Lean driver."""
    ctl = Ctl()
    sim = CountingSim(chooser=make_chooser(ctl), preempt=True, spin_limit=50_000_000)
    info = {"errors": []}

    def scenario():
        from nxslib.intf import dummy as dm
        from nxslib.dev import DeviceChannel
        ctl.main = sim.tasks[0]
        idle_n = [0]

        def idle():
            while True:
                ds = [t.deadline for t in sim.tasks if t.state == "blocked" and t.deadline is not None and t.deadline > sim.now]
                if ds:
                    sim.now = min(ds)
                sim.ops_since_tick = 0
                idle_n[0] += 1
                if idle_n[0] > max_idle:
                    raise RuntimeError("idle task spins: nothing can make progress")
                sim.yield_("idle")
        ctl.idle = sim.spawn(idle, "idle")
        # the task names must be unique for the scheduling counters
        # instances with an `n` op are constructed at that op (after other instances were driven), the others up-front
        late = {int(o[0]) for o in ops if o[1] == "n"}
        devs, lists = [None] * len(defs), [None] * len(defs)
        info["snap"] = [None] * len(defs)
        memo = {}                        # real primitive -> its virtual stand-in (see `virtualise`)

        def construct(k):
            d = defs[k]
            sleep = d.get("sleep", 0) / 1000.0
            if d["kind"] == "D":
                dev = dm.DummyDev(flags=d["flags"], rxpadding=d["rxp"], stream_sleep=sleep, stream_snum=d["snum"])
            else:
                if d["kind"] == "A":
                    chans = lists[d["alias"]]
                else:
                    chans = []
                    for i, c in enumerate(d["chans"]):
                        fn = make_func(dm, c)
                        cid = i if c.get("id") is None else c["id"]
                        chans.append(DeviceChannel(cid, c["type"], c["vdim"], c["name"].decode("utf-8"), en=bool(c["en"]),
                                                   div=c["div"], mlen=c["mlen"], func=fn))
                lists[k] = chans
                dev = dm.DummyDev(chmax=len(chans), flags=d["flags"], channels=chans, rxpadding=d["rxp"],
                                  stream_sleep=sleep, stream_snum=d["snum"])
            dev.write_padding = d.get("wpad", d["rxp"])
            virtualise(dev, memo)
            devs[k] = {"dev": dev, "recv": None, "stream": None}
            info["snap"][k] = snapshot(dev)       # the device's DEFINITION, before its history starts (for the oracle)

        for k in range(len(defs)):
            if k not in late:
                construct(k)
        nerr = [0]

        def new_errors():
            es = sim.errors[nerr[0]:]
            nerr[0] = len(sim.errors)
            for n, e, tb in es:
                info["errors"].append((n, repr(e)))
            return [exc_name(e) for _, e, _ in es]

        def wait(pred):
            sim.block(pred, None, "ctl")

        def live(t):
            return t is not None and t.state != "done"

        def settle():
            """let every expired wait wake up and loop, so that what an op does never depends on timer phase"""
            def quiet():
                return not any(timed_out(sim, t) for t in sim.tasks if t is not ctl.main and t is not ctl.idle)
            if not quiet():
                wait(quiet)

        def thread_step(t, boundary):
            if not live(t):
                return
            n0 = ctl.count(sim, t)
            ctl.want = [t]
            wait(lambda: t.state == "done" or (ctl.count(sim, t) > n0 and t.state == "blocked" and t.what == boundary))
            ctl.want = []

        out = []
        try:
            run_ops(out, devs, thread_step, new_errors, wait, live, settle, construct)
        finally:
            for D in devs:
                if D is not None:
                    D["dev"].stop = lambda: None      # late `__del__` must not touch the shims after the simulation
        info["alive"] = [[live(D["recv"]), live(D["stream"])] if D is not None else [False, False] for D in devs]
        info["now"] = sim.now
        return out

    def run_ops(out, devs, thread_step, new_errors, wait, live, settle, construct):
        for op in ops:
            k, code, arg = int(op[0]), op[1], op[2:]
            settle()
            if code == "n":
                if devs[k] is not None:
                    raise ValueError(f"instance {k} constructed twice")
                construct(k)
                out.append(".")
                continue
            D = devs[k]
            if D is None:
                raise ValueError(f"op {op[:12]} on an instance that was not constructed")
            dev = D["dev"]
            if code == "w":
                dev.write(b"" if arg == "-" else bytes.fromhex(arg))
                out.append(".")
            elif code == "R":
                thread_step(D["recv"], "get")
                es = new_errors()
                out.append("!" + ",".join(es) if es else ".")
            elif code == "S":
                thread_step(D["stream"], "event-wait")
                es = new_errors()
                out.append("!" + ",".join(es) if es else ".")
            elif code == "r":
                out.append(frame_token(dev.read(), defs[k]))
            elif code == "a":
                n0 = len(sim.tasks)
                dev.start()
                new = sim.tasks[n0:]
                for t in new:
                    t.name = f"{t.name}#{k}.{n0}"
                    if t.name.startswith("dummy_recv"):
                        D["recv"] = t
                    elif t.name.startswith("dummy_stream"):
                        D["stream"] = t
                if new:
                    ctl.want = list(new)
                    ctl.fresh_only = True
                    wait(lambda: all(t.state == "done" or (t.state == "blocked" and t.what in BOUNDARY) for t in new))
                    ctl.want = []
                    ctl.fresh_only = False
                out.append(".")
            elif code == "z":
                ctl.want = [t for t in (D["stream"], D["recv"]) if t is not None]
                dev.stop()
                ctl.want = []
                D["recv"] = D["stream"] = None
                es = new_errors()
                out.append("!" + ",".join(es) if es else ".")
            elif code == "d":
                dd = dev._dummydev
                en = "".join("1" if x else "0" for x in dd.channels_en)
                dv = ",".join(str(x) for x in dd.channels_div)
                calls = ",".join(str(getattr(ch, "_cntr", "?")) for ch in dd._channels)
                out.append(f"{en}/{dv}/{stream_flag(dev)}/{dev._qwrite.qsize()}/{dev._qread.qsize()}/{calls}")
            else:
                raise ValueError(op)

    # a real-time watchdog (as in vsim.run_sim; SIGALRM, main thread only): a task that never reaches a switch point — it blocks
    # on a primitive the simulation does not know, or loops — must not hang the check; the history is reported as not terminating
    import signal
    import threading as _th
    use_alarm = REAL_LIMIT > 0 and _th.current_thread() is _th.main_thread()
    fired = [False]

    def on_alarm(signum, frame):
        # (no lock / semaphore operation in here, see vsim.run_sim)
        fired[0] = True
        sim.killed = True
        for t in sim.tasks[1:]:
            if t.state != "done" and t.thread is not None:
                vsim._async_raise(t.thread, vsim.Killed)
        raise vsim.RealTimeLimit(f"no result after {REAL_LIMIT:.0f} s of real time at virtual t={sim.now:.2f}")

    old_handler = None
    if use_alarm:
        old_handler = signal.signal(signal.SIGALRM, on_alarm)
        signal.setitimer(signal.ITIMER_REAL, REAL_LIMIT)
    try:
        with vsim.installed(sim):
            try:
                r = sim.run(scenario)
            except BaseException as e:  # noqa: BLE001
                r = e
    finally:
        if use_alarm:
            signal.setitimer(signal.ITIMER_REAL, 0)
            signal.signal(signal.SIGALRM, old_handler)
    if fired[0] and not isinstance(r, vsim.RealTimeLimit):
        r = vsim.RealTimeLimit(f"real-time budget of {REAL_LIMIT:.0f} s exceeded")
    if isinstance(r, BaseException):
        raise r
    return r, info


# ---------------------------------------------------------------------------------------------------------
# reference decoding of what the device sends (independent of nxslib)
# ---------------------------------------------------------------------------------------------------------
def sample_size(c):
    """(data bytes, meta bytes) of one sample of the channel on the wire, from the protocol's type table"""
    t = c["type"] & 0x1F
    if t not in sg.STD:
        return None
    code, size, _ = sg.STD[t]
    return (size * c["vdim"] if code else 0), c["mlen"]


def split_stream(payload, chans):
    """[(chan, data bytes, meta bytes)] of a stream payload (after the flags byte), or None if it does not parse"""
    out = []
    i = 1
    while i < len(payload):
        cid = payload[i]
        if cid >= len(chans):
            return None
        sz = sample_size(chans[cid])
        if sz is None:
            return None
        a, b = sz
        if i + 1 + a + b > len(payload):
            return None
        out.append((cid, payload[i + 1:i + 1 + a], payload[i + 1 + a:i + 1 + a + b]))
        i += 1 + a + b
    return out


def mask_stream(payload, chans, masked=None):
    """zero the value bytes of the channels for which `masked(channel)` holds (compared by structure only); default: the
    channels whose generator the Lean model does not compute (random / sine)"""
    if masked is None:
        masked = lambda c: c["gen"] in RND_GENS      # noqa: E731
    ss = split_stream(payload, chans)
    if ss is None:
        return payload
    out = bytearray(payload[:1])
    for cid, data, meta in ss:
        out.append(cid)
        out += bytes(len(data)) if masked(chans[cid]) else data
        out += meta
    return bytes(out)


def frame_token(fr, d):
    if not fr:
        return "-"
    if len(fr) >= 6 and fr[3] == 1:
        if ORACLE_MODE[0]:
            return "S" + fr[4:-2].hex()          # the judge decides what is compared (see Judge.check_stream)
        return "S" + mask_stream(fr[4:-2], d["chans"]).hex()
    return fr.hex()


def req(fid, payload, rng=None, pad=0):
    return ref_frame(fid, bytes(payload))


# ---------------------------------------------------------------------------------------------------------
# generators of histories
# ---------------------------------------------------------------------------------------------------------
GOOD_COMBOS = [  # (type, vdim, mlen, gen) combinations a conforming configuration can have
    (10, 1, 0, 0), (10, 1, 0, 1), (10, 1, 0, 2), (10, 2, 0, 3), (10, 3, 0, 4), (10, 3, 0, 5), (18, 64, 0, 6), (3, 3, 1, 7),
    (1, 0, 16, 8), (10, 3, 0, 9), (0, 0, 0, None), (11, 1, 0, 1), (11, 1, 0, 2), (11, 3, 0, 5), (5, 1, 0, 1), (5, 1, 0, 2),
    (7, 1, 0, 2), (4, 1, 0, 1), (6, 1, 0, 1), (9, 1, 0, 2), (8, 1, 0, 1), (5, 3, 1, 7), (7, 3, 1, 7), (9, 3, 1, 7),
    (13, 1, 0, 2), (15, 1, 0, 2), (17, 1, 0, 1), (12, 1, 0, 1), (14, 1, 0, 1), (16, 1, 0, 1), (13, 3, 0, 5), (15, 3, 0, 5),
    (1, 0, 0, 8), (11, 3, 0, 9), (11, 1, 0, 0), (0x8a, 1, 0, 1), (0x4b, 1, 0, 2), (10, 1, 0, None), (1, 0, 0, None),
    (3, 3, 2, 7), (11, 8, 0, 10), (5, 4, 0, 10), (10, 2, 0, 10),
    # user-defined functions of the call index (11) and its sparse variant (12): wide types only
    (7, 1, 0, 11), (10, 1, 0, 12), (11, 2, 0, 11), (6, 1, 0, 12), (9, 3, 0, 12), (10, 2, 0, 11), (7, 1, 0, 12), (17, 1, 0, 11),
    (8, 1, 0, 12),
]
ODD_COMBOS = [  # configurations whose stream step raises inside the device (modelled, not judged by the oracle)
    (2, 1, 0, 1), (3, 1, 0, 2), (5, 3, 0, 5), (10, 2, 0, 1), (18, 8, 0, 1), (20, 1, 0, 1), (0, 1, 0, 1), (1, 3, 0, 8),
    (3, 3, 0, 7), (10, 1, 4, 7), (10, 1, 2, 1), (18, 4, 0, 11), (1, 0, 0, 12),
]
SMALL_COMBOS = [c for c in GOOD_COMBOS if c[1] <= 3 and c[3] != 6]     # for devices with many channels
NAMES = [b"", b"a", b"ch", "é".encode(), "ñandú".encode(), b"x" * 40, b"volt_1",
         # leading / trailing / inner blanks and tabs, blank-only names, other Unicode white space, non-BMP characters
         b" x ", b"  lead", b"trail  ", b"\tt", b"t\t", b"a b", b" ", b"\t \t", " µV ".encode(), "温度".encode(), "\u00a0n\u00a0".encode(),
         "\u2003em".encode(), "😀".encode(), b"new\nline", b"cr\r", b"\x0bvt", b"y" * 250]
NAME_ALPHABET = [" ", " ", "\t", "a", "B", "7", "_", "-", ".", "é", "ß", "µ", "温", "\u00a0", "\u2009", "😀", "\n", "x"]
RXPS = [0, 0, 4, 16, 3, 8, 1, 2, 5, 7, 17, 31, 64, 100, 255]
SNUMS = [1, 2, 3, 1, 2, 3, 4, 7, 16, 50, 99]
NCHANS = [1, 2, 3, 4, 6, 6, 11, 12, 13, 17, 40, 100, 200, 254, 255]
SLEEPS = [1, 500, 3000]         # stream_sleep in ms (virtual time): the thread sleeps at the end of a producing iteration


def gen_name(rng, short=False):
    """a channel name: from the list, or random over an alphabet with white space and multi-byte characters (NUL-free UTF-8)"""
    if rng.random() < 0.6:
        return rng.choice(NAMES[:5] + NAMES[7:12] if short else NAMES)
    return "".join(rng.choice(NAME_ALPHABET) for _ in range(rng.randrange(1, 6 if short else 12))).encode()


def vary_iface(rng, d):
    """write padding different from the rx padding the device reports (a client sets them equal; the device must not care),
    a non-zero stream_sleep"""
    if rng.random() < 0.3:
        d["wpad"] = rng.choice(RXPS)
    if rng.random() < 0.15:
        d["sleep"] = rng.choice(SLEEPS)
    return d


def gen_custom(rng, odd=False, nmax=6, big=True):
    """a custom device: 1..255 channels (mostly few), rx padding 0..255, batch sizes 1..99; in a quarter of the devices the
    channel ids given to DeviceChannel(...) are not the positions (the device addresses channels by position)"""
    n = rng.choice(NCHANS) if big and rng.random() < 0.3 else rng.choice([1, 2, 3, 4, nmax])
    many = n > 12
    chans = []
    for i in range(n):
        ty, vdim, mlen, g = rng.choice(ODD_COMBOS if odd and rng.random() < 0.4 else (SMALL_COMBOS if many else GOOD_COMBOS))
        chans.append(dict(type=ty, vdim=vdim, mlen=mlen, gen=g, en=int(rng.random() < (0.05 if many else 0.25)),
                          div=rng.choice([0, 0, 0, 7, 255]), name=gen_name(rng, short=many)))
    if rng.random() < 0.25:
        ids = rng.sample(range(256), n) if rng.random() < 0.5 else [(i + 1) % n for i in range(n)]
        for c, cid in zip(chans, ids):
            c["id"] = cid
    snum = rng.choice([1, 2, 3, 4] if many else SNUMS)
    rxp = rng.choice(RXPS)
    return vary_iface(rng, dict(kind="C", flags=rng.choice([3, 3, 0, 1, 2, 0x83]), rxp=rxp, wpad=rxp, sleep=0, snum=snum, chans=chans))


def gen_default(rng):
    rxp = rng.choice([16, 0, 8, 16, 5, 1, 33, 255])
    return vary_iface(rng, dict(kind="D", flags=rng.choice([3, 3, 3, 0, 1, 2]), rxp=rxp, wpad=rxp, sleep=0,
                                snum=rng.choice([1, 2, 3, 1, 2, 3, 4, 9, 25, 99]), chans=parse_defs("D,3,0,1")[0]["chans"]))


def en_byte(rng):
    """the value byte of an enable request: any non-zero byte is 'enabled' (a C bool on the wire)"""
    return rng.choice([0, 1, 1, 1, 0, 1, 2, 255, 128, rng.randrange(256)])


def gen_request(rng, n, kinds=None):
    """(kind, bytes) — a well-formed request for a device with n channels, in single / all / bulk form.  The channel byte
    of an ALL / BULK request is ignored by a conforming device: it is varied (0, an existing id, n, 255)"""
    k = rng.choice(kinds or ["cmninfo", "chinfo", "chinfo", "en1", "enall", "enbulk", "div1", "divall", "divbulk", "start", "start",
                             "stop"])
    anych = rng.choice([0, 0, 0, 1, max(0, n - 1), n % 256, 255, rng.randrange(256)])
    if k == "cmninfo":
        return k, req(2, [])
    if k == "chinfo":
        return k, req(3, [rng.choice([0, n - 1, rng.randrange(n)])])
    if k == "en1":
        return k, req(6, [0, rng.choice([0, n - 1, rng.randrange(n)]), en_byte(rng)])
    if k == "enall":
        return k, req(6, [2, anych, en_byte(rng)])
    if k == "enbulk":
        few = n > 12
        return k, req(6, [1, anych] + [(en_byte(rng) if rng.random() < (0.04 if few else 0.5) else 0) for _ in range(n)])
    if k == "div1":
        return k, req(7, [0, rng.choice([0, n - 1, rng.randrange(n)]), rng.choice([0, 1, 127, 128, 200, 255, rng.randrange(256)])])
    if k == "divall":
        return k, req(7, [2, anych, rng.choice([0, 3, 128, 255, rng.randrange(256)])])
    if k == "divbulk":
        return k, req(7, [1, anych] + [rng.choice([0, 1, 200, rng.randrange(256)]) for _ in range(n)])
    if k == "start":
        return k, req(5, [rng.choice([1, 1, 1, 1, 2, 255])])
    return "stop", req(5, [0])


def gen_junk(rng, n):
    """(kind, bytes) — something a conforming device must ignore"""
    k = rng.choice(["pad", "noise", "crc", "crc", "hdr", "trunc", "nosof", "empty"])
    if k == "pad":
        return k, bytes(rng.choice([rng.randrange(1, 40), rng.randrange(1, 40), 64, 255, 300]))
    if k == "empty":
        return k, b""
    if k == "noise":
        while True:
            b = bytes(rng.choice([0x55, 0, 6, 7, 1, 2, rng.randrange(256)]) for _ in range(rng.randrange(1, 30)))
            if not decodable(b):
                return k, b
    _, fr = gen_request(rng, n)
    if k == "crc":
        while True:
            b = bytearray(fr)
            i = rng.randrange(3, len(b))       # leaves start byte and length intact: checksum must catch it
            b[i] ^= 1 << rng.randrange(8)
            if rng.random() < 0.3:
                j = rng.randrange(3, len(b))
                b[j] ^= 1 << rng.randrange(8)
            if bytes(b) != fr and not decodable(bytes(b)):
                return k, bytes(b)
    if k == "hdr":
        while True:
            b = bytearray(fr)
            i = rng.randrange(0, 3)            # start byte or one of the two length bytes
            b[i] ^= 1 << rng.randrange(8)
            if rng.random() < 0.3:
                b[rng.randrange(0, len(b))] ^= 1 << rng.randrange(8)
            if bytes(b) != fr and not decodable(bytes(b)):
                return k, bytes(b)
    if k == "trunc":
        return k, fr[:rng.randrange(1, len(fr))]
    b = bytes(x for x in fr if x != 0x55) or b"\x00"
    return "nosof", b


def decodable(b):
    c = refdev.SerialCodec()
    i = c.find(b)
    return i >= 0 and c.decode_at(b, i) is not None


def gen_bad_request(rng, n):
    """well-framed requests with contents outside the protocol (the model covers them; the oracle does not judge them)"""
    k = rng.choice(["chinfo-range", "set-short", "set-flags", "single-range", "bulk-short", "wrong-id", "len"])
    if k == "chinfo-range":
        return k, req(3, [rng.choice([n, n + 1, 255]) % 256])
    if k == "set-short":
        return k, req(rng.choice([6, 7]), [rng.choice([0, 1, 2])])
    if k == "set-flags":
        return k, req(rng.choice([6, 7]), [3, 0, 1])
    if k == "single-range":
        return k, req(rng.choice([6, 7]), [0, (n + rng.randrange(3)) % 256, 1])
    if k == "bulk-short":
        return k, req(rng.choice([6, 7]), [1, 0] + [1] * max(0, n - 1))
    if k == "wrong-id":
        return k, req(rng.choice([0, 1, 4, 8]), [0] * rng.randrange(0, 4))
    return k, req(rng.choice([2, 3, 5]), [1, 2, 3])


def gen_history(rng, d, k=0, length=None, bad=0.0, junk=0.25, cycles=True):
    """ops for instance k of definition d"""
    n = len(d["chans"])
    ops = [f"{k}a"]
    pending = 0
    for _ in range(length or rng.randrange(4, 40)):
        r = rng.random()
        if r < 0.42:
            x = rng.random()
            if x < bad:
                _, b = gen_bad_request(rng, n)
            elif x < bad + junk:
                _, b = gen_junk(rng, n)
            else:
                _, b = gen_request(rng, n)
                if rng.random() < 0.15:
                    b = bytes(rng.randrange(0, 3)) + b + bytes(rng.randrange(0, 5))     # leading / trailing padding
            ops.append(f"{k}w{hexs(b)}")
            pending += 1
            if rng.random() < 0.7:
                ops += [f"{k}R"] * pending
                pending = 0
        elif r < 0.52:
            ops.append(f"{k}R")
            pending = max(0, pending - 1)
        elif r < 0.72:
            ops.append(f"{k}S")
        elif r < 0.92:
            ops.append(f"{k}r")
        elif r < 0.95:
            ops.append(f"{k}d")
        elif cycles and r < 0.975:
            ops.append(f"{k}z")
            pending = 0
        elif cycles:
            ops.append(f"{k}a")
    ops += [f"{k}R"] * pending
    ops += [f"{k}r"] * rng.randrange(0, 6) + [f"{k}d"]
    return ops


# ---------------------------------------------------------------------------------------------------------
# targeted histories: the wrap-arounds of every default generator, sparse generators, restarts
# ---------------------------------------------------------------------------------------------------------
START, STOP = req(5, [1]), req(5, [0])


def en_bulk(n, on):
    return req(6, [1, 0] + [int(i in on) for i in range(n)])


def stream_ops(k, first, rounds=1, reads=1):
    """enable request `first`, start request, then `rounds` x (stream step, `reads` reads)"""
    ops = [f"{k}w{first.hex()}", f"{k}R", f"{k}r", f"{k}w{START.hex()}", f"{k}R", f"{k}r"]
    ops += ([f"{k}S"] + [f"{k}r"] * reads) * rounds
    return ops


def wrap_lines():
    """histories that cross the wrap-arounds of ALL default generators (1000, +-1000, 10000, %255, %500) inside one batch
    or over many batches, with a restart in the falling half of the triangle wave and in the middle of the periods"""
    out = []
    # channels 1, 2, 7, 9 of the default device, 2100 rounds per batch (28 bytes a round): chan1 wraps at 1000 and 2001,
    # chan2 turns at 1001 and is falling at the restart, chan7 wraps 8 times, chan9 4 times; after the restart all four
    # begin again; a second batch after the restart crosses the wraps once more
    ops = ["0a"] + stream_ops(0, en_bulk(11, {1, 2, 7, 9}), rounds=1) + ["0z", "0r", "0a", "0S", "0r", "0S", "0r", "0d"]
    out.append(("dummy run D,3,16,2100 " + ";".join(ops), "wrap-default"))
    # chan2 over its whole period (up, down to -1001, up again): 4100 rounds, 10 bytes a round with chan1
    ops = ["0a"] + stream_ops(0, en_bulk(11, {1, 2}), rounds=1) + ["0z", "0r", "0a", "0S", "0r", "0d"]
    out.append(("dummy run D,3,0,4100 " + ";".join(ops), "wrap-default"))
    # chan6 ('hello' once every 10000 calls) alone: 10001 rounds in one batch = two samples; then many small batches
    ops = ["0a"] + stream_ops(0, en_bulk(11, {6}), rounds=2) + ["0z", "0r", "0a", "0S", "0r", "0d"]
    out.append(("dummy run D,3,8,10001 " + ";".join(ops), "wrap-default"))
    # the same wraps crossed by MANY batches of 300 rounds (per-channel order across frames), restart in between
    ops = ["0a"] + stream_ops(0, en_bulk(11, {1, 2, 5, 7, 8}), rounds=8) + ["0z", "0r", "0a"] + ["0S", "0r"] * 5 + ["0d"]
    out.append(("dummy run D,3,16,300 " + ";".join(ops), "wrap-default"))
    # custom: sparse / call-index functions next to the counters, 1500 rounds a batch
    chans = "7.1.0.11.1.0.69:10.1.0.12.1.0.73:11.1.0.2.1.0.74:5.1.0.1.1.0.75:7.3.1.7.1.0.76"
    ops = ["0a", f"0w{START.hex()}", "0R", "0r", "0S", "0r", "0S", "0r", "0z", "0r", "0a", "0S", "0r", "0d"]
    out.append((f"dummy run C,3,0,1500,{chans} " + ";".join(ops), "wrap-custom"))
    return out


def f19_line():
    """F19: a generator that returns the call index; three samples, restart, three samples: 0 1 2 | 0 1 2"""
    ops = ["0a", f"0w{START.hex()}", "0R", "0r", "0S", "0r", "0z", "0r", "0a", "0S", "0r", "0S", "0r", "0d"]
    return "dummy run C,3,0,3,7.1.0.11.1.0.63 " + ";".join(ops)


def sparse_lines():
    """the call counter advances on every call (seeded C14-r3m2): sparse functions next to dense ones, small batches"""
    out = []
    for snum, chans in ((1, "10.1.0.12.1.0.73"), (4, "7.1.0.12.1.0.73:7.1.0.11.1.0.69"), (7, "6.1.0.12.1.0.-:18.64.0.6.1.0.68:9.3.0.12.0.0.61")):
        ops = ["0a", f"0w{START.hex()}", "0R", "0r"] + ["0S", "0r"] * 5 + ["0d", "0z", "0r", "0a"] + ["0S", "0r"] * 4 + ["0d"]
        out.append((f"dummy run C,3,0,{snum},{chans} " + ";".join(ops), "sparse"))
    return out


def names_line():
    """channel names with leading / trailing / inner white space, a blank-only name, multi-byte characters: the channel-info
    response must carry exactly the bytes of the definition (reviewer edit U1: `.strip()` in the device-side encoder);
    channel ids that are not the positions, write padding different from rx padding"""
    names = [" x ", "\tt", "t\t", "a b", " ", "温度 ", "\u00a0n\u00a0", "  two  words  ", "😀 ", "plain"]
    chans = ":".join(f"10.1.0.1.{i % 2}.0.{nm.encode().hex()}.{(i * 7 + 3) % 256}" for i, nm in enumerate(names))
    ops = ["0a"]
    for c in range(len(names)):
        ops += [f"0w{req(3, [c]).hex()}", "0R", "0r"]
    ops += [f"0w{req(2, []).hex()}", "0R", "0r", "0d"]
    return f"dummy run C,3,8/3,2,{chans} " + ";".join(ops)


def late_default_line():
    """a default device constructed (`1n`) after another one has been configured and is streaming: it answers like a
    fresh default device (nothing enabled, dividers 0, generators at their first value)"""
    enall, div, start = req(6, [2, 0, 1]).hex(), req(7, [2, 0, 9]).hex(), req(5, [1]).hex()
    ops = ["0a", f"0w{enall}", "0R", "0r", f"0w{div}", "0R", "0r", f"0w{start}", "0R", "0r", "0S", "0r", "0S", "0r",
           "1n", "1d", "1a", f"1w{req(2, []).hex()}", "1R", "1r"]
    for c in (0, 1, 7, 10):
        ops += [f"1w{req(3, [c]).hex()}", "1R", "1r"]
    ops += [f"1w{enall}", "1R", "1r", f"1w{start}", "1R", "1r", "1S", "1r", "0S", "0r", "1d", "0d"]
    return "dummy run D,3,16,3+D,3,16/0,2 " + ";".join(ops)


def line_of(defs, ops):
    return "dummy run " + "+".join(def_str(d) for d in defs) + " " + ";".join(ops)


def parse_line(line):
    t = line.split(" ")
    return parse_defs(t[2]), t[3].split(";")


def impl_line(line):
    defs, ops = parse_line(line)
    try:
        out, info = run_history(defs, ops)
    except Exception as e:  # noqa: BLE001
        return "sim-failure " + type(e).__name__ + ": " + str(e)[:120]
    return "ok " + " ".join(out)


# ---------------------------------------------------------------------------------------------------------
# the property, judged on a transcript (independent of nxslib and of the Lean model)
# ---------------------------------------------------------------------------------------------------------
FRAC = {12: 8, 13: 8, 14: 16, 15: 16, 16: 32, 17: 32}
INT_RANGE = {"B": (0, 255), "b": (-128, 127), "H": (0, 65535), "h": (-32768, 32767), "I": (0, 2**32 - 1),
             "i": (-2**31, 2**31 - 1), "Q": (0, 2**64 - 1), "q": (-2**63, 2**63 - 1)}


def is_num(x):
    return isinstance(x, (int, float)) and not isinstance(x, bool)


def value_fits(c, val):
    """can a conforming device stream this generator output on this channel: the value fits the declared type / dimension /
    metadata size (a value that does not fit makes the device's encoder raise — modelled, not judged)"""
    data, meta = val
    if any(x is NotImplemented for x in list(data) + list(meta)):
        return False
    t = c["type"] & 0x1F
    if t not in sg.STD:
        return False
    code = sg.STD[t][0]
    if not data and not meta:
        return False                         # a sample with neither data nor metadata is not a sample
    if code == "":
        ok = c["vdim"] == 0 and len(data) == 0
    elif code == "s":
        ok = c["vdim"] >= 1 and len(data) == 1 and isinstance(data[0], str)
    else:
        if len(data) != c["vdim"] or not all(is_num(x) for x in data):
            return False
        if code in "fd":
            ok = True
        elif t in FRAC:
            lo, hi = INT_RANGE[code]
            ok = all(lo <= x * (1 << FRAC[t]) <= hi for x in data)
        else:
            lo, hi = INT_RANGE[code]
            ok = all(isinstance(x, int) and lo <= x <= hi for x in data)
    ml = c["mlen"]
    if ml != 0:
        ok = ok and (len(meta) == 1 if ml in (1, 2, 4, 8) else len(meta) == ml)
        ok = ok and all(isinstance(x, int) and not isinstance(x, bool) for x in meta)
        ok = ok and all(0 <= x < (1 << (8 * ml) if ml in (1, 2, 4, 8) else 256) for x in meta)
    return ok


def harness_next(gen, state, vdim, calls):
    """next output of a generator the HARNESS defines (kinds 10, 11, 12: `vec_func` / `idx_func` above): (data, meta) or None;
    `calls` = how many times the channel was sampled since the last start (what the function is handed as `cntr`)"""
    if gen == 11:
        return [calls] * vdim, []
    if gen == 12:
        return ([calls] * vdim, []) if calls % 3 == 0 else None
    if gen == 10:
        state["c"] = state.get("c", 0) + 1
        if state["c"] > 1000:
            state["c"] = 0
        return [state["c"]] * vdim, []
    raise ValueError(gen)


def expect_sample_bytes(c, val):
    """wire bytes (data, meta) of one sample of channel definition c carrying generator value val (reference encoder);
    data = None when the value has no exact wire form (a fixed-point value between two steps): structure only"""
    data, meta = val
    t = c["type"] & 0x1F
    code = sg.STD[t][0]
    if code == "s":
        db = (data[0].encode("utf-8") + bytes(c["vdim"]))[:c["vdim"]]
    else:
        db = b""
        for x in data:
            if code == "f":
                db += struct.pack("<f", float(x))
            elif code == "d":
                db += struct.pack("<d", float(x))
            else:
                v = x * (1 << FRAC.get(t, 0))
                if v != int(v):
                    db = None
                    break
                db += struct.pack("<" + code, int(v))
    ml = c["mlen"]
    if ml == 0:
        mb = b""
    elif ml in (1, 2, 4, 8):
        mb = int(meta[0]).to_bytes(ml, "little")
    else:
        mb = bytes(meta)
    return db, mb


class Judge:
    """one conforming device per instance (harness/refdev.py RefDevice for requests; for the stream: each channel's samples
    are the outputs of a FRESH generator object of its class since the last start, in order, none lost or repeated), fed
    with the same ops; every observation of the transcript is compared with it.

    The device's DEFINITION is not copied from dummy.py: for a default device it is what `snapshot` read from the
    constructed device object before its history started (`info["snap"]`); for a custom device it is the definition the
    harness gave to the constructor.  The generator CLASS of a channel comes from the object as well; what a fresh object
    of that class yields is asked of a fresh interpreter (`Fresh`), so neither the default table nor the generators'
    constants are known here.  Nothing of the device's protocol code (encoders, callbacks, queues) is used."""

    def __init__(self, defs, info, ops=()):
        self.codec = refdev.SerialCodec()
        self.insts = []
        snaps = info.get("snap") or [None] * len(defs)
        nsteps = {}                          # batches an instance can build at most (stream steps and stops)
        for o in ops:
            if o[1] in "Sz":
                nsteps[int(o[0])] = nsteps.get(int(o[0]), 0) + 1
        for k, d in enumerate(defs):
            snap = snaps[k]
            if snap is None:                 # never constructed in this run (a late instance whose `n` op was not run)
                self.insts.append(None)
                continue
            if d["kind"] == "A":
                base = self.insts[d["alias"]]
                rd = refdev.RefDevice([], flags=d["flags"], rxpadding=d["rxp"])
                rd.chans = base["ref"].chans          # the same channel objects
                gst, chans = base["gst"], base["chans"]
            else:
                if d["kind"] == "D":
                    # the definition of the device that was constructed (channel count, types, names, generator classes)
                    chans = [dict(type=c["type"], vdim=c["vdim"], mlen=c["mlen"], name=c["name"], en=c["en"], div=c["div"],
                                  src=None if c["func"] is None else ("class", c["func"][0], c["func"][1])) for c in snap["chans"]]
                else:
                    chans = []
                    for c, sc in zip(d["chans"], snap["chans"]):
                        g = c["gen"]
                        src = None if g is None else (("harness", g) if g in HARNESS_GENS else ("class", sc["func"][0], sc["func"][1]))
                        chans.append(dict(type=c["type"], vdim=c["vdim"], mlen=c["mlen"], name=c["name"].decode("utf-8"),
                                          en=bool(c["en"]), div=c["div"], src=src))
                rd = refdev.RefDevice([dict(en=bool(c["en"]), type=c["type"], vdim=c["vdim"], div=c["div"], mlen=c["mlen"],
                                            name=c["name"]) for c in chans], flags=d["flags"], rxpadding=d["rxp"])
                gst = [dict() for _ in chans]
            self.insts.append(dict(ref=rd, d=d, chans=chans, qw=[], expect=[], running=False, gst=gst, tainted=False,
                                   stream_dead=False, recv_dead=False, hint=(nsteps.get(k, 0) + 1) * d["snum"]))
        Fresh.need(sorted({(c["src"][1], c["src"][2]) for I in self.insts if I for c in I["chans"]
                           if c["src"] and c["src"][0] == "class"}))

    def deterministic(self, c):
        """is the channel's sample sequence a function of the number of calls since the last start"""
        if c["src"] is None or c["src"][0] == "harness":
            return True
        return Fresh.output(c["src"][1:], 0)[1]

    # -- requests ------------------------------------------------------------------------------------------
    def classify(self, I, data):
        """None: a conforming device ignores the write; 'taint': a frame outside the protocol; else (fid, payload)"""
        n = len(I["chans"])
        i = self.codec.find(data)
        fr = self.codec.decode_at(data, i) if i >= 0 else None
        if fr is None:
            return None
        fid, p, _ = fr
        ok = (fid == 2 and len(p) == 0) or (fid == 3 and len(p) == 1 and p[0] < n) or (fid == 5 and len(p) == 1) or \
             (fid in (6, 7) and len(p) >= 3 and ((p[0] == 0 and p[1] < n and len(p) == 3) or (p[0] == 2 and len(p) == 3)
                                                 or (p[0] == 1 and len(p) == 2 + n)))
        return (fid, p) if ok else "taint"

    def recv_one(self, I):
        """the device takes the next write: the reference device answers; expected frames are queued"""
        data = I["qw"].pop(0)
        c = self.classify(I, data)
        if c is None:
            return
        if c == "taint":
            I["tainted"] = True
            return
        rd = I["ref"]
        before = len(rd.rx)
        rd.handle(*c)
        resp = bytes(rd.rx[before:])
        del rd.rx[before:]
        if resp:
            I["expect"].append(("frame", resp))

    def batch(self, I):
        """the stream thread builds one batch: which channels, how many rounds"""
        rd, d = I["ref"], I["d"]
        en = [i for i, c in enumerate(rd.chans) if c["en"]]
        snap = dict(en=en, snum=d["snum"])
        exp = self.batch_samples(I, snap)          # generator outputs are taken when the batch is built
        if exp is None:
            I["tainted"] = True                    # a value that does not fit its channel: the encoder raises (not judged)
            return
        I["last_bytes"] = self.batch_bytes(I, exp)
        if exp and I["last_bytes"] <= 65529:
            I["expect"].append(("stream", snap, exp))

    def batch_bytes(self, I, exp):
        """payload size of the batch: flags byte + (channel id + data + metadata) of every sample actually produced"""
        chans = I["chans"]
        tot = 1
        for c, _ in exp:
            a, b = sample_size(chans[c])
            tot += 1 + a + b
        return tot

    def batch_samples(self, I, snap):
        """expected samples [(chan, value or None = structure only)] of a batch; advances the call counts.  A channel with a
        function is sampled once per round while enabled; sample number j since the last start carries output j of a fresh
        generator object of the channel's class (no sample where that output is None).  None: a value does not fit."""
        chans = I["chans"]
        gst = I["gst"]
        exp = []
        for _ in range(snap["snum"]):
            for c in snap["en"]:
                src = chans[c]["src"]
                if src is None:
                    continue
                calls = gst[c].get("n", 0)        # every sampling of the channel counts, whether or not it yields a sample
                gst[c]["n"] = calls + 1
                if src[0] == "harness":
                    v, det = harness_next(src[1], gst[c], chans[c]["vdim"], calls), True
                else:
                    v, det = Fresh.output(src[1:], calls, I["hint"])
                    if v == "unknown":
                        return None               # a generator class that cannot be re-created: not judged
                if v is None:
                    continue
                if not value_fits(chans[c], v):
                    return None
                if not det and sg.STD[chans[c]["type"] & 0x1F][0] not in "fd":
                    return None                   # unpredictable values on an integer / fixed-point channel: not judged
                exp.append((c, v if det else None))
        return exp

    def check_stream(self, I, snap, exp, payload):
        chans = I["chans"]
        ss = split_stream(payload, chans)
        if ss is None:
            return {"key": "stream-malformed", "what": "stream frame does not parse against the device's own channel table",
                    "expected": "flags byte + samples", "observed": payload.hex()[:200]}
        if payload[0] != 0:
            return {"key": "stream-flags", "what": "stream flags byte is not 0", "expected": 0, "observed": payload[0]}
        got = [x[0] for x in ss]
        if any(c not in snap["en"] for c in got):
            return {"key": "disabled-channel-streamed", "what": "stream frame carries samples of a channel that is not enabled",
                    "expected": f"only channels {snap['en']}", "observed": got[:40]}
        if got != [c for c, _ in exp]:
            return {"key": "stream-order", "what": "samples are not one per enabled channel per round in channel order (loss / repetition / order)",
                    "expected": [c for c, _ in exp][:40], "observed": got[:40]}
        for (c, v), (_, db, mb) in zip(exp, ss):
            if v is None:
                continue
            edb, emb = expect_sample_bytes(chans[c], v)
            if edb is None:
                edb = db
            if db != edb or mb != emb:
                return {"key": "generator-order", "what": f"channel {c}: sample is not the next value a fresh generator of its class yields "
                        "since the last start (loss, repetition or missing reset)", "expected": f"{edb.hex()} meta {emb.hex()}", "observed": f"{db.hex()} meta {mb.hex()}"}
        return None

    # -- ops -----------------------------------------------------------------------------------------------------
    def died(self, I, tok, where, info, stream):
        if I["tainted"]:
            return None
        if stream and I.get("last_bytes", 0) > 65529:
            return {"key": "batch-too-large", "what": f"a stream batch larger than one frame payload (65 529 bytes) raises in the device's stream "
                    f"thread and ends it ({where}: {tok})", "expected": "the batch split over several frames", "observed": tok,
                    "batch_bytes": I.get("last_bytes", 0)}
        return {"key": "stream-thread-died" if stream else "recv-thread-died",
                "what": f"a device thread died on input the property covers ({where}): {tok} {info.get('errors', [])[-1:]}",
                "expected": "request answered / ignored, stream frame produced", "observed": tok}

    def op(self, idx, op, tok, info):
        k, code, arg = int(op[0]), op[1], op[2:]
        I = self.insts[k]
        if code == "n" or I is None:
            return None                        # construction: the instance's definition was read when it was constructed
        rd = I["ref"]
        where = f"op {idx} `{op[:40]}`"
        if code == "w":
            data = b"" if arg == "-" else bytes.fromhex(arg)
            wp = I["d"].get("wpad", I["d"]["rxp"])
            if wp and len(data) % wp:
                data += bytes(wp - len(data) % wp)     # the interface pads every write to a multiple of its write padding
            I["qw"].append(data)
        elif code == "a":
            I["running"] = True
            for g in I["gst"]:
                g.clear()                      # start() resets every generator
        elif code == "R":
            if I["running"] and not I["recv_dead"] and I["qw"]:
                self.recv_one(I)
            if tok.startswith("!"):
                I["recv_dead"] = True
                return self.died(I, tok, where, info, False)
        elif code == "S":
            if I["running"] and not I["stream_dead"] and rd.started:
                self.batch(I)
            if tok.startswith("!"):
                I["stream_dead"] = True
                return self.died(I, tok, where, info, True)
        elif code == "z":
            if I["running"]:
                # thread_stop: the stream thread finishes its iteration (one more batch iff started); while it still waits for
                # the start event the receive thread keeps taking requests; then the receive thread takes at most one more
                while not rd.started and I["qw"] and not I["recv_dead"] and not I["tainted"]:
                    self.recv_one(I)
                if rd.started and not I["stream_dead"] and not I["tainted"]:
                    self.batch(I)
                if I["qw"] and not I["recv_dead"] and not I["tainted"]:
                    self.recv_one(I)
            if tok.startswith("!") and not I["tainted"]:
                r = self.died(I, tok, where, info, "struct" in tok or "key" in tok)
                if r:
                    return r
            I["running"] = False
            I["recv_dead"] = I["stream_dead"] = False
            # stop() drops one queued item of each queue
            if I["qw"]:
                I["qw"].pop(0)
            if I["expect"]:
                I["expect"].pop(0)
        elif code == "r":
            if I["tainted"]:
                return None
            if tok == "-":
                if I["expect"]:
                    e = I["expect"][0]
                    return {"key": "response-missing", "what": f"no response where a conforming device answers ({where})",
                            "expected": e[1].hex() if e[0] == "frame" else "stream frame", "observed": "nothing"}
                return None
            if not I["expect"]:
                return {"key": "stream-while-stopped" if tok.startswith("S") and not rd.started else "unexpected-frame",
                        "what": f"the device sent a frame nothing asked for ({where})", "expected": "nothing", "observed": tok[:120]}
            e = I["expect"].pop(0)
            if e[0] == "frame":
                if tok != e[1].hex():
                    return {"key": "wrong-response", "what": f"response differs from what a conforming NxScope device answers ({where})",
                            "expected": e[1].hex(), "observed": tok[:200]}
                return None
            if not tok.startswith("S"):
                return {"key": "wrong-response", "what": f"a stream frame was due ({where})", "expected": "stream frame", "observed": tok[:120]}
            r = self.check_stream(I, e[1], e[2], bytes.fromhex(tok[1:]))
            if r:
                r["what"] += f" ({where})"
            return r
        elif code == "d":
            if I["tainted"]:
                return None
            f = tok.split("/")
            en = "".join("1" if x else "0" for x in rd.en)
            dv = ",".join(str(x) for x in rd.div)
            if f[0] != en or f[1] != dv:
                return {"key": "state-differs", "what": f"enable / divider state differs from the state the requests sent so far define ({where})",
                        "expected": f"{en}/{dv}", "observed": f"{f[0]}/{f[1]}"}
            if int(f[2]) != int(rd.started):
                return {"key": "stream-flag", "what": f"stream started flag differs ({where})", "expected": int(rd.started), "observed": f[2]}
        return None


def judge(defs, ops, out, info):
    """C14 on a transcript.  Returns None or a violation dict."""
    if len(out) != len(ops):
        return {"key": "harness", "what": "transcript length", "expected": len(ops), "observed": len(out)}
    J = Judge(defs, info, ops)
    for idx, (op, tok) in enumerate(zip(ops, out)):
        r = J.op(idx, op, tok, info)
        if r:
            return r
    return None


def oracle_line(line):
    defs, ops = parse_line(line)
    ORACLE_MODE[0] = True
    try:
        try:
            out, info = run_history(defs, ops)
        except Exception as e:  # noqa: BLE001
            return {"key": "device-hangs", "what": f"the history does not run to completion: {type(e).__name__}: {e}",
                    "expected": "every op returns", "observed": type(e).__name__}
        return judge(defs, ops, out, info)
    finally:
        ORACLE_MODE[0] = False


F17_LINE = None


def f17_line():
    chans = ":".join(["11.64.0.10.1.0.64"] * 4)
    ops = ["0a", "0w" + req(5, [1]).hex(), "0R", "0r", "0S", "0r", "0S", "0d"]
    return f"dummy run C,3,0,100,{chans} " + ";".join(ops)


class C14(Prop):
    id = "C14"
    lean_module = "NxsModel.Props.C14"
    rule = ("random histories (write / receive-thread step / stream-thread step / read / start / stop, 5..70 ops) on the real "
            "DummyDev under the virtual-time runtime in pre-emptive mode with an op-directed chooser; device definitions: default "
            "channel set and custom lists of 1..255 channels over 50 type/dimension/metadata/generator combinations (dummy.py's ten "
            "functions, user-defined vector function, user-defined functions of the call index: dense and sparse), channel names "
            "with leading / trailing / inner white space, tabs, multi-byte characters (list of 25 + random), channel ids that are "
            "not the positions, flags with and without ACK / divider support, rx padding 0..255, write padding equal to or "
            "different from it, stream_sleep 0 / 1 ms / 0.5 s / 3 s, batch sizes 1..99 (and 100, 300..10001 in the wrap-around "
            "histories that cross the periods 1000 / +-1000 / 10000 / 255 / 500 of every default generator); requests in single / "
            "all / bulk form built by the independent encoder with any channel byte in all / bulk form and any non-zero value "
            "byte for 'enabled', padding-only writes, noise, truncated, start-byte-free requests, requests with bit flips in the "
            "checksummed part and in the start / length bytes, requests outside the protocol (unknown channel, short or "
            "mis-flagged set requests, wrong ids); every token of the transcript (responses, stream payloads with unmodelled "
            "generator values masked, thread deaths, state dumps with call counters) is compared with the model; distinct = "
            "distinct line; non-trivial = history with at least one answered request or stream frame")
    assumptions = ["virtual-time runtime (harness/vsim.py) preserves queue / lock / event / thread semantics",
                   "thread iterations are atomic (method granularity): schedules are outside the property's quantifier — with real threads "
                   "a batch can be sampled and queued after a stop request was acknowledged (`_thread_stream` waits on the event, then "
                   "takes the lock; `_start_cb` clears the event outside the lock), and stop() races with a batch being built",
                   "reference device (harness/refdev.py) is a conforming NxScope device; the oracle takes the device's definition from the "
                   "constructed device object (default devices) / from what the harness passed (custom devices) and a channel's expected "
                   "sample sequence from a fresh object of its generator class created in a fresh interpreter",
                   "values of generator classes that are not deterministic (two fresh objects differ under different `random` seeds: "
                   "ChannelFunc0,3,4) are compared by structure only; the sine generator (ChannelFunc9) by value in oracle runs only",
                   "channel names are valid NUL-free UTF-8 (a `str` name with a lone surrogate makes the channel-info encoder raise in "
                   "the receive thread: not expressible in the model's byte-list names)",
                   "stream theorems hold under BatchFits (known finding F17 at the excluded point)",
                   "a CRC-valid frame that is not a request (ACK / STREAM id, common-info request with a payload) ends DummyDev's receive "
                   "thread (AssertionError): outside the property's quantifier (padding, noise, CRC-damaged requests); modelled, not judged",
                   "only the first frame of one write() is handled (the nxslib client never batches requests)",
                   "stop() drops one queued item of each queue; other queued writes / unread frames survive a restart (modelled)"]

    def cases(self, rng, tier):
        T = tier == "thorough"
        for it in range(2000 if T else 440):
            r = it % 10
            if r < 4:
                d = gen_default(rng)
                tag = "default"
            elif r < 8:
                d = gen_custom(rng)
                tag = "custom" if len(d["chans"]) <= 12 else "custom-many"
            else:
                d = gen_custom(rng, odd=True)
                tag = "custom-odd"
            bad = 0.12 if r in (3, 7, 9) else 0.0
            many = len(d["chans"]) > 40
            ops = gen_history(rng, d, bad=bad, length=rng.randrange(5, (30 if many else 70) if T else (20 if many else 45)))
            yield line_of([d], ops), tag + ("-bad" if bad else "")
        # the default device with the default batch size, every channel enabled
        ops = ["0a", "0w" + req(6, [2, 0, 1]).hex(), "0R", "0r", "0w" + req(5, [1]).hex(), "0R", "0r", "0S", "0r", "0S", "0r", "0z", "0a",
               "0S", "0r", "0d"]
        yield "dummy run D,3,16,100 " + ";".join(ops), "default-snum100"
        yield f17_line(), "oversize-batch"
        yield f19_line(), "call-index"
        yield names_line(), "names"
        yield late_default_line(), "late-default"
        for line, tag in sparse_lines() + wrap_lines():
            yield line, tag

    def impl(self, line):
        return impl_line(line)

    def nontrivial(self, line, out):
        return any(len(t) > 8 for t in out.split(" ")[1:])

    def oracle(self, line, impl_out=None):
        return oracle_line(line)

    def targeted(self):
        return [(f19_line(), "call-index"), (names_line(), "names"), (late_default_line(), "late-default")] + sparse_lines() + wrap_lines()

    def search_cases(self, rng):
        out = list(self.targeted())
        for it in range(120):
            d = gen_default(rng) if it % 2 else gen_custom(rng)
            out.append((line_of([d], gen_history(rng, d, junk=0.3, length=rng.randrange(8, 40))), "search"))
        return out

    def extra_checks(self, rng, tier, ev):
        viol = []
        # known finding F17 is re-executed on the real code every run
        v = oracle_line(f17_line())
        if v:
            v["case"] = f17_line()
            viol.append(v)
        # the property oracle on the targeted histories (call index, sparse functions, wrap-arounds + restart) ...
        n = 0
        for line, _ in self.targeted():
            v = oracle_line(line)
            n += 1
            if v and len(viol) < 4:
                v["case"] = line
                viol.append(v)
        # ... and on a sample of the generated histories (independent of the model)
        for it in range(150 if tier == "thorough" else 100):
            d = gen_default(rng) if it % 2 else gen_custom(rng)
            line = line_of([d], gen_history(rng, d, junk=0.35, length=rng.randrange(8, 40)))
            v = oracle_line(line)
            n += 1
            if v and len(viol) < 4:
                v["case"] = line
                viol.append(v)
        ev["coverage"]["oracle_histories"] = n
        return viol


PROP = C14()
