"""C09 — connect / stream / disconnect behave as a clean, repeatable life cycle."""
from common import Prop, hexs, exc_name
import vsim
import refdev
import sessionlib as sl


def parse_line(line):
    t = line.split(" ")
    en = [] if t[3] == "-" else [c == "1" for c in t[3]]
    div = [] if t[4] == "-" else [int(x) for x in t[4].split(",")]
    return int(t[2]), en, div, int(t[5]), t[6].split(";")


def run_calls(flags, en, div, started, calls, rich=None):
    """the real NxscopeHandler under vsim against the reference device; per-call state strings"""
    out = []
    info = {}

    def scenario(sim):
        from nxslib.nxscope import NxscopeHandler
        from nxslib.proto.parse import Parser
        dev = refdev.RefDevice(sl.mk_chans(en, div), flags=flags)
        dev.started = bool(started)
        link = refdev.make_link(sim, dev, stream_every=4)
        nx = NxscopeHandler(link, Parser())
        queues = []
        descs = []
        for call in calls:
            wn = call.endswith("!")
            c = call[:-1] if wn else call
            w0 = len(link.writes)
            t0 = sim.now
            req0 = dev.nreq
            res = "ok"
            try:
                if c == "C":
                    d = nx.connect()
                    descs.append((d.data.chmax, d.data.flags, d.data.rxpadding,
                                  tuple((ch.data._type, ch.data.vdim, ch.data.mlen, ch.data.name) for ch in d._channels)))
                elif c == "X":
                    nx.disconnect()
                elif c == "S":
                    nx.stream_start()
                elif c == "T":
                    nx.stream_stop()
                elif c == "W":
                    nx.channels_write()
                elif c == "N":
                    nx.ch_disable_all(wn)
                elif c == "D":
                    nx.channels_default_cfg(wn)
                elif c[0] == "s":
                    queues.append(nx.stream_sub(int(c[1:])))
                elif c[0] == "u":
                    k = int(c[1:])
                    if k < len(queues):
                        nx.stream_unsub(queues[k])
                elif c[0] == "g":
                    nx.dev_channel_get(int(c[1:]))
                elif c[0] == "e":
                    nx.ch_enable([int(x) for x in c[1:].split(",") if x], wn)
                elif c[0] == "d":
                    nx.ch_disable([int(x) for x in c[1:].split(",") if x], wn)
                elif c[0] == "v":
                    v, cs = c[1:].split(":")
                    nx.ch_divider([int(x) for x in cs.split(",") if x], int(v), wn)
                else:
                    raise ValueError(call)
            except Exception as e:
                res = exc_name(e)
            live = {t.name for t in sim.live_tasks()}
            written = link.writes[w0:]
            st = "".join(str(int(b)) for b in (nx._connected, nx._comm._started, nx._comm._dev is not None,
                                               nx._stream_started, "recv" in live, "stream" in live,
                                               link.started - link.stopped > 0))
            subs = ",".join(".".join(str(queues.index(q)) for q in l) for l in nx._sub_q)
            out.append(f"r={res};w={','.join(hexs(x) for x in written) or '-'};st={st};"
                       f"dev={sl.bits(dev.en)}/{sl.ints(dev.div)}/{int(dev.started)};subs={subs}")
            if rich is not None:
                rich.append({"call": call, "res": res, "dt": sim.now - t0, "nreq": dev.nreq - req0, "live": sorted(live),
                             "connected": nx._connected, "dev": nx.dev is not None, "dev_en": dev.en, "dev_started": dev.started})
        info["descs"] = descs
        # leave nothing behind
        nx.disconnect()
        info["live_end"] = [t.name for t in sim.live_tasks()]

    r, sim = vsim.run_sim(scenario, time_limit=600.0, real_limit=20.0)
    info["errors"] = [(n, repr(e)) for n, e, _ in sim.errors]
    if isinstance(r, BaseException):
        raise r
    return out, info


CALLS = ["C", "X", "S", "T", "W", "N", "N!", "D", "D!"]


def gen_calls(rng, n, length, p_connect=0.2):
    out = []
    nq = 0
    for _ in range(length):
        r = rng.random()
        if r < p_connect:
            out.append("C")
        elif r < p_connect + 0.13:
            out.append("X")
        elif r < 0.45:
            out.append(rng.choice(["S", "T", "S", "W"]))
        elif r < 0.55:
            out.append(f"s{rng.randrange(n + 1)}")
            nq += 1
        elif r < 0.6 and nq:
            out.append(f"u{rng.randrange(nq)}")
        elif r < 0.75:
            cs = ",".join(str(rng.randrange(n)) for _ in range(rng.choice([1, 1, 2])))
            out.append(rng.choice(["e", "d"]) + cs + rng.choice(["", "!"]))
        elif r < 0.85:
            out.append(f"v{rng.choice([0, 3, 200, 255, 256, -1])}:{rng.randrange(n)}" + rng.choice(["", "!"]))
        elif r < 0.93:
            out.append(rng.choice(["N", "N!", "D", "D!"]))
        else:
            out.append(f"g{rng.randrange(n + 1)}")
    return out


class C09(Prop):
    id = "C09"
    lean_module = "NxsModel.Props.C09"
    rule = ("call histories over the public API of the high-level handler (connect, disconnect, stream start/stop, "
            "subscribe/unsubscribe, buffered configuration with and without writenow, write, channel lookup): every "
            "sequence of length <= 3 over 9 representative calls (thorough: <= 4), plus random histories of length "
            "<= 25, from an idle device and from a device left streaming with channels enabled; executed on the real "
            "NxscopeHandler under the virtual-time runtime against the reference device; per call: result / exception "
            "kind, frames written, handler flags, live library threads, interface state, device state, subscriber lists "
            "are compared with the model; distinct = distinct line; non-trivial = history containing a connect")

    def cases(self, rng, tier):
        T = tier == "thorough"
        import itertools
        base = ["C", "X", "S", "T", "e0!", "W", "s0", "N!", "v5:1"]
        for k in range(1, (5 if T else 4)):
            for seq in itertools.product(base, repeat=k):
                if k == 4 and rng.random() > 0.25:
                    continue
                started = rng.randrange(2)
                yield f"life run 3 {'010' if started else '000'} 0,{5 if started else 0},0 {started} {';'.join(seq)}", f"exhaustive-{k}"
        # a device without channels (F18): connect, stream, write, disconnect must still be a clean life cycle
        zero = ["C", "X", "S", "T", "W", "N", "N!", "D", "D!", "s0", "g0", "e0", "e0!", "v5:0!", "u0"]
        yield "life run 3 - - 0 C;S;X;X", "zero-channels"
        yield "life run 3 - - 1 C;X;C;W;N!;X", "zero-channels"
        for _ in range(60 if T else 20):
            yield (f"life run {rng.randrange(4)} - - {rng.randrange(2)} "
                   f"{';'.join(rng.choice(zero) for _ in range(rng.randrange(2, 12)))}"), "zero-channels"
        yield f"life run 3 {'0' * 254 + '1'} {','.join(['0'] * 255)} 1 C;e3!;S;X;C;X", "255-channels"
        for _ in range(800 if T else 150):
            n = rng.choice([1, 2, 3, 5])
            en = [rng.random() < 0.4 for _ in range(n)]
            div = [rng.choice([0, 0, 7]) for _ in range(n)]
            yield (f"life run {rng.randrange(4)} {sl.bits(en)} {sl.ints(div)} {rng.randrange(2)} "
                   f"{';'.join(gen_calls(rng, n, rng.randrange(1, 26)))}"), "random"

    def impl(self, line):
        flags, en, div, started, calls = parse_line(line)
        out, info = run_calls(flags, en, div, started, calls)
        if info["errors"] or info["live_end"]:
            return "harness: " + repr(info["errors"]) + repr(info["live_end"])
        return "ok " + " | ".join(out)

    def nontrivial(self, line, out):
        return "C" in line.split(" ")[6]

    def oracle(self, line, impl_out=None):
        flags, en, div, started, calls = parse_line(line)
        rich = []
        try:
            out, info = run_calls(flags, en, div, started, calls, rich)
        except Exception as e:
            key = "does-not-terminate" if type(e).__name__ in ("RealTimeLimit", "TimeLimit", "Spin", "Deadlock") else "session-raises"
            return {"key": key, "what": f"{type(e).__name__}: {str(e)[:300]}", "expected": "-", "observed": "-"}
        if info["errors"] and any(k in info["errors"][0][1] for k in ("TimeLimit", "Spin", "Deadlock")):
            return {"key": "does-not-terminate", "what": "a call did not return within the virtual time budget: " + repr(info["errors"][0]),
                    "expected": "every call returns or raises in bounded time", "observed": info["errors"][0][1][:200]}
        if info["errors"]:
            return {"key": "thread-died", "what": "library thread died: " + repr(info["errors"][0]), "expected": "-", "observed": "-"}
        if info["live_end"]:
            return {"key": "thread-left", "what": f"threads alive after final disconnect: {info['live_end']}", "expected": "none", "observed": info["live_end"]}
        if len(set(info["descs"])) > 1:
            return {"key": "description-changed", "what": "reconnect reported a different static description", "expected": info["descs"][0], "observed": info["descs"]}
        connected = False
        for i, r in enumerate(rich):
            c = r["call"].rstrip("!")
            if not connected and c != "C":
                # calls on the disconnected high-level handler never reach the device, start threads or block
                if r["nreq"] or r["live"] or r["dt"] > 1e-9:
                    return {"key": "disconnected-not-inert", "what": f"call {r['call']} while disconnected reached the device / started a thread / blocked",
                            "expected": "inert", "observed": f"requests={r['nreq']} live={r['live']} dt={r['dt']}", "history": calls[:i + 1]}
            if c == "C":
                if connected and r["nreq"]:
                    return {"key": "connect-not-idempotent", "what": "connect on a connected handler talked to the device", "expected": "0 requests", "observed": r["nreq"]}
                connected = True
                if not r["dev"]:
                    return {"key": "no-description", "what": "connect returned without a device description", "expected": "-", "observed": "-"}
            if c == "X":
                if not connected and r["nreq"]:
                    return {"key": "disconnect-not-idempotent", "what": "disconnect on a disconnected handler talked to the device", "expected": "0", "observed": r["nreq"]}
                was = connected
                connected = False
                if r["dev"] or r["live"] or (was and (any(r["dev_en"]) or r["dev_started"])):
                    return {"key": "after-disconnect", "what": "after disconnect: description still reported / thread alive / device still enabled or streaming",
                            "expected": "no description, no thread, all channels disabled, stream stopped",
                            "observed": f"dev={r['dev']} live={r['live']} en={r['dev_en']} started={r['dev_started']}", "history": calls[:i + 1]}
        return None


PROP = C09()
