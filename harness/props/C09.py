"""C09 — connect / stream / disconnect behave as a clean, repeatable life cycle."""
import itertools

from common import Prop
import lifelib as ll

NX_BASE = ["C", "X", "S", "T", "e0!", "W", "s0", "N!", "v5:1", "u0", "g0", "D", "d0"]
COMM_BASE = ["C", "X", "S", "T", "e0", "W", "A", "N", "v5:1", "D"]
OUTCOMES = ["a", "a", "a", "x", "l", "n1", "n-5", "n255"]


def gen_calls(rng, n, length, mode="nx", p_connect=0.2, p_fail=0.0):
    """a random history over the public calls; channel ids from -n-1 .. n (both ends out of range)"""
    out = []
    nq = 0
    nx = mode == "nx"

    def chan():
        r = rng.random()
        if r < 0.75 or n == 0:
            return rng.randrange(n + 1) if (n == 0 or rng.random() < 0.08) else rng.randrange(n)
        return -rng.randrange(1, n + 2)

    def wn():
        return rng.choice(["", "!"]) if nx else ""

    for _ in range(length):
        r = rng.random()
        if r < p_connect:
            c = "C"
        elif r < p_connect + 0.13:
            c = "X"
        elif r < 0.45:
            c = rng.choice(["S", "T", "S", "W"])
        elif r < 0.55 and nx:
            c = f"s{chan()}"
            nq += 1
        elif r < 0.6 and nx and nq:
            c = f"u{rng.randrange(nq + 1)}"
        elif r < 0.75:
            cs = ",".join(str(chan()) for _ in range(rng.choice([1, 1, 2, 3])))
            c = rng.choice(["e", "d"]) + cs + wn()
        elif r < 0.85:
            cs = ",".join(str(chan()) for _ in range(rng.choice([1, 1, 2])))
            c = f"v{rng.choice([0, 3, 200, 255, 256, -1])}:{cs}" + wn()
        elif r < 0.93:
            c = rng.choice(["N", "D"]) + wn() if nx else rng.choice(["N", "D", "A"])
        elif nx:
            c = f"g{chan()}"
        else:
            c = "W"
        if c != "C" and rng.random() < p_fail:
            c += "~" + ",".join(rng.choice(OUTCOMES) for _ in range(3))
        out.append(c)
    return out


def redundant_free(calls):
    """drop every connect issued while connected and every disconnect issued while disconnected"""
    out = []
    keep = []
    connected = False
    for i, (c, a) in enumerate(calls):
        if c == "C":
            if connected:
                continue
            connected = True
        elif c == "X":
            if not connected:
                continue
            connected = False
        out.append((c, a))
        keep.append(i)
    return out, keep


class C09(Prop):
    id = "C09"
    lean_module = "NxsModel.Props.C09"
    rule = ("call histories over the public API of the high-level handler (connect, disconnect, stream start/stop, "
            "subscribe/unsubscribe, buffered configuration with and without writenow, write, channel lookup) and of a bare "
            "low-level CommHandler (connect, disconnect, stream start/stop, setters, write): every sequence of length <= 3 "
            "over 13 (high) / 10 (low) representative calls (thorough: <= 4, sampled), the repeated-connect / repeated-"
            "disconnect families, plus random histories of length <= 25 with channel ids from both ends incl. out of range, "
            "for 0, 1, 2, 3, 5, 8, 16, 64 and 255 channels with varied static descriptions (type, dimension, metadata "
            "length, name, rx padding), from an idle device and from a device left streaming with channels enabled, a "
            "fraction with rejected / lost acknowledgements; executed on the real handlers under the virtual-time runtime "
            "against the reference device; per call: result / exception kind / returned ACK, virtual time spent waiting for "
            "the device, frames written, handler flags, live library threads, interface state, device state, subscriber "
            "lists, client view and requested vectors, reported description are compared with the model; a subset with "
            "real threads against the real DummyDev compares threading.enumerate() before connect / after disconnect; "
            "devices whose channel names are not UTF-8 (connect raises in mid-handshake and must leave the handler off) or "
            "contain a NUL; oracle only: connects during which the k-th interface write raises OSError, 2 sessions over a "
            "link whose idle read blocks 9 s; "
            "distinct = distinct line; non-trivial = history containing a connect")
    assumptions = ["virtual-time runtime (harness/vsim.py) preserves queue/lock/thread semantics",
                   "reference device (harness/refdev.py) is a conforming NxScope device",
                   "time spent joining a library thread is measured by the harness and bounded by the oracle, not modelled"]

    _real = None

    def cases(self, rng, tier):
        T = tier == "thorough"
        P3 = ll.plain_chans(3)
        # the real-thread sessions (seconds of real waiting each) run in sub-processes beside the correspondence phase
        self._real = ll.real_sessions_start(ll.REAL_HISTORIES)
        # exhaustive short histories, both handler levels
        for mode, base in (("nx", NX_BASE), ("comm", COMM_BASE)):
            for k in range(1, (5 if T else 4)):
                for seq in itertools.product(base, repeat=k):
                    if k == 4 and rng.random() > (0.06 if mode == "nx" else 0.15):
                        continue
                    if k == 3 and not T and rng.random() > 0.5:
                        continue
                    started = rng.randrange(2)
                    yield ll.mk_line(mode, 3, [0, started, 0], [0, 5 if started else 0, 0], started, 0, P3, seq), f"exhaustive-{mode}-{k}"
        # connect / disconnect repeated, around a buffered request (idempotence at both levels)
        for mode in ("nx", "comm"):
            for setter in ("e0", "e2,1", "v9:1", "d1", "D"):
                for pre in (["C"], ["C", "C"], ["C", "X", "X", "C"], ["X", "C"]):
                    for mid in (["C"], ["C", "C"], []):
                        for fl in (3, 2):
                            yield ll.mk_line(mode, fl, [0, 1, 0], [0, 0, 4], 0, 0, P3, pre + [setter] + mid + ["W", "X", "X"]), f"idem-{mode}"
        # a uniform divider on every channel (the "all channels" form of the request), over the signed-byte boundary
        for val in (127, 128, 200, 255):
            for n in (1, 2, 3):
                cs = ",".join(map(str, range(n)))
                yield ll.mk_line("nx", 3, [0] * n, [0] * n, 0, 0, ll.plain_chans(n), ["C", "e0!", f"v{val}:{cs}", "X", "C", "X"]), "uniform-div"
                yield ll.mk_line("comm", 3, [0] * n, [0] * n, 0, 0, ll.plain_chans(n), ["C", f"v{val}:{cs}", "W", "X"]), "uniform-div"
        # F21: the previous session ended with a frame cut off in flight; the reconnect must succeed and report the same description
        for pre in ([], ["e0", "W"], ["S"]):
            for fl in (3, 1):
                calls = ["C"] + pre + ["X", "C", "W", "X", "C", "X"]
                yield ll.mk_line("comm", fl, [0, 1, 0], [0, 5, 0], 0, 0, P3, calls, cut=[1 + len(pre)]), "cut-frame"
        yield ll.mk_line("comm", 3, [0, 1, 0], [0, 5, 0], 0, 0, P3, ["C", "X", "C", "X", "C", "X"], cut=[1, 3]), "cut-frame"
        # a device without channels (F18): connect, stream, write, disconnect must still be a clean life cycle
        zero = ["C", "X", "S", "T", "W", "N", "N!", "D", "D!", "s0", "g0", "e0", "e0!", "v5:0!", "u0", "s-1", "e-1"]
        yield ll.mk_line("nx", 3, [], [], 0, 0, [], ["C", "S", "X", "X"]), "zero-channels"
        yield ll.mk_line("nx", 3, [], [], 1, 4, [], ["C", "X", "C", "W", "N!", "X"]), "zero-channels"
        yield ll.mk_line("comm", 3, [], [], 1, 0, [], ["C", "S", "A", "W", "T", "X", "X"]), "zero-channels"
        for _ in range(60 if T else 20):
            yield ll.mk_line("nx", rng.randrange(4), [], [], rng.randrange(2), rng.choice([0, 0, 8]), [],
                             [rng.choice(zero) for _ in range(rng.randrange(2, 12))]), "zero-channels"
        # R4-C-M4 / C09-r4m1: a channel name the client cannot decode (connect raises in mid-handshake: the handler must be
        # left off, and stay a working state machine) or with a NUL (the client sees a C string)
        for mode, tail in (("nx", ["X", "S", "e0!", "C", "s1", "W", "X"]), ("comm", ["X", "e0", "S", "C", "W", "X", "X"])):
            for j, bad in enumerate(ll.BAD_NAMES):
                for k in ((0, 2) if T else (j % 3,)):
                    chans = list(P3)
                    chans[k] = chans[k][:3] + (bad,)
                    yield ll.mk_line(mode, 3, [0, 1, 0], [0, 5, 0], j % 2, (0, 4)[j % 2], chans, ["C"] + tail), "bad-name"
            for j, nul in enumerate(ll.NUL_NAMES):
                chans = list(P3)
                chans[j % 3] = chans[j % 3][:3] + (nul,)
                yield ll.mk_line(mode, 3, [0, 1, 0], [0, 5, 0], 1, 0, chans, ["C", "e0", "W", "S", "X", "C", "X"]), "nul-name"
        # the largest device
        rxp, ch255 = ll.gen_desc(rng, 255)
        yield ll.mk_line("nx", 3, [0] * 254 + [1], [0] * 255, 1, rxp, ch255, ["C", "e3!", "S", "s-255", "X", "C", "X"]), "255-channels"
        yield ll.mk_line("comm", 3, [0] * 254 + [1], [0] * 255, 1, 0, ll.plain_chans(255), ["C", "e-255,254", "C", "W", "X"]), "255-channels"
        # many sessions on ONE handler object: whatever a connect uses up must be there again for the next one
        for mode in ("nx", "comm"):
            for k in ((8, 13) if T else (8,)):
                for mid in ([], ["S", "T"], ["e0", "W"], ["C"]):
                    calls = []
                    for _ in range(k):
                        calls += ["C"] + mid + ["X"]
                    yield ll.mk_line(mode, 3, [0, 1, 0], [0, 5, 0], 0, 0, P3, calls), "many-sessions"
        # random histories
        for it in range(900 if T else 170):
            n = rng.choice([1, 2, 3, 5, 3, 2, 8, 16]) if it % 25 else rng.choice([64, 0, 255 if T else 64])
            mode = "nx" if it % 3 else "comm"
            en = [rng.random() < 0.4 for _ in range(n)]
            div = [rng.choice([0, 0, 7]) for _ in range(n)]
            rxp, chans = ll.gen_desc(rng, n, plain=rng.random() < 0.3, p_nul=0.1, p_bad=0.06)
            calls = gen_calls(rng, n, rng.randrange(1, 26), mode, p_fail=rng.choice([0.0, 0.0, 0.15]))
            yield ll.mk_line(mode, rng.randrange(4), en, div, rng.randrange(2), rxp, chans, calls), f"random-{mode}"

    def impl(self, line):
        return ll.impl_line(line)

    def nontrivial(self, line, out):
        return "C" in line.split(" ")[7].replace("~", ";").split(";")

    # -- the property, judged on the real code --------------------------------------------------------------------
    def oracle(self, line, impl_out=None):
        p = ll.parse_line(line)
        v = self.judge(p)
        if v:
            v.setdefault("history", [c + ("~" + ",".join(a) if a else "") for c, a in p["calls"]])
            v.setdefault("handler", "NxscopeHandler" if p["mode"] == "nx" else "bare CommHandler")
        return v

    def judge(self, p, meta=True):
        rich = []
        nx = p["mode"] == "nx"
        try:
            out, info = ll.run_life(p, rich)
        except Exception as e:
            key = "does-not-terminate" if type(e).__name__ in ll.STUCK else "session-raises"
            return {"key": key, "what": f"{type(e).__name__}: {str(e)[:300]}", "expected": "every call returns", "observed": "-"}
        if info["errors"] and any(k in info["errors"][0][1] for k in ("TimeLimit", "Spin", "Deadlock")):
            return {"key": "does-not-terminate", "what": "a call did not return within the virtual time budget: " + repr(info["errors"][0]),
                    "expected": "every call returns or raises in bounded time", "observed": info["errors"][0][1][:200]}
        if info["errors"]:
            return {"key": "thread-died", "what": "library thread died: " + repr(info["errors"][0]), "expected": "-", "observed": "-"}
        final = None
        if info.get("final_disconnect"):
            final = {"key": "after-disconnect", "what": f"the final disconnect raised {info['final_disconnect']}; threads alive: {info['live_end']}",
                     "expected": "disconnect completes", "observed": info["final_disconnect"]}
        elif info["live_end"]:
            final = {"key": "thread-left", "what": f"threads alive after final disconnect: {info['live_end']}", "expected": "none", "observed": info["live_end"]}
        # (a name is a C string: the client reports the text before the first NUL)
        want = (len(p["en"]), p["flags"], p["rxp"], tuple((t, v, m, nm.split(b"\x00")[0]) for t, v, m, nm in p["chans"]))
        for d in info["descs"]:
            if d != info["descs"][0]:
                return {"key": "description-changed", "what": "a reconnect reported a different static description",
                        "expected": info["descs"][0], "observed": d}
            if d != want:
                return {"key": "description-changed", "what": "connect reports a static description that is not the device's",
                        "expected": want, "observed": d}
        connected = False
        bound = ll.call_bound()
        healthy = ll.names_ok(p)   # the device's channel infos can be decoded: connect has no excuse to fail
        clean = True               # every request of the current session was acknowledged so far
        last_start = None          # payload of the last start/stop request the device got in the current session
        failed_connect = False
        for i, r in enumerate(rich):
            c = r["call"].rstrip("!")
            if not (r["ans"] is None or all(a == "a" for a in r["ans"])):
                clean = False
            for k, pl in r["reqs"]:
                if k == "start":
                    last_start = pl
            hist = [x["call"] for x in rich[:i + 1]]
            # (which exception a refused call raises — or whether it raises at all — is not the property's business:
            #  the clauses below judge what the call did to the device, the threads and the clock)
            if r["dt"] > bound:
                return {"key": "does-not-terminate", "what": f"call {r['call']} blocked for {r['dt']:.1f} virtual seconds",
                        "expected": f"returns within {bound:.0f} s (10 x the largest time-out the source uses, at least 10 s)",
                        "observed": r["dt"], "history": hist}
            if nx and not connected and c != "C":
                # calls on the disconnected high-level handler never reach the device, start threads or block
                # (threads a failed connect left behind are judged at the next disconnect, not charged to this call)
                new_live = sorted(set(r["live"]) - set(rich[i - 1]["live"] if (i and failed_connect) else ()))
                if r["nreq"] or r["nwrites"] or new_live or r["dt"] > 1e-9:
                    return {"key": "disconnected-not-inert", "what": f"call {r['call']} while disconnected reached the device / started a thread / blocked",
                            "expected": "inert", "observed": f"requests={r['nreq']} writes={r['nwrites']} live={new_live} dt={r['dt']}", "history": hist}
            if c == "C" and r["res"] != "ok" and not connected and (not healthy or i in p["wfail"]):
                # a connect that cannot complete (an interface write failed in mid-handshake, a channel info that
                # cannot be decoded) may raise; the handler is then still disconnected and is judged as such: by the
                # clauses on calls made while disconnected, and at the next disconnect (no thread, no description)
                failed_connect = True
                continue
            if c == "C":
                if r["res"] != "ok" or not r["has_desc"]:
                    return {"key": "no-description", "what": f"connect: {r['res']}, description reported: {r['has_desc']}", "expected": "ok with a description",
                            "observed": r["res"], "history": hist}
                if connected and (r["nreq"] or r["nwrites"] or r["dt"] > 1e-9 or r["state"] != rich[i - 1]["state"]):
                    return {"key": "connect-not-idempotent", "what": "connect on a connected handler talked to the device / took time / changed the "
                            "handler's state", "expected": rich[i - 1]["state"], "observed": f"requests={r['nreq']} dt={r['dt']} {r['state']}", "history": hist}
                if not connected:
                    clean = True
                connected = True
            if c == "X":
                if r["res"] != "ok":
                    return {"key": "after-disconnect", "what": f"disconnect raised {r['res']}: description reported={r['has_desc']}, threads={r['live']}, "
                            f"device en={r['dev_en']} started={r['dev_started']}", "expected": "disconnect completes", "observed": r["res"], "history": hist}
                if not connected and (r["nreq"] or r["nwrites"] or r["dt"] > 1e-9):
                    return {"key": "disconnect-not-idempotent", "what": "disconnect on a disconnected handler talked to the device / took time",
                            "expected": "0", "observed": f"requests={r['nreq']} dt={r['dt']}", "history": hist}
                was = connected
                connected = False
                if r["has_desc"] or r["live"]:
                    return {"key": "after-disconnect", "what": "after disconnect: description still reported / thread alive"
                            + (" (an earlier connect of this history raised in mid-handshake: " + ", ".join(
                                f"call {k} {x['res']}" for k, x in enumerate(rich[:i]) if x["call"] == "C" and x["res"] != "ok") + ")"
                               if failed_connect else ""),
                            "expected": "no description, no thread", "observed": f"dev={r['has_desc']} live={r['live']}", "history": hist}
                if nx and was:
                    # told to stop: the last start/stop request of the session is a stop (connect itself sends one)
                    if last_start != b"\x00":
                        return {"key": "after-disconnect", "what": "the last start/stop request the device got in this session was not a stop",
                                "expected": "stop", "observed": last_start, "history": hist}
                    # told to disable every channel: when the device acknowledged every request of the session its state says so
                    # (after rejected / lost requests the device-side state is C11's business)
                    if clean and (any(r["dev_en"]) or r["dev_started"]):
                        return {"key": "after-disconnect", "what": "after disconnect (every request of the session acknowledged) the device is still enabled / streaming",
                                "expected": "all channels disabled, stream stopped", "observed": f"en={r['dev_en']} started={r['dev_started']}", "history": hist}
        if final:
            return final
        if not meta or failed_connect or p["wfail"]:
            return None
        # idempotence as a relation between histories: a connect on a connected handler and a disconnect on a
        # disconnected one are no-ops, so dropping them changes nothing any other call observes
        red, keep = redundant_free(p["calls"])
        if len(red) < len(p["calls"]):
            rich2 = []
            try:
                ll.run_life({**p, "calls": red}, rich2)
            except Exception as e:
                return {"key": "session-raises", "what": f"reduced history raises {type(e).__name__}: {str(e)[:200]}", "expected": "-", "observed": "-",
                        "history": [c for c, _ in red]}
            for k, r2 in zip(keep, rich2):
                if rich[k]["obs"] != r2["obs"]:
                    which = "connect" if any(c == "C" for c, _ in p["calls"][:k + 1]) else "disconnect"
                    return {"key": "connect-not-idempotent" if which == "connect" else "disconnect-not-idempotent",
                            "what": f"the history with its redundant connect/disconnect calls behaves differently from the history without them at call "
                                    f"{k} ({rich[k]['call']}): a repeated connect/disconnect is not a no-op",
                            "expected": r2["obs"], "observed": rich[k]["obs"], "history": [x["call"] for x in rich[:k + 1]],
                            "reduced_history": [c for c, _ in red]}
        return None

    # -- real threads against the real DummyDev: threading.enumerate() before connect / after disconnect ----------------
    def slow_read_sessions(self):
        """an interface whose idle read blocks for 9 s (the ICommInterface contract allows it): after disconnect() has
        returned no library thread may be running, and an immediate reconnect must not give two receive threads"""
        import vsim
        import refdev
        import sessionlib as sl
        out = []
        for high in (True, False):
            res = {}

            def scenario(sim, high=high, res=res):
                from nxslib.comm import CommHandler
                from nxslib.nxscope import NxscopeHandler
                from nxslib.proto.parse import Parser
                dev = refdev.RefDevice(sl.mk_chans([False, True], [0, 0]), flags=3, rxpadding=0)
                link = refdev.make_link(sim, dev, poll=9.0)
                h = NxscopeHandler(link, Parser()) if high else CommHandler(link, Parser())
                lib = lambda: sorted(t.name for t in sim.live_tasks() if t.name in ("recv", "stream"))  # noqa: E731
                h.connect()
                if high:
                    h.stream_start()
                h.disconnect()
                res["after_disconnect"] = lib()
                res["dev"] = h.dev is not None
                h.connect()
                res["after_reconnect"] = lib()
                h.disconnect()
                vsim.vsleep(20.0)
                res["end"] = lib()

            r, sim = vsim.run_sim(scenario, time_limit=400.0, real_limit=30.0)
            name = f"slow-read:{'nx' if high else 'comm'}"
            if isinstance(r, BaseException):
                out.append({"key": "does-not-terminate", "case": name, "what": f"session over a link whose idle read blocks 9 s: {type(r).__name__}: {r}",
                            "expected": "every call returns", "observed": type(r).__name__})
            elif res.get("after_disconnect") or res.get("end") or res.get("dev") or res.get("after_reconnect", []).count("recv") > 1:
                out.append({"key": "thread-left", "case": name,
                            "what": "link whose idle read blocks 9 s: connect; [stream_start]; disconnect; connect; disconnect",
                            "expected": "no library thread and no description after disconnect() has returned; one receive thread after the reconnect",
                            "observed": repr(res)})
        return out

    def fault_lines(self, thorough=False):
        """connects during which an interface write raises OSError (the model has no such event: judged by the oracle
        only): whatever connect does then, after the next disconnect no library thread may be alive and no description
        reported, and a later healthy connect / disconnect must be a clean session"""
        P3 = ll.plain_chans(3)
        out = []
        for mode in ("nx", "comm"):
            for rxp in ((0, 4) if thorough else (0,)):
                for k in range(1, 6 + (1 if rxp else 0)):      # stop, cmninfo, [padding], chinfo 0..2
                    for calls, wf in ((["C", "X", "X"], {0: k}), (["C", "S", "X", "C", "e0", "W", "X"], {0: k}),
                                      (["C", "C", "X", "C", "X"], {0: k, 1: 6 - k})):
                        if not thorough and len(calls) == 5 and k % 2:
                            continue
                        out.append(ll.mk_line(mode, 3, [0, 1, 0], [0, 5, 0], k % 2, rxp, P3, calls, wfail=wf))
        return out

    def extra_checks(self, rng, tier, ev):
        faults = self.fault_lines(tier == "thorough")
        ev["coverage"]["write_fault_sessions"] = len(faults)
        for l in faults:
            v = self.oracle(l)
            if v:
                v["case"] = l
                return [v]
        slow = self.slow_read_sessions()
        ev["coverage"]["slow_read_sessions"] = 2
        if slow:
            return slow
        procs = self._real or ll.real_sessions_start(ll.REAL_HISTORIES)
        self._real = None
        res = ll.real_sessions_collect(procs)
        ev["coverage"]["real_thread_sessions"] = {
            n: (r["error"] if "error" in r else " ".join(f"{s['call']}:{len(s['threads'])}" for s in r["steps"]) + f" end:{len(r['end'])}")
            for n, r in res.items()}
        out = []
        for n, r in res.items():
            v = ll.judge_real(n, r)
            if v:
                v["case"] = "real-threads:" + n
                out.append(v)
        return out

    def replay(self, obj):
        case = obj["case"]
        if case.startswith("slow-read:"):
            vs = [v for v in self.slow_read_sessions() if v["case"] == case]
            return vs[0] if vs else None
        if case.startswith("real-threads:"):
            n = case.split(":", 1)[1]
            hs = [h for h in ll.REAL_HISTORIES if h[0] == n]
            res = ll.real_sessions(hs)
            return ll.judge_real(n, res[n])
        return self.oracle(case)

    def search_cases(self, rng):
        for _ in range(150):
            n = rng.choice([1, 2, 3, 5])
            mode = rng.choice(["nx", "nx", "comm"])
            en = [rng.random() < 0.5 for _ in range(n)]
            rxp, chans = ll.gen_desc(rng, n)
            yield ll.mk_line(mode, rng.randrange(4), en, [rng.choice([0, 200]) for _ in range(n)], rng.randrange(2), rxp, chans,
                             gen_calls(rng, n, rng.randrange(3, 14), mode, p_connect=0.3)), "search"


PROP = C09()
