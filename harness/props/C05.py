"""C05 — every client request means at the device exactly what the caller asked for."""
from common import Prop, hexs, unhex, exc_name
from ref import ref_frame


def bits(l):
    return "".join("1" if b else "0" for b in l) or "-"


def ints(l):
    return ",".join(str(int(x)) for x in l) or "-"


class FakeDev:
    """just what frame_enable_decode / frame_div_decode read from a Device"""

    def __init__(self, chmax, en, div):
        class D:
            pass
        self.data = D()
        self.data.chmax = chmax
        self._en = list(en)
        self._div = list(div)

    @property
    def channels_en(self):
        return list(self._en)

    @property
    def channels_div(self):
        return list(self._div)


def spec_payload(kind, req, n):
    """NxScope encoding of a set request, written from the protocol description"""
    if req[0] == "single":
        return bytes([0, req[1], int(req[2])])
    vs = req[1]
    if len(set(vs)) <= 1:
        return bytes([2, 0, int(vs[0])])
    return bytes([1, 0] + [int(v) for v in vs])


def apply_spec(payload, cur):
    """what a conforming device derives from a set payload"""
    flags, chan = payload[0], payload[1]
    if flags == 0:
        out = list(cur)
        out[chan] = payload[2]
        return out
    if flags == 2:
        return [payload[2]] * len(cur)
    return list(payload[2:2 + len(cur)])


class C05(Prop):
    id = "C05"
    lean_module = "NxsModel.Props.C05"
    rule = ("request builders (start, cmninfo, chinfo, enable/div in single, all, bulk form) and device-side decoders "
            "for channel counts {1,2,3,127,128,129,254,255} x all channel ids x values 0..255 (sampled in quick), "
            "random vectors and current states, plus out-of-range arguments; distinct = distinct (op,input); "
            "non-trivial = everything except the constant cmninfo request")
    assumptions = ["CPython struct modelled by Struct.lean (cross-checked by these cases)"]

    def __init__(self):
        from nxslib.proto.parse import Parser
        from nxslib.proto.parserecv import ParseRecv
        from nxslib.proto.iparserecv import ParseRecvCb
        self.P = Parser()
        n = lambda d: None
        self.R = ParseRecv(ParseRecvCb(n, n, n, n, n))

    def cases(self, rng, tier):
        T = tier == "thorough"
        yield "req start 0", "start"
        yield "req start 1", "start"
        yield "req cmninfo", "cmninfo"
        for c in list(range(256)) + [-1, 256, 300]:
            yield f"req chinfo {c}", "chinfo"
        for v in range(256):
            yield f"req dstart {hexs(bytes([v]))}", "dstart"
        yield "req dstart -", "dstart"
        yield "req dstart 0100", "dstart"
        ns = [1, 2, 3, 127, 128, 129, 254, 255]
        for n in ns:
            chans = range(n) if T else sorted(set([0, n - 1, n // 2] + [rng.randrange(n) for _ in range(6)]))
            for c in chans:
                vals = range(256) if (T and n <= 3) else [0, 1, 127, 128, 200, 255, rng.randrange(256)]
                for v in vals:
                    yield f"req div single {c} {v} {n}", "div-single"
                    cur = [rng.randrange(256) for _ in range(n)]
                    yield f"req ddiv {hexs(bytes([0, c, v]))} {n} {ints(cur)}", "ddiv-single"
                for v in (0, 1):
                    yield f"req en single {c} {v} {n}", "en-single"
                    cur = [rng.random() < 0.5 for _ in range(n)]
                    yield f"req den {hexs(bytes([0, c, v]))} {n} {bits(cur)}", "den-single"
            for v in (range(256) if T else [0, 1, 2, 127, 128, 255]):
                yield f"req div vec {ints([v] * n)} {n}", "div-all"
                yield f"req ddiv {hexs(bytes([2, 0, v]))} {n} {ints([rng.randrange(256) for _ in range(n)])}", "ddiv-all"
                yield f"req den {hexs(bytes([2, 0, v]))} {n} {bits([rng.random() < 0.5 for _ in range(n)])}", "den-all"
            for v in (0, 1):
                yield f"req en vec {bits([v] * n)} {n}", "en-all"
            for _ in range(30 if T else 6):
                vs = [rng.randrange(256) for _ in range(n)]
                yield f"req div vec {ints(vs)} {n}", "div-bulk"
                yield f"req ddiv {hexs(bytes([1, 0] + vs))} {n} {ints([0] * n)}", "ddiv-bulk"
                es = [rng.random() < 0.5 for _ in range(n)]
                yield f"req en vec {bits(es)} {n}", "en-bulk"
                yield f"req den {hexs(bytes([1, 0] + [int(e) for e in es]))} {n} {bits([False] * n)}", "den-bulk"
                yield f"req den {hexs(bytes([1, 0] + [rng.randrange(256) for _ in es]))} {n} {bits([False] * n)}", "den-bulk-anybyte"
        # malformed / out-of-range
        for line in ["req div single 0 256 4", "req div single 0 -1 4", "req div single 256 1 4", "req div single -1 1 4",
                     "req en single 256 1 4", "req div vec 1,2,300 3", "req div vec 1,2 3", "req en vec 10 3", "req en vec - 0",
                     "req div vec - 0", "req en vec 101 2", "req div vec 5,5 3", "req div vec 5,5,5,5 3",
                     "req den 0300 2 00", "req den 00 2 00", "req den - 2 00", "req den 000501 2 00", "req ddiv 000501 2 0,0",
                     "req den 0100 2 00", "req den 01000101 3 000", "req den 0100010101 3 000", "req ddiv 0100 2 0,0",
                     "req den 0200 2 00", "req ddiv 0200 2 0,0", "req den 0000 2 00", "req ddiv 0000 2 0,0"]:
            yield line, "malformed"

    def impl(self, line):
        t = line.split(" ")
        try:
            if t[1] == "start":
                return "ok " + hexs(self.P.frame_start(bool(int(t[2]))))
            if t[1] == "cmninfo":
                return "ok " + hexs(self.P.frame_cmninfo())
            if t[1] == "chinfo":
                return "ok " + hexs(self.P.frame_chinfo(int(t[2])))
            if t[1] == "en":
                n = int(t[-1])
                if t[2] == "single":
                    return "ok " + hexs(self.P.frame_enable((int(t[3]), bool(int(t[4]))), n))
                vs = [] if t[3] == "-" else [c == "1" for c in t[3]]
                return "ok " + hexs(self.P.frame_enable(vs, n))
            if t[1] == "div":
                n = int(t[-1])
                if t[2] == "single":
                    return "ok " + hexs(self.P.frame_div((int(t[3]), int(t[4])), n))
                vs = [] if t[3] == "-" else [int(x) for x in t[3].split(",")]
                return "ok " + hexs(self.P.frame_div(vs, n))
            if t[1] == "dstart":
                return "ok " + ("1" if self.R.frame_start_decode(unhex(t[2])) else "0")
            if t[1] == "den":
                n = int(t[3])
                cur = [] if t[4] == "-" else [c == "1" for c in t[4]]
                r = self.R.frame_enable_decode(unhex(t[2]), FakeDev(n, cur, []))
                return "ok " + bits(bool(x) for x in r)
            if t[1] == "ddiv":
                n = int(t[3])
                cur = [] if t[4] == "-" else [int(x) for x in t[4].split(",")]
                r = self.R.frame_div_decode(unhex(t[2]), FakeDev(n, [], cur))
                return "ok " + ints(r)
        except Exception as e:
            return "err " + exc_name(e)
        raise ValueError(line)

    def nontrivial(self, line, out):
        return line != "req cmninfo"

    def oracle(self, line, impl_out=None):
        """builders: emitted bytes are the NxScope encoding; device decoder on that payload recovers the intent;
        whichever form is picked, the derived state equals the intended state."""
        t = line.split(" ")
        from nxslib.proto.parse import Parser
        from nxslib.proto.parserecv import ParseRecv
        from nxslib.proto.iparserecv import ParseRecvCb
        P = Parser()
        nn = lambda d: None
        R = ParseRecv(ParseRecvCb(nn, nn, nn, nn, nn))

        def bad(key, what, exp, obs):
            return {"key": key, "what": what, "expected": exp, "observed": obs}
        try:
            if t[1] == "start":
                b = bool(int(t[2]))
                f = P.frame_start(b)
                if f != ref_frame(5, bytes([int(b)])):
                    return bad("start-bytes", "start request bytes", hexs(ref_frame(5, bytes([int(b)]))), hexs(f))
                if R.frame_start_decode(f[4:-2]) is not b:
                    return bad("start-decode", "device decodes start flag", str(b), "other")
            elif t[1] == "cmninfo":
                if P.frame_cmninfo() != ref_frame(2, b""):
                    return bad("cmninfo-bytes", "cmninfo request bytes", hexs(ref_frame(2, b"")), hexs(P.frame_cmninfo()))
            elif t[1] == "chinfo":
                c = int(t[2])
                if 0 <= c <= 255:
                    f = P.frame_chinfo(c)
                    if f != ref_frame(3, bytes([c])):
                        return bad("chinfo-bytes", f"chinfo request for channel {c}", hexs(ref_frame(3, bytes([c]))), hexs(f))
            elif t[1] in ("en", "div") and t[2] in ("single", "vec"):
                n = int(t[-1])
                kind = t[1]
                if t[2] == "single":
                    c, v = int(t[3]), int(t[4])
                    if not (1 <= n <= 255 and 0 <= c < n and 0 <= v <= 255):
                        return None
                    req = ("single", c, v)
                    arg = (c, bool(v)) if kind == "en" else (c, v)
                else:
                    vs = [] if t[3] == "-" else ([c == "1" for c in t[3]] if kind == "en" else [int(x) for x in t[3].split(",")])
                    if not (1 <= n <= 255 and len(vs) == n and all(0 <= int(v) <= 255 for v in vs)):
                        return None
                    req = ("vec", vs)
                    arg = vs
                f = (P.frame_enable if kind == "en" else P.frame_div)(arg, n)
                fid = 6 if kind == "en" else 7
                exp = ref_frame(fid, spec_payload(kind, req, n))
                if f != exp:
                    return bad(f"{kind}-bytes", f"{kind} request {req[0]} bytes", hexs(exp), hexs(f))
                # device-side decoder on what the client emitted, from an arbitrary current state
                import random
                r = random.Random(line)
                cur = [r.randrange(2 if kind == "en" else 256) for _ in range(n)]
                want = apply_spec(f[4:-2], cur)
                if kind == "en":
                    got = R.frame_enable_decode(f[4:-2], FakeDev(n, [bool(x) for x in cur], []))
                    got = [int(bool(x)) for x in got]
                    want = [int(bool(x)) for x in want]
                else:
                    got = list(R.frame_div_decode(f[4:-2], FakeDev(n, [], cur)))
                if got != want:
                    return bad(f"{kind}-device-state", f"state the device derives from the {req[0]} {kind} request",
                               str(want), str(got))
            elif t[1] in ("den", "ddiv"):
                d = unhex(t[2])
                n = int(t[3])
                kind = "en" if t[1] == "den" else "div"
                cur = [] if t[4] == "-" else ([int(c == "1") for c in t[4]] if kind == "en" else [int(x) for x in t[4].split(",")])
                wf = len(d) >= 3 and len(cur) == n and ((d[0] == 0 and d[1] < n and len(d) == 3) or (d[0] == 2 and len(d) == 3)
                                                        or (d[0] == 1 and len(d) == 2 + n))
                if not wf or n < 1:
                    return None
                want = apply_spec(d, cur)
                if kind == "en":
                    got = [int(bool(x)) for x in R.frame_enable_decode(d, FakeDev(n, [bool(x) for x in cur], []))]
                    want = [int(bool(x)) for x in want]
                else:
                    got = list(R.frame_div_decode(d, FakeDev(n, [], cur)))
                if got != want:
                    return bad(f"{kind}-decode", f"device-side {kind} decoder", str(want), str(got))
            elif t[1] == "dstart":
                d = unhex(t[2])
                if len(d) == 1:
                    if R.frame_start_decode(d) is not (d[0] != 0):
                        return bad("dstart", "device-side start decoder", str(d[0] != 0), "other")
        except Exception as e:
            return bad("request-raises", f"well-formed request raised {type(e).__name__}: {e}", "no exception", exc_name(e))
        return None


PROP = C05()
