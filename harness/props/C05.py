"""C05 — every client request means at the device exactly what the caller asked for.

Line kinds (all but `sess` are also run by the Lean driver):
  req start|cmninfo|chinfo|en|div …          client builders (`Parser.frame_*`)
  req dstart|den|ddiv <payload> <n> <cur>    device-side decoders on a bare payload; the decoders are given a REAL
                                             `nxslib.dev.Device` holding the current state (both vectors: the one the
                                             line names and a second one derived from the line, so that a decoder that
                                             reads the wrong vector is seen)
  req hist <n> <en> <div> <w>,<w>,…          a HISTORY of writes received by ONE long-lived `Device` object through the
                                             real dispatcher `ParseRecv.recv_handle` with enable/div callbacks that do
                                             what `intf/dummy.py::DummyDev._enable_cb/_div_cb` do (decode against the
                                             device's current vectors, store by per-channel attribute writes);
                                             model: `Requests.devRun`
  req sess <n> <pad> <en> <div> <ask>;…      the same device fed by the real client builders (+ `data_align`);
                                             model: `Requests.session`, theorem `history_agrees`
  sess cfg <flags> <en> <div> <ops>          session level (extra_checks, not in the driver): the real `CommHandler`
                                             under harness/vsim.py connected to harness/refdev.py whose channels are
                                             ALREADY enabled / have dividers at connect time; every ENABLE/DIV request
                                             it emits is received by such a long-lived real `Device`; judged: that
                                             device's state after each `channels_write()` == the state the caller asked for.
                                             Ops: e/d<ids> v<div>:<ids> A N D and W:<d>:<e> = channels_write() whose
                                             divider / enable request is a: acknowledged, x: applied but the ACK is lost,
                                             l: lost, n<r>: rejected (requests that did not reach the device are not fed
                                             to the judging device; only fully acknowledged writes are judged).  One write
                                             may turn one channel on and another off; a failed write may be followed by a
                                             write that differs from the acknowledged state in one channel.
  sess dummy <flags> <rxp> <types> <en> <div> <ops>
                                             the same calls against nxslib's own simulated device `intf/dummy.py::DummyDev`
                                             (its receive thread, dispatcher, `_enable_cb/_div_cb`) built through its public
                                             constructor with channels of every type class (UNDEF, NONE, critical bit, ...);
                                             judged: the state held by the channel objects after each `channels_write()`

Assumption (R4-B-LOW): enable vectors are lists of real bools (the API is typed list[bool]); `frame_enable([1,0,1],3)` with
ints emits a bulk request with every channel off (`enable[c] is True`) — behaviour of /repo outside the statements.

Channel-info request: the device side has NO decoder function for it (`ParseRecv` only checks the payload length; the
callback of the device reads the channel id itself as payload byte 0, `intf/dummy.py::_chinfo_cb`: `data[0]`).  What is
checked / proved for it is therefore the emitted bytes and that the dispatcher hands exactly the one byte `c` to the
chinfo callback (`request_reaches_decoder_chinfo`).
"""
import random
import zlib

from common import Prop, hexs, unhex, exc_name
from ref import ref_frame


def bits(l):
    return "".join("1" if b else "0" for b in l) or "-"


def ints(l):
    return ",".join(str(int(x)) for x in l) or "-"


def unbits(s):
    return [] if s == "-" else [c == "1" for c in s]


def unints(s):
    return [] if s == "-" else [int(x) for x in s.split(",")]


def state_diff(want, got):
    """'en/div' strings -> the channels on which they differ (readable also for 255 channels)"""
    try:
        (we, wd), (ge, gd) = want.split("/"), got.split("/")
        d = [f"en[{i}] {a}->{b}" for i, (a, b) in enumerate(zip(we, ge)) if a != b]
        d += [f"div[{i}] {a}->{b}" for i, (a, b) in enumerate(zip(wd.split(","), gd.split(","))) if a != b]
        return "; differs (intended->device) at " + ", ".join(d[:8]) + (f" and {len(d) - 8} more" if len(d) > 8 else "")
    except Exception:
        return ""


# channel type bytes of the devices: every data type class, the critical bit (0x80), reserved bits, UNDEF (0) and NONE (1) —
# what a set request means at the device does not depend on them
TYPES = [2, 0x82, 10, 0x8A, 0, 0x80, 31, 0xFF, 1, 0x61]


def dev_type(i, n):
    return TYPES[(i + n) % len(TYPES)]


def mk_device(n, en, div):
    """a real nxslib Device holding the given current state (channel types: dev_type)"""
    from nxslib.dev import Device, DeviceChannel
    return Device(n, 3, 0, [DeviceChannel(i, dev_type(i, n), 1, f"c{i}", en=bool(en[i]), div=int(div[i])) for i in range(n)])


def other_vec(line, n, kind):
    """the vector the line does not name (enable state for a divider line and vice versa), derived from the line"""
    r = random.Random(zlib.crc32(line.encode()))
    if kind == "en":
        return [r.choice([0, 1, 2, 3, 7, 128, 200, 255]) for _ in range(n)]    # dividers
    return [r.random() < 0.5 for _ in range(n)]                                 # enables


class RealDevice:
    """the device side as a whole on ONE long-lived nxslib `Device`: real dispatcher, real decoders, and the
    per-channel attribute writes of intf/dummy.py::DummyDev._enable_cb/_div_cb"""

    def __init__(self, n, en, div):
        from nxslib.proto.parserecv import ParseRecv
        from nxslib.proto.iparserecv import ParseRecvCb
        self.n = n
        self.dev = mk_device(n, en, div)
        self.fired = None
        self.R = ParseRecv(ParseRecvCb(cmninfo=self._other(0), chinfo=self._other(1), enable=self._en_cb,
                                       div=self._div_cb, start=self._other(4)))

    def _other(self, k):
        def cb(data):
            self.fired = k
        return cb

    def _en_cb(self, data):
        self.fired = 2
        enables = self.R.frame_enable_decode(data, self.dev)
        for chid, en in enumerate(enables):
            chan = self.dev.channel_get(chid)
            assert chan
            chan.data.en = en

    def _div_cb(self, data):
        self.fired = 3
        dividers = self.R.frame_div_decode(data, self.dev)
        for chid, div in enumerate(dividers):
            chan = self.dev.channel_get(chid)
            assert chan
            chan.data.div = div

    # ground truth: the channel objects themselves
    def en(self):
        return [bool(self.dev.channel_get(i).data.en) for i in range(self.n)]

    def div(self):
        return [int(self.dev.channel_get(i).data.div) for i in range(self.n)]

    def recv(self, w):
        self.fired = None
        try:
            self.R.recv_handle(w)
        except Exception as e:
            return "err " + exc_name(e)
        if self.fired is None:
            return "ign"
        return f"cb{self.fired} {bits(self.en())}/{ints(self.div())}"


def spec_payload(kind, req, n):
    """NxScope encoding of a set request, written from the protocol description"""
    if req[0] == "single":
        return bytes([0, req[1], int(req[2])])
    vs = req[1]
    if len(set(vs)) <= 1:
        return bytes([2, 0, int(vs[0])])
    return bytes([1, 0] + [int(v) for v in vs])


def apply_spec(payload, cur):
    """what a conforming device derives from a set payload"""
    flags, chan = payload[0], payload[1]
    if flags == 0:
        out = list(cur)
        out[chan] = payload[2]
        return out
    if flags == 2:
        return [payload[2]] * len(cur)
    return list(payload[2:2 + len(cur)])


def wellformed_set(p, n):
    return len(p) >= 3 and ((p[0] == 0 and p[1] < n and len(p) == 3) or (p[0] == 2 and len(p) == 3)
                            or (p[0] == 1 and len(p) == 2 + n))


def form_of(p):
    return {0: "single", 1: "bulk", 2: "all"}.get(p[0], "?") if len(p) else "?"


def split_frame(w):
    """(fid, payload) of the serial frame at the first start byte of a write, by the harness's own codec; else None"""
    from refdev import SerialCodec
    c = SerialCodec()
    i = c.find(w)
    if i < 0:
        return None
    fr = c.decode_at(w, i)
    return None if fr is None else (fr[0], fr[1])


# -- structured vectors: where a wrong "all the same" shortcut or a signed/unsigned slip shows -----------------------
def structured_divs(rng, n):
    """(vector, tag) — all of length n, entries 0..255"""
    out = []
    v, w = rng.randrange(1, 256), rng.randrange(1, 256)
    while w == v:
        w = rng.randrange(1, 256)
    if n >= 2:
        for pos in sorted({0, n - 1, n // 2, rng.randrange(n)}):
            out.append(([w if i == pos else v for i in range(n)], "oneoff-nonzero"))      # all non-zero, one differs
        pos = rng.randrange(n)
        out.append(([7 if i == pos else 0 for i in range(n)], "oneoff-zero"))
        z = [0] * n
        z[rng.randrange(n)] = rng.choice([1, 128, 255])
        out.append((z, "oneoff-zero"))
        tv = [rng.choice([v, w]) for _ in range(n)]
        tv[0], tv[-1] = v, w
        out.append((tv, "two-valued"))
        hb = [(v ^ 0x80) if rng.random() < 0.5 else v for _ in range(n)]
        hb[rng.randrange(n)] = v
        hb[(hb.index(v) + 1) % n] = v ^ 0x80
        out.append((hb, "hibit-pair"))
        out.append(([1 + (i % 255) for i in range(n)], "all-nonzero-distinct"))
        out.append(([255 - (i % 255) for i in range(n)], "all-nonzero-distinct"))
    out.append(([v] * n, "all-equal-nonzero"))
    out.append(([v ^ 0x80 or 128] * n, "all-equal-nonzero"))
    return out


def structured_ens(rng, n):
    out = []
    if n >= 2:
        for base in (True, False):
            for pos in sorted({0, n - 1, rng.randrange(n)}):
                out.append(([(not base) if i == pos else base for i in range(n)], "oneoff"))
        out.append(([i % 2 == 0 for i in range(n)], "alternating"))
    return out


# -- session level ----------------------------------------------------------------------------------------------------
def gen_session(rng, n, dummy=False):
    """calls of a caller who leaves the channels that are already configured alone: a few rounds of
    (change some OTHER channels; write); rounds are chosen so that single, bulk and all requests all occur, that one write
    turns one channel on AND another one off ("swap"), and (reference device with ACK support only) that a write whose
    request was applied but whose ACK was lost / which was lost is followed by a write that differs from the client's
    last acknowledged state in exactly one channel ("fault")
    dummy: a session for nxslib's own simulated device (no lost / rejected requests there)"""
    flags = rng.choice([3, 3, 3, 1, 2])
    en = [rng.random() < 0.4 for _ in range(n)]
    en[rng.randrange(n)] = True                      # at least one channel is already enabled at connect
    div = [rng.choice([0, 0, 3, 200, 255]) for _ in range(n)]
    div[rng.randrange(n)] = rng.choice([1, 5, 128])  # at least one divider is already set
    untouched = [i for i in range(n) if en[i]][:1] + [i for i in range(n) if div[i]][:1]
    free = [i for i in range(n) if i not in untouched] or list(range(n))
    we, wd = list(en), list(div)                     # the state the caller has asked for so far
    ops = []

    def add(op):
        ops.append(op)
        if op[0] in "ed":
            for c in op[1:].split(","):
                we[int(c)] = op[0] == "e"
        elif op[0] == "v":
            v, cs = op[1:].split(":")
            for c in cs.split(","):
                wd[int(c)] = int(v)
        elif op == "D":
            we[:], wd[:] = [False] * n, [0] * n
        elif op in "AN":
            we[:] = [op == "A"] * n

    def other_div(c):
        return rng.choice([v for v in (1, 2, 7, 128, 200, 255) if v != wd[c]])
    kinds = ["one", "some", "some", "all", "mixed", "swap", "swap"] + (["fault", "fault"] if flags == 3 and not dummy else [])
    for _ in range(rng.randrange(2, 5)):
        kind = rng.choice(kinds)
        off = [c for c in free if not we[c]]
        on = [c for c in free if we[c]]
        if kind == "one":
            c = rng.choice(free)
            add(rng.choice([f"e{c}", f"d{c}", f"v{rng.choice([1, 9, 128, 255])}:{c}"]))
        elif kind == "some":
            cs = sorted(set(rng.choice(free) for _ in range(rng.randrange(2, 4))))
            add(rng.choice(["e", "d"]) + ",".join(map(str, cs)))
            if rng.random() < 0.6:
                for c in cs[:2]:
                    add(f"v{rng.choice([1, 2, 7, 128, 200, 255])}:{c}")
        elif kind == "all":
            add(rng.choice(["A", "N", "D", f"v{rng.choice([0, 4, 129])}:" + ",".join(map(str, range(n)))]))
        elif kind == "swap" and len(free) >= 2:
            # one write that turns exactly one channel on and exactly one other channel off (and the same for two dividers)
            if not on:
                add(f"e{off[0]}")
                add("W:a:a")
                on, off = [off[0]], off[1:]
            if not off:
                add(f"d{on[0]}")
                add("W:a:a")
                on, off = on[1:], [on[0]]
            if on and off:
                a, b = rng.choice(off), rng.choice(on)
                for op in rng.sample([f"e{a}", f"d{b}"], 2):
                    add(op)
                if rng.random() < 0.5:
                    add(f"v{other_div(a)}:{a}")
                    add(f"v{other_div(b)}:{b}")
        elif kind == "fault" and len(free) >= 2:
            # a write that fails (x: applied, ACK lost; l: lost; n22: rejected), then the caller takes that change back and
            # changes one other channel: the client's acknowledged state and the request differ in ONE channel
            a, b = rng.sample(free, 2)
            o = rng.choice(["x", "x", "x", "l", "n22"])
            if rng.random() < 0.5:
                add(f"d{a}" if we[a] else f"e{a}")
                add(f"W:a:{o}")
                add(f"d{a}" if we[a] else f"e{a}")
                add(f"d{b}" if we[b] else f"e{b}")
            else:
                old = wd[a]
                add(f"v{other_div(a)}:{a}")
                add(f"W:{o}:a")
                add(f"v{old}:{a}")
                add(f"v{other_div(b)}:{b}")
        else:
            c = rng.choice(free)
            add(f"e{c}")
            add(f"v{rng.choice([3, 130])}:{rng.choice(free)}")
            add(f"v{rng.choice([6, 250])}:{rng.choice(free)}")
        add("W:a:a")
    if dummy:
        rxp = rng.choice([0, 0, 8, 16, 255])
        types = [rng.choice(TYPES) for _ in range(n)]
        return f"sess dummy {flags} {rxp} {ints(types)} {bits(en)} {ints(div)} {';'.join(ops)}"
    return f"sess cfg {flags} {bits(en)} {ints(div)} {';'.join(ops)}"


def apply_call(op, want_en, want_div, n):
    """the caller's view: the state asked for after the call"""
    if op[0] == "e":
        for c in op[1:].split(","):
            want_en[int(c)] = True
    elif op[0] == "d":
        for c in op[1:].split(","):
            want_en[int(c)] = False
    elif op[0] == "v":
        v, cs = op[1:].split(":")
        for c in cs.split(","):
            want_div[int(c)] = int(v)
    elif op == "D":
        want_en[:], want_div[:] = [False] * n, [0] * n
    elif op == "A":
        want_en[:] = [True] * n
    elif op == "N":
        want_en[:] = [False] * n


def run_dummy_history(flags, rxp, types, en0, div0, ops):
    """the real CommHandler connected to nxslib's own simulated device `intf/dummy.py::DummyDev` (its receive thread, the
    real dispatcher and `_enable_cb/_div_cb`) under the virtual-time runtime.  The device is built through the public
    constructor from channel objects the harness keeps; its state is read from those objects.
    -> (per op: (exception name | None, device 'en/div' after the op), thread errors)"""
    import vsim
    out = []

    def scenario(sim):
        from nxslib.comm import CommHandler
        from nxslib.proto.parse import Parser
        from nxslib.intf.dummy import DummyDev
        from nxslib.dev import DeviceChannel
        n = len(en0)
        objs = [DeviceChannel(i, types[i], 0 if (types[i] & 0x1F) < 2 else 1, f"c{i}", en=bool(en0[i]), div=int(div0[i]))
                for i in range(n)]
        intf = DummyDev(chmax=n, flags=flags, channels=objs, rxpadding=rxp)
        comm = CommHandler(intf, Parser())
        try:
            comm.connect()
            for op in ops:
                err = None
                try:
                    if op == "D":
                        comm.channels_default_cfg()
                    elif op == "A":
                        comm.ch_enable_all()
                    elif op == "N":
                        comm.ch_disable_all()
                    elif op.startswith("W:"):
                        comm.channels_write()
                    elif op[0] == "e":
                        comm.ch_enable([int(x) for x in op[1:].split(",")])
                    elif op[0] == "d":
                        comm.ch_disable([int(x) for x in op[1:].split(",")])
                    elif op[0] == "v":
                        v, cs = op[1:].split(":")
                        comm.ch_divider([int(x) for x in cs.split(",")], int(v))
                    else:
                        raise ValueError(op)
                except Exception as e:
                    err = exc_name(e)
                if op.startswith("W:"):
                    # a device without ACK support handles the requests some time after channels_write() returned:
                    # let its receive thread take what was written before its state is read
                    sim.block(lambda: False, 0.5, "settle")
                out.append((err, f"{bits(o.data.en for o in objs)}/{ints(o.data.div for o in objs)}"))
        finally:
            try:
                comm.disconnect()
            finally:
                intf.stop = lambda: None      # a late __del__ must not touch the simulation's primitives

    r, sim = vsim.run_sim(scenario, time_limit=3000.0, real_limit=30.0)
    if isinstance(r, BaseException):
        raise r
    return out, [(a, repr(b)) for a, b, _ in sim.errors]


def judge_dummy_session(line):
    """sess dummy <flags> <rxp> <types> <en> <div> <ops>: after every channels_write() the state held by the simulated
    device == the state the caller asked for"""
    t = line.split(" ")
    flags, rxp, types, en0, div0, ops = int(t[2]), int(t[3]), unints(t[4]), unbits(t[5]), unints(t[6]), t[7].split(";")
    n = len(en0)

    def bad(key, what, exp, obs):
        return {"key": key, "what": what, "expected": exp, "observed": obs, "case": line}
    try:
        out, errors = run_dummy_history(flags, rxp, types, en0, div0, ops)
    except Exception as e:
        return bad("dummy-session-raises", f"session against DummyDev raised {type(e).__name__}: {e}", "no exception", exc_name(e))
    if errors:
        return bad("dummy-session-thread-died", "a library thread died: " + repr(errors[0]), "-", "-")
    want_en, want_div = [bool(x) for x in en0], list(div0)
    done = []
    for op, (err, st) in zip(ops, out):
        done.append(op)
        if err:
            return bad("dummy-session-call-raises", f"call {op} raised (after {';'.join(done[:-1])})", "no exception", err)
        apply_call(op, want_en, want_div, n)
        if op.startswith("W:"):
            exp = f"{bits(want_en)}/{ints(want_div if flags & 1 else div0)}"
            if st != exp:
                return bad("dummy-session-device-state",
                           f"nxslib's simulated device DummyDev(chmax={n}, flags={flags}, rxpadding={rxp}), channel types {ints(types)}, state "
                           f"at connect en={bits(en0)} div={ints(div0)}; caller (CommHandler): {';'.join(done)}; the state the device holds "
                           "after this channels_write() differs from the state the caller asked for" + state_diff(exp, st), exp, st)
    return None


def judge_session(line):
    """run the session on the real code; return (violation or None, stats)"""
    import sessionlib as sl
    t = line.split(" ")
    flags, en0, div0, ops = int(t[2]), unbits(t[3]), unints(t[4]), t[5].split(";")
    n = len(en0)
    stats = {"en": {}, "div": {}}

    def bad(key, what, exp, obs):
        return {"key": key, "what": what, "expected": exp, "observed": obs, "case": line}, stats
    try:
        out, info = sl.run_cfg_history(flags, en0, div0, ops)
    except Exception as e:
        return bad("session-raises", f"session raised {type(e).__name__}: {e}", "no exception", exc_name(e))
    if info["errors"]:
        return bad("session-thread-died", "a library thread died: " + repr(info["errors"][0]), "-", "-")
    dev = RealDevice(n, en0, div0)
    want_en, want_div = list(en0), list(div0)
    done = []
    for op, st in zip(ops, out):
        f = dict(kv.split("=", 1) for kv in st.split(";"))
        done.append(op)
        if f["e"] != "-":
            return bad("session-call-raises", f"call {op} raised", "no exception", f["e"])
        apply_call(op, want_en, want_div, n)
        # what became of the requests of this write on their way (W:<div request>:<enable request>; a = acknowledged,
        # x = applied but the ACK is lost, l = lost, n<r> = rejected with return code r)
        fate = {"div": "a", "en": "a"}
        if op.startswith("W:"):
            fate["div"], fate["en"] = op.split(":")[1:3]
        sent = [] if f["s"] == "-" else [unhex(x) for x in f["s"].split(",")]
        for w in sent:
            fr = split_frame(w)
            if fr is None or fr[0] not in (6, 7):
                continue
            kind = "en" if fr[0] == 6 else "div"
            stats[kind][form_of(fr[1])] = stats[kind].get(form_of(fr[1]), 0) + 1
            if fate[kind] not in ("a", "x"):
                continue                       # never reached the device / was rejected by it
            r = dev.recv(w)
            if not r.startswith("cb"):
                return bad("session-request-not-understood",
                           f"after calls {';'.join(done)} the client wrote {hexs(w)} ({kind} request, {form_of(fr[1])} form) "
                           f"which the device-side dispatcher/decoder did not accept", "callback runs", r)
        if op.startswith("W:") and fate["div"] == "a" and fate["en"] == "a":
            exp_div = want_div if flags & 1 else div0
            if dev.en() != [bool(x) for x in want_en] or dev.div() != exp_div:
                return bad("session-device-state",
                           f"device with {n} channels, state at connect en={bits(en0)} div={ints(div0)}, flags={flags}; caller: "
                           f"{';'.join(done)} (W:<d>:<e> = channels_write() whose divider / enable request was a: acknowledged, "
                           f"x: applied but the ACK was lost, l: lost, n<r>: rejected); requests written by this write: "
                           f"{','.join(hexs(sl.strip_pad(w)) for w in sent) or '-'}; "
                           "state derived by the device-side decoders (ParseRecv.frame_enable_decode/frame_div_decode on a "
                           "Device updated by per-channel writes) differs from the state the caller asked for"
                           + state_diff(f"{bits(want_en)}/{ints(exp_div)}", f"{bits(dev.en())}/{ints(dev.div())}"),
                           f"{bits(want_en)}/{ints(exp_div)}", f"{bits(dev.en())}/{ints(dev.div())}")
    return None, stats


class C05(Prop):
    id = "C05"
    lean_module = "NxsModel.Props.C05"
    rule = ("request builders (start, cmninfo, chinfo, enable/div in single, all, bulk form) and device-side decoders (given a "
            "real Device) for channel counts {1,2,3,16,64,127,128,129,200,254,255} x all channel ids x values 0..255 (sampled in "
            "quick), random and structured vectors (one-off from constant, two-valued, v / v^0x80 pairs, all-equal-nonzero, "
            "all-nonzero-distinct) and current states, out-of-range arguments; request histories on one long-lived Device "
            "through the real dispatcher (single/bulk/all of both kinds interleaved, other requests and noise in between), "
            "built by hand and by the real client builders; session level: real CommHandler against a reference device with "
            "channels already enabled / dividers set at connect, every emitted set request decoded by the real device side "
            "(writes that turn one channel on and another off, writes after a lost ACK / lost / rejected request), and against "
            "nxslib's own DummyDev with channels of every type class; devices carry type bytes with the critical / reserved bits, "
            "UNDEF and NONE; requests whose frame ends in a zero byte; "
            "distinct = distinct (op,input); non-trivial = everything except the constant cmninfo request")
    assumptions = ["CPython struct modelled by Struct.lean (cross-checked by these cases)",
                   "session-level part: virtual-time runtime (harness/vsim.py) and reference device (harness/refdev.py)",
                   "enable vectors are lists of real bools (API typed list[bool]); int-valued vectors are outside the statements"]
    NS = [1, 2, 3, 16, 64, 127, 128, 129, 200, 254, 255]

    def __init__(self):
        from nxslib.proto.parse import Parser
        from nxslib.proto.parserecv import ParseRecv
        from nxslib.proto.iparserecv import ParseRecvCb
        self.P = Parser()
        n = lambda d: None
        self.R = ParseRecv(ParseRecvCb(n, n, n, n, n))

    # -- generators ---------------------------------------------------------------------------------------------------
    def hist_lines(self, rng, T):
        """device-side histories on one long-lived device, frames by the harness's own encoder"""
        for it in range(160 if T else 36):
            n = rng.choice([2, 3, 4, 5, 8, 16]) if it % 6 != 5 else rng.choice([1, 64, 128, 129, 200, 255])
            en = [rng.random() < 0.5 for _ in range(n)]
            div = [rng.choice([0, 0, 1, 5, 128, 200, 255]) for _ in range(n)]
            ws = []
            tag = "hist"

            def single(kind):
                v = rng.randrange(2) if kind == 6 else rng.choice([0, 1, 127, 128, 255, rng.randrange(256)])
                return ref_frame(kind, bytes([0, rng.randrange(n), v]))

            def whole(kind):
                if rng.random() < 0.35:
                    return ref_frame(kind, bytes([2, 0, rng.randrange(2) if kind == 6 else rng.choice([0, 3, 128, 255])]))
                vs = [rng.randrange(2) for _ in range(n)] if kind == 6 else rng.choice(structured_divs(rng, n))[0]
                return ref_frame(kind, bytes([1, 0] + [int(v) for v in vs]))
            # the patterns of the review: single -> bulk/all -> single, for both kinds, interleaved
            for _ in range(rng.randrange(1, 4)):
                k = rng.choice([6, 7])
                ws += [single(k), whole(k), single(k)]
                if rng.random() < 0.5:
                    ws += [single(13 - k), whole(13 - k), single(13 - k)]
                if rng.random() < 0.4:
                    ws.append(rng.choice([ref_frame(2, b""), ref_frame(3, bytes([rng.randrange(n)])),
                                          ref_frame(5, bytes([rng.randrange(2)])), bytes(rng.randrange(1, 9)),
                                          b"\x00\x13" + ref_frame(6, bytes([0, 0, 1])) + bytes(3)]))
            if it % 9 == 4:
                tag = "hist-malformed"
                bad = rng.choice([ref_frame(6, bytes([0, n, 1])), ref_frame(7, bytes([3, 0, 1])), ref_frame(6, bytes([1, 0] + [1] * (n - 1))),
                                  ref_frame(7, bytes([0, 0])), ref_frame(4, b"\0\0\0\0"), ref_frame(6, b""), ref_frame(2, b"\1"),
                                  ref_frame(6, bytes([0, 0, 1]))[:-1] + b"\x00"])
                ws.insert(rng.randrange(len(ws) + 1), bad)
            yield f"req hist {n} {bits(en)} {ints(div)} {','.join(hexs(w) for w in ws)}", tag

    def sess_lines(self, rng, T):
        """the same device fed by the real client builders"""
        for it in range(200 if T else 40):
            n = rng.choice([2, 3, 4, 5, 8, 16]) if it % 6 != 5 else rng.choice([1, 64, 128, 129, 200, 255])
            en = [rng.random() < 0.5 for _ in range(n)]
            div = [rng.choice([0, 0, 1, 5, 128, 200, 255]) for _ in range(n)]
            pad = rng.choice([0, 0, 1, 3, 4, 16, 64, 255])
            asks = []
            for _ in range(rng.randrange(3, 9)):
                r = rng.random()
                if r < 0.25:
                    asks.append(f"e{rng.randrange(n)}={rng.randrange(2)}")
                elif r < 0.5:
                    asks.append(f"d{rng.randrange(n)}={rng.choice([0, 1, 127, 128, 255, rng.randrange(256)])}")
                elif r < 0.72:
                    vs = rng.choice(structured_ens(rng, n) + [([rng.random() < 0.5 for _ in range(n)], ""), ([rng.random() < 0.5] * n, "")])[0]
                    asks.append("E" + bits(vs))
                else:
                    vs = rng.choice(structured_divs(rng, n) + [([rng.randrange(256) for _ in range(n)], "")])[0]
                    asks.append("D" + ints(vs))
            tag = "sess"
            if it % 10 == 7:
                tag = "sess-malformed"
                asks.insert(rng.randrange(len(asks) + 1), rng.choice([f"e{n}=1", "d0=256", "E" + "1" * (n + 1), "D" + ints([1] * (n - 1) or [1, 1])]))
            yield f"req sess {n} {pad} {bits(en)} {ints(div)} {';'.join(asks)}", tag

    def cases(self, rng, tier):
        T = tier == "thorough"
        yield "req start 0", "start"
        yield "req start 1", "start"
        yield "req cmninfo", "cmninfo"
        for c in list(range(256)) + [-1, 256, 300]:
            yield f"req chinfo {c}", "chinfo"
        for v in range(256):
            yield f"req dstart {hexs(bytes([v]))}", "dstart"
        yield "req dstart -", "dstart"
        yield "req dstart 0100", "dstart"
        for n in self.NS:
            chans = range(n) if T else sorted(set([0, n - 1, n // 2] + [rng.randrange(n) for _ in range(6)]))
            for c in chans:
                vals = range(256) if (T and n <= 3) else [0, 1, 127, 128, 200, 255, rng.randrange(256)]
                for v in vals:
                    yield f"req div single {c} {v} {n}", "div-single"
                    cur = [rng.randrange(256) for _ in range(n)]
                    yield f"req ddiv {hexs(bytes([0, c, v]))} {n} {ints(cur)}", "ddiv-single"
                for v in (0, 1):
                    yield f"req en single {c} {v} {n}", "en-single"
                    cur = [rng.random() < 0.5 for _ in range(n)]
                    yield f"req den {hexs(bytes([0, c, v]))} {n} {bits(cur)}", "den-single"
            for v in (range(256) if T else [0, 1, 2, 127, 128, 255]):
                yield f"req div vec {ints([v] * n)} {n}", "div-all"
                yield f"req ddiv {hexs(bytes([2, 0, v]))} {n} {ints([rng.randrange(256) for _ in range(n)])}", "ddiv-all"
                yield f"req den {hexs(bytes([2, 0, v]))} {n} {bits([rng.random() < 0.5 for _ in range(n)])}", "den-all"
            for v in (0, 1):
                yield f"req en vec {bits([v] * n)} {n}", "en-all"
            for _ in range(30 if T else 6):
                vs = [rng.randrange(256) for _ in range(n)]
                yield f"req div vec {ints(vs)} {n}", "div-bulk"
                yield f"req ddiv {hexs(bytes([1, 0] + vs))} {n} {ints([0] * n)}", "ddiv-bulk"
                es = [rng.random() < 0.5 for _ in range(n)]
                yield f"req en vec {bits(es)} {n}", "en-bulk"
                yield f"req den {hexs(bytes([1, 0] + [int(e) for e in es]))} {n} {bits([False] * n)}", "den-bulk"
                yield f"req den {hexs(bytes([1, 0] + [rng.randrange(256) for _ in es]))} {n} {bits([False] * n)}", "den-bulk-anybyte"
            for _ in range(4 if T else 1):
                for vs, tag in structured_divs(rng, n):
                    yield f"req div vec {ints(vs)} {n}", "div-vec-" + tag
                    yield f"req ddiv {hexs(bytes([1, 0] + vs))} {n} {ints([rng.randrange(256) for _ in range(n)])}", "ddiv-bulk-" + tag
                for es, tag in structured_ens(rng, n):
                    yield f"req en vec {bits(es)} {n}", "en-vec-" + tag
                    yield f"req den {hexs(bytes([1, 0] + [int(e) for e in es]))} {n} {bits([rng.random() < 0.5 for _ in range(n)])}", "den-bulk-" + tag
        # requests whose frame ends in a zero byte (low CRC byte 00; about one divider value per channel, enable of channels 70
        # and 207, "all dividers = 120"): a device-side receiver must not take the byte for write padding
        for n in self.NS:
            for c in (range(n) if T else sorted(set([0, n - 1] + [rng.randrange(n) for _ in range(4)]))):
                for v in range(256):
                    if ref_frame(7, bytes([0, c, v]))[-1] == 0:
                        yield f"req div single {c} {v} {n}", "div-single-crc00"
                        if c < 16 or (T and c % 4 == 0):
                            pad = rng.choice([0, 4, 16, 255])
                            yield (f"req sess {n} {pad} {bits([False] * n)} {ints([0] * n)} d{c}={v};e{c}=1"), "sess-crc00"
                            yield (f"req hist {n} {bits([False] * n)} {ints([1] * n)} "
                                   f"{hexs(ref_frame(7, bytes([0, c, v])) + bytes(rng.choice([0, 3, 16])))}"), "hist-crc00"
            for c in (70, 207):
                if c < n:
                    yield f"req en single {c} 1 {n}", "en-single-crc00"
                    yield f"req sess {n} 16 {bits([False] * n)} {ints([0] * n)} e{c}=1;d0=120", "sess-crc00"
            yield f"req div vec {ints([120] * n)} {n}", "div-all-crc00"
            yield f"req sess {n} 8 {bits([False] * n)} {ints([0] * n)} D{ints([120] * n)}", "sess-crc00"
        yield from self.hist_lines(rng, T)
        yield from self.sess_lines(rng, T)
        # malformed / out-of-range
        for line in ["req div single 0 256 4", "req div single 0 -1 4", "req div single 256 1 4", "req div single -1 1 4",
                     "req en single 256 1 4", "req div vec 1,2,300 3", "req div vec 1,2 3", "req en vec 10 3", "req en vec - 0",
                     "req div vec - 0", "req en vec 101 2", "req div vec 5,5 3", "req div vec 5,5,5,5 3",
                     "req den 0300 2 00", "req den 00 2 00", "req den - 2 00", "req den 000501 2 00", "req ddiv 000501 2 0,0",
                     "req den 0100 2 00", "req den 01000101 3 000", "req den 0100010101 3 000", "req ddiv 0100 2 0,0",
                     "req den 0200 2 00", "req ddiv 0200 2 0,0", "req den 0000 2 00", "req ddiv 0000 2 0,0"]:
            yield line, "malformed"

    # -- the real code ------------------------------------------------------------------------------------------------
    def run_hist(self, t):
        n = int(t[2])
        dev = RealDevice(n, unbits(t[3]), unints(t[4]))
        return [dev.recv(unhex(w)) for w in t[5].split(",")]

    def build_ask(self, a, n):
        if a[0] == "e":
            c, v = a[1:].split("=")
            return self.P.frame_enable((int(c), bool(int(v))), n)
        if a[0] == "E":
            return self.P.frame_enable(unbits(a[1:] or "-"), n)
        if a[0] == "d":
            c, v = a[1:].split("=")
            return self.P.frame_div((int(c), int(v)), n)
        if a[0] == "D":
            return self.P.frame_div(unints(a[1:] or "-"), n)
        raise ValueError(a)

    @staticmethod
    def aligner(pad):
        from nxslib.intf.iintf import CommInterfaceCommon
        intf = CommInterfaceCommon(lambda: b"", lambda d: None)
        intf.write_padding = pad
        return intf.data_align

    def run_sess(self, t, trace=None):
        """-> final output line; trace (list) receives (ask, written bytes, device answer) per step"""
        n, pad = int(t[2]), int(t[3])
        dev = RealDevice(n, unbits(t[4]), unints(t[5]))
        align = self.aligner(pad)
        for a in t[6].split(";"):
            try:
                w = align(self.build_ask(a, n))
            except Exception as e:
                if trace is not None:
                    trace.append((a, None, "err " + exc_name(e)))
                return "err " + exc_name(e)
            r = dev.recv(w)
            if trace is not None:
                trace.append((a, w, r))
            if r.startswith("err"):
                return r
        return f"ok {bits(dev.en())}/{ints(dev.div())}"

    def impl(self, line):
        t = line.split(" ")
        try:
            if t[1] == "start":
                return "ok " + hexs(self.P.frame_start(bool(int(t[2]))))
            if t[1] == "cmninfo":
                return "ok " + hexs(self.P.frame_cmninfo())
            if t[1] == "chinfo":
                return "ok " + hexs(self.P.frame_chinfo(int(t[2])))
            if t[1] == "en":
                n = int(t[-1])
                if t[2] == "single":
                    return "ok " + hexs(self.P.frame_enable((int(t[3]), bool(int(t[4]))), n))
                return "ok " + hexs(self.P.frame_enable(unbits(t[3]), n))
            if t[1] == "div":
                n = int(t[-1])
                if t[2] == "single":
                    return "ok " + hexs(self.P.frame_div((int(t[3]), int(t[4])), n))
                return "ok " + hexs(self.P.frame_div(unints(t[3]), n))
            if t[1] == "dstart":
                return "ok " + ("1" if self.R.frame_start_decode(unhex(t[2])) else "0")
            if t[1] == "den":
                n = int(t[3])
                r = self.R.frame_enable_decode(unhex(t[2]), mk_device(n, unbits(t[4]), other_vec(line, n, "en")))
                return "ok " + bits(bool(x) for x in r)
            if t[1] == "ddiv":
                n = int(t[3])
                r = self.R.frame_div_decode(unhex(t[2]), mk_device(n, other_vec(line, n, "div"), unints(t[4])))
                return "ok " + ints(r)
            if t[1] == "hist":
                return "ok " + " | ".join(self.run_hist(t))
            if t[1] == "sess":
                return self.run_sess(t)
        except Exception as e:
            return "err " + exc_name(e)
        raise ValueError(line)

    def nontrivial(self, line, out):
        return line != "req cmninfo"

    # -- the property ---------------------------------------------------------------------------------------------------
    def oracle(self, line, impl_out=None):
        """builders: emitted bytes are the NxScope encoding; device decoder on that payload recovers the intent;
        whichever form is picked — and whatever was received before on the same device — the derived state equals the
        intended state."""
        t = line.split(" ")
        if t[0] == "sess":
            return judge_dummy_session(line) if t[1] == "dummy" else judge_session(line)[0]
        from nxslib.proto.parse import Parser
        from nxslib.proto.parserecv import ParseRecv
        from nxslib.proto.iparserecv import ParseRecvCb
        P = Parser()
        nn = lambda d: None
        R = ParseRecv(ParseRecvCb(nn, nn, nn, nn, nn))

        def bad(key, what, exp, obs):
            return {"key": key, "what": what, "expected": exp, "observed": obs}
        try:
            if t[1] == "start":
                b = bool(int(t[2]))
                f = P.frame_start(b)
                if f != ref_frame(5, bytes([int(b)])):
                    return bad("start-bytes", "start request bytes", hexs(ref_frame(5, bytes([int(b)]))), hexs(f))
                if R.frame_start_decode(f[4:-2]) is not b:
                    return bad("start-decode", "device decodes start flag", str(b), "other")
            elif t[1] == "cmninfo":
                if P.frame_cmninfo() != ref_frame(2, b""):
                    return bad("cmninfo-bytes", "cmninfo request bytes", hexs(ref_frame(2, b"")), hexs(P.frame_cmninfo()))
            elif t[1] == "chinfo":
                c = int(t[2])
                if 0 <= c <= 255:
                    f = P.frame_chinfo(c)
                    if f != ref_frame(3, bytes([c])):
                        return bad("chinfo-bytes", f"chinfo request for channel {c}", hexs(ref_frame(3, bytes([c]))), hexs(f))
                    got = []
                    ParseRecv(ParseRecvCb(nn, got.append, nn, nn, nn)).recv_handle(f)
                    if got != [bytes([c])]:
                        return bad("chinfo-dispatch", f"payload handed to the device's chinfo callback for channel {c}",
                                   hexs(bytes([c])), repr(got))
            elif t[1] in ("en", "div") and t[2] in ("single", "vec"):
                n = int(t[-1])
                kind = t[1]
                if t[2] == "single":
                    c, v = int(t[3]), int(t[4])
                    if not (1 <= n <= 255 and 0 <= c < n and 0 <= v <= 255):
                        return None
                    req = ("single", c, v)
                    arg = (c, bool(v)) if kind == "en" else (c, v)
                else:
                    vs = unbits(t[3]) if kind == "en" else unints(t[3])
                    if not (1 <= n <= 255 and len(vs) == n and all(0 <= int(v) <= 255 for v in vs)):
                        return None
                    req = ("vec", vs)
                    arg = vs
                f = (P.frame_enable if kind == "en" else P.frame_div)(arg, n)
                fid = 6 if kind == "en" else 7
                exp = ref_frame(fid, spec_payload(kind, req, n))
                if f != exp:
                    return bad(f"{kind}-bytes", f"{kind} request {req[0]} bytes", hexs(exp), hexs(f))
                # device side (dispatcher + decoder + per-channel writes) on what the client emitted, from an arbitrary state
                # (single-channel requests of big devices: one line in three — every channel id of every device size also
                # goes through the decoders in the den/ddiv lines)
                if req[0] == "single" and n > 16 and zlib.crc32(line.encode()) % 3:
                    return None
                r = random.Random(line)
                cur_en = [r.randrange(2) for _ in range(n)]
                cur_div = [r.randrange(256) for _ in range(n)]
                dev = RealDevice(n, cur_en, cur_div)
                ans = dev.recv(f)
                if kind == "en":
                    want = ([int(bool(x)) for x in apply_spec(f[4:-2], cur_en)], cur_div)
                else:
                    want = (cur_en, apply_spec(f[4:-2], cur_div))
                got = ([int(x) for x in dev.en()], dev.div())
                if not ans.startswith("cb") or got != want:
                    ws, gs = f"{bits(want[0])}/{ints(want[1])}", f"{bits(got[0])}/{ints(got[1])}"
                    return bad(f"{kind}-device-state", f"state the device (en={bits(cur_en)} div={ints(cur_div)} before) derives from "
                               f"the {req[0]} {kind} request {hexs(f)}" + state_diff(ws, gs), ws,
                               gs if ans.startswith("cb") else ans)
            elif t[1] in ("den", "ddiv"):
                d = unhex(t[2])
                n = int(t[3])
                kind = "en" if t[1] == "den" else "div"
                cur = [int(x) for x in unbits(t[4])] if kind == "en" else unints(t[4])
                if not (len(cur) == n and n >= 1 and wellformed_set(d, n)):
                    return None
                want = apply_spec(d, cur)
                oth = other_vec(line, n, kind)
                if kind == "en":
                    got = [int(bool(x)) for x in R.frame_enable_decode(d, mk_device(n, cur, oth))]
                    want = [int(bool(x)) for x in want]
                else:
                    got = list(R.frame_div_decode(d, mk_device(n, oth, cur)))
                if got != want:
                    dl = [f"[{i}] {a}->{b}" for i, (a, b) in enumerate(zip(want, got)) if a != b or type(a) is not type(b)]
                    return bad(f"{kind}-decode", f"device-side {kind} decoder on payload {hexs(d)} ({form_of(d)} form), {n} channels; "
                               f"differs (intended->decoded) at {', '.join(dl[:8])}" + (f" and {len(dl) - 8} more" if len(dl) > 8 else "")
                               + f" (length {len(want)}->{len(got)}); device state before: "
                               + (f"en={bits(cur)} div={ints(oth)}" if kind == "en" else f"en={bits(oth)} div={ints(cur)}"),
                               str(want), str(got))
            elif t[1] == "dstart":
                d = unhex(t[2])
                if len(d) == 1:
                    if R.frame_start_decode(d) is not (d[0] != 0):
                        return bad("dstart", "device-side start decoder", str(d[0] != 0), "other")
            elif t[1] == "hist":
                return self.oracle_hist(t)
            elif t[1] == "sess":
                return self.oracle_sess(t)
        except Exception as e:
            return bad("request-raises", f"well-formed request raised {type(e).__name__}: {e}", "no exception", exc_name(e))
        return None

    def oracle_hist(self, t):
        """each well-formed set request received by one long-lived device changes its state as the protocol says"""
        n = int(t[2])
        en, div = [int(x) for x in unbits(t[3])], unints(t[4])
        if n < 1 or len(en) != n or len(div) != n:
            return None
        dev = RealDevice(n, en, div)
        seen = []
        for wx in t[5].split(","):
            w = unhex(wx)
            fr = split_frame(w)
            if fr is None:
                exp = "ign"
            elif fr[0] in (6, 7):
                if not wellformed_set(fr[1], n):
                    return None          # outside the quantifier from here on
                if fr[0] == 6:
                    en = [int(bool(x)) for x in apply_spec(fr[1], en)]
                else:
                    div = apply_spec(fr[1], div)
                exp = f"cb{fr[0] - 4} {bits(en)}/{ints(div)}"
            elif (fr[0], len(fr[1])) in ((2, 0), (3, 1), (5, 1)):
                exp = f"cb{ {2: 0, 3: 1, 5: 4}[fr[0]]} {bits(en)}/{ints(div)}"
            else:
                return None
            got = dev.recv(w)
            seen.append(wx)
            if got != exp:
                what = (f"device with {n} channels (en={t[3]} div={t[4]} at first), after receiving {','.join(seen[:-1]) or 'nothing'}: "
                        f"outcome of receiving {wx}" + (f" ({'enable' if fr[0] == 6 else 'divider'} request, {form_of(fr[1])} form)"
                                                        if fr and fr[0] in (6, 7) else ""))
                if exp.startswith("cb") and got.startswith("cb"):
                    what += state_diff(exp.split(" ")[1], got.split(" ")[1])
                return {"key": "hist-device-state", "what": what, "expected": exp, "observed": got}
        return None

    def oracle_sess(self, t):
        """the caller's asks, applied one after the other, are the device's state — whichever form each one travelled in"""
        n = int(t[2])
        en, div = [int(x) for x in unbits(t[4])], unints(t[5])
        asks = t[6].split(";")
        if n < 1 or len(en) != n or len(div) != n:
            return None
        want = []
        for a in asks:
            if a[0] in "ed":
                c, v = (int(x) for x in a[1:].split("="))
                if not (0 <= c < n and 0 <= v <= (1 if a[0] == "e" else 255)):
                    return None
                if a[0] == "e":
                    en = en[:c] + [v] + en[c + 1:]
                else:
                    div = div[:c] + [v] + div[c + 1:]
            else:
                vs = [int(x) for x in unbits(a[1:] or "-")] if a[0] == "E" else unints(a[1:] or "-")
                if len(vs) != n or not all(0 <= v <= 255 for v in vs):
                    return None
                if a[0] == "E":
                    en = vs
                else:
                    div = vs
            want.append(f"{bits(en)}/{ints(div)}")
        trace = []
        self.run_sess(t, trace)
        for i, (a, w, r) in enumerate(trace):
            if not r.startswith("cb") or r.split(" ")[1] != want[i]:
                fr = split_frame(w) if w else None
                return {"key": "sess-device-state",
                        "what": f"device with {n} channels (en={t[4]} div={t[5]} at first), asks {';'.join(asks[:i + 1])}: the last one was "
                                f"written as {hexs(w) if w else '-'}" + (f" ({form_of(fr[1])} form)" if fr else "") + "; device state after it"
                                + (state_diff(want[i], r.split(" ")[1]) if r.startswith("cb") else ""),
                        "expected": want[i], "observed": r.split(" ")[1] if r.startswith("cb") else r}
        return None

    # -- session level ----------------------------------------------------------------------------------------------------
    def session_lines(self, rng, tier):
        T = tier == "thorough"
        # the two shapes named in the review, fixed
        yield "sess cfg 3 1000 0,0,0,0 e1,2;W:a:a"
        yield "sess cfg 3 0100 0,6,0,0 e0;v5:0;W:a:a;e2,3;v7:2,3;W:a:a;d0;v9:3;W:a:a"
        # second review: one write turning one channel on and another off; a single-channel difference after a write whose
        # ACK was lost; the same against nxslib's own simulated device with an undefined-type and a critical channel
        yield "sess cfg 3 1100 0,0,0,0 e2;d0;W:a:a"
        yield "sess cfg 3 1000 0,0,0,0 e1;W:a:x;d1;e2;W:a:a"
        yield "sess cfg 3 1000 4,0,0,0 v5:1;W:x:a;v0:1;v7:2;W:a:a"
        yield "sess dummy 3 16 0,130,2,138 0100 0,0,3,0 e0,2;v9:1,3;W:a:a;e3;d1;W:a:a"
        for it in range(150 if T else 40):
            n = rng.choice([2, 3, 4, 5, 6, 8]) if it % 8 else rng.choice([16, 64, 130, 255])
            yield gen_session(rng, n)
        for it in range(60 if T else 14):
            n = rng.choice([2, 3, 4, 5, 6, 8]) if it % 8 else rng.choice([16, 130, 255])
            yield gen_session(rng, n, dummy=True)

    def extra_checks(self, rng, tier, ev):
        out = []
        forms = {"en": {}, "div": {}}
        k = kd = 0
        per_key = {}
        for line in self.session_lines(rng, tier):
            if line.startswith("sess dummy"):
                kd += 1
                v, st = judge_dummy_session(line), {"en": {}, "div": {}}
            else:
                k += 1
                v, st = judge_session(line)
            for kind in forms:
                for f, c in st[kind].items():
                    forms[kind][f] = forms[kind].get(f, 0) + c
            if v:
                per_key[v["key"]] = per_key.get(v["key"], 0) + 1
                if per_key[v["key"]] <= 3:
                    out.append(v)
                if len(out) >= 6:
                    break
        ev["coverage"]["sessions"] = {"run": k, "run_against_dummydev": kd, "request_forms_emitted": forms}
        return out


PROP = C05()
