"""C19 — device and channel descriptions are read-only apart from enable and divider.

Case lines (one record, one HISTORY of things done with it; the whole `__dict__` is dumped after construction
and after every step, by the real code and by the Lean driver `rec seq …`):

    rec seq chan <route> <chan>,<_type>,<vdim>,<name>,<en>,<div>,<mlen> <steps>
    rec seq dev  <route> <chmax>,<flags>,<rxpadding> <steps>

<route> = how the application got hold of the real record:
    direct    DDeviceChannelData(...) / DDeviceData(...)
    devchan   DeviceChannel(...).data
    device    Device(n, flags, rxpadding, [DeviceChannel…]).channel_get(j).data  /  Device(...).data
    device.<f> (channel records) the same with device flags <f> instead of 3: a device WITHOUT divider / ACK support (flags 0, 2, 1, …)
              — en and div of its channel descriptions stay assignable all the same (seeded C19-r5m2); the Lean driver ignores the route
    decoded   Parser().frame_chinfo_decode(<chinfo frame built by hand>, chan).data
    session   NxscopeHandler connected (virtual time) to the harness's reference device:
              nx.dev_channel_get(j).data / nx.dev.data
values: N | T | F | i<decimal> | s<hex utf-8> | o<truthy>.<index into OTHERS>   (see tok / val)
steps (`;`-separated, `-` none):  <name>=<value> | <name>=cur (assign the CURRENT value) |
    !<name>=<value> (the LIBRARY assigns: Device.en_channels_update / div_channels_update, or ch_enable/ch_divider +
    channels_write on the connected handler) | @copy | @deepcopy | @pickle | @pickle2 | @replace (go on with the copy)

Device-level lines (ALL the records reachable from one `Device`, Lean driver `rec devseq …`, model `DevRecords.lean`):

    rec devseq <chmax>,<flags>,<rxpadding> <chanspec>/<chanspec>/… <steps>        (`-`: no channels / no steps)

<chanspec> = <chan>,<_type>,<vdim>,<name>,<en>,<div>,<mlen>: Device(chmax, flags, rxpadding, [DeviceChannel(*chanspec), …]).
steps: c<i>:<name>=<value> (dev.channel_get(i).data.<name> = value; i may be out of range) | d:<name>=<value> (dev.data.<name> = value) |
    E:<v>,<v>,… (dev.en_channels_update([...]), any length, `E:-` the empty list) | D:<v>,… (dev.div_channels_update([...])); value `cur` as above.
output: per step `ok|err:<exc>[<channels_en>|<channels_div>]`, then ` E:<channels_en> D:<channels_div> dev:<dump> ch:<dump>/<dump>…`.
The oracle (`_judge_dev`) keeps its own account: every item of every record other than en / div stays the very object construction put
there, en / div of channel j are the object last assigned by a step that had to go through (an application's en / div assignment to an
existing channel, a library update with a vector of the device's length), every other step must raise and change nothing.

The oracle judges the raw observations (exception, `__dict__` items by identity) of its own run of the real code; it
knows nothing of the model: a step assigning en / div of a channel record must not raise, must store the very object
given and change nothing else; every other assignment must raise TypeError and leave every item of `__dict__` the
identical object; derived attributes of a constructed record follow the type byte.

Outside the property (it speaks of ASSIGNING to a field): `del rec._initdone` unseals a record (the classes have no
`__delattr__`; the marker then falls back to the class default False), as do `rec.__dict__[...] = …`,
`object.__setattr__(rec, …)` and `setattr(rec, S("chan"), v)` with S a `str` subclass whose `__eq__` lies
(defeats `name not in ["div", "en"]`).  None of these is generated.
"""
import copy
import dataclasses
import fractions
import pickle
import re

import os
import sys
from common import Prop, exc_name


def _dev():
    import nxslib.dev as dev
    return dev


# ---------------------------------------------------------------------------------------------------------------
# values
# ---------------------------------------------------------------------------------------------------------------

class EqTrue:
    """equal to everything, hash collides with 1"""
    _c19tag = 19

    def __eq__(self, other):
        return True

    def __ne__(self, other):
        return False

    def __hash__(self):
        return hash(1)


class EqRaises:
    """comparing or hashing it raises"""
    _c19tag = 20

    def __eq__(self, other):
        raise RuntimeError("hostile __eq__")

    def __ne__(self, other):
        raise RuntimeError("hostile __ne__")

    def __hash__(self):
        raise RuntimeError("hostile __hash__")


class BoolRaises:
    """truth-testing it raises"""
    _c19tag = 21

    def __bool__(self):
        raise RuntimeError("hostile __bool__")


class IntSub(int):
    """an int subclass (== 1, hash 1, not `type() is int`)"""
    _c19tag = 22


class StrSub(str):
    _c19tag = 23


class Falsy:
    _c19tag = 24

    def __bool__(self):
        return False

    def __eq__(self, other):
        return other is None or other is False or other == 0

    __hash__ = None


# index -> (factory, truthy).  The index is part of the line protocol: append only.
OTHERS = [
    (lambda: 1.0, 1), (lambda: 0.0, 0), (lambda: 1.5, 1), (lambda: 3.0, 1), (lambda: float("nan"), 1),
    (lambda: float("inf"), 1), (lambda: -0.0, 0), (lambda: b"", 0), (lambda: b"ab", 1), (lambda: bytearray(b"x"), 1),
    (lambda: (), 0), (lambda: (1, 2), 1), (lambda: [], 0), (lambda: [1], 1), (lambda: {}, 0), (lambda: {"en": 1}, 1),
    (lambda: frozenset(), 0), (lambda: 1 + 0j, 1), (lambda: fractions.Fraction(1, 1), 1),
    (EqTrue, 1), (EqRaises, 1), (BoolRaises, 1), (lambda: IntSub(1), 1), (lambda: StrSub("en"), 1), (Falsy, 0),
    (lambda: int, 1), (lambda: range(3), 1), (lambda: 7.0, 1), (lambda: 255.0, 1), (lambda: 2.0, 1), (lambda: 18.0, 1),
]
_PLAIN_KEY = {}
for _i, (_f, _t) in enumerate(OTHERS):
    _o = _f()
    if not hasattr(type(_o), "_c19tag"):
        _PLAIN_KEY[(type(_o), repr(_o))] = _i
    else:
        assert type(_o)._c19tag == _i, (_i, type(_o))


def otok(i):
    return f"o{OTHERS[i][1]}.{i}"


def tok(v):
    """canonical token of a Python object found in a record"""
    if v is None:
        return "N"
    if v is True:
        return "T"
    if v is False:
        return "F"
    if type(v) is int:
        return f"i{v}"
    if type(v) is str:
        return "s" + (v.encode("utf-8", "surrogatepass").hex() or "-")
    tag = getattr(type(v), "_c19tag", None)
    if tag is None:
        tag = _PLAIN_KEY.get((type(v), repr(v)))
    if tag is None:
        return "?" + type(v).__name__
    return otok(tag)


def val(t):
    if t == "N":
        return None
    if t == "T":
        return True
    if t == "F":
        return False
    if t[0] == "i":
        return int(t[1:])
    if t[0] == "s":
        return "" if t == "s-" else bytes.fromhex(t[1:]).decode("utf-8")
    if t[0] == "o":
        return OTHERS[int(t.split(".")[1])][0]()
    raise ValueError(t)


_PLAIN = re.compile(r"[A-Za-z0-9_]+\Z")


def ntok(name):
    return name if _PLAIN.match(name) else "%" + (name.encode("utf-8").hex() or "-")


def nval(t):
    if t.startswith("%"):
        return "" if t == "%-" else bytes.fromhex(t[1:]).decode("utf-8")
    return t


def sval(s):
    return "s" + (s.encode().hex() or "-")


# ---------------------------------------------------------------------------------------------------------------
# running a line on the real code
# ---------------------------------------------------------------------------------------------------------------

COPIES = {
    "@copy": copy.copy,
    "@deepcopy": copy.deepcopy,
    "@pickle": lambda o: pickle.loads(pickle.dumps(o)),
    "@pickle2": lambda o: pickle.loads(pickle.dumps(o, protocol=2)),
    "@replace": lambda o: dataclasses.replace(o),
}


class Ctx:
    """the record under test plus the library-side handles of its route"""

    def __init__(self, rec, lib_assign=None, describe=""):
        self.rec = rec
        self.lib_assign = lib_assign        # callable(name, value) making the LIBRARY assign en / div of this record
        self.describe = describe


def _others_chan(j, n):
    """filler channels around the one under test (ids distinct from j)"""
    dev = _dev()
    return [dev.DeviceChannel(100 + k, 2 + k, 1, f"f{k}", en=bool(k & 1), div=k) for k in range(n) if k != j]


def route_flags(route):
    """`device` -> 3, `device.<f>` -> f: the flags of the Device that owns the channel record"""
    return int(route.split(".")[1]) if "." in route else 3


def build(kind, route, cv):
    """construct the real record through `route` from the constructor values cv"""
    dev = _dev()
    if kind == "chan":
        chan, ty, vdim, name, en, div, mlen = cv
        if route == "direct":
            return Ctx(dev.DDeviceChannelData(chan, ty, vdim, name, en, div, mlen), None, "DDeviceChannelData(...)")
        if route == "devchan":
            return Ctx(dev.DeviceChannel(chan, ty, vdim, name, en, div, mlen).data, None, "DeviceChannel(...).data")
        if route.split(".")[0] == "device":
            fl = route_flags(route)
            j = chan % 3
            n = j + 1 + (chan % 2)
            chans = _others_chan(j, n)
            chans.insert(j, dev.DeviceChannel(chan, ty, vdim, name, en, div, mlen))
            d = dev.Device(n, fl, 0, chans)

            def lib(nm, v, d=d, j=j):
                if nm == "en":
                    cur = d.channels_en
                    cur[j] = v
                    d.en_channels_update(cur)
                elif nm == "div":
                    cur = d.channels_div
                    cur[j] = v
                    d.div_channels_update(cur)
                else:
                    raise ValueError(nm)
            return Ctx(d.channel_get(j).data, lib, f"Device({n}, {fl}, 0, [...]).channel_get({j}).data")
        if route == "decoded":
            import struct
            from nxslib.proto.parse import Parser
            from nxslib.proto.iframe import DParseFrame, EParseId
            nb = name.encode("utf-8")
            payload = struct.pack(f"BBBBB{len(nb)}s", int(en), ty, vdim, div, mlen, nb)
            ch = Parser().frame_chinfo_decode(DParseFrame(EParseId.CHINFO, payload), chan)
            return Ctx(ch.data, None, "Parser().frame_chinfo_decode(frame, chan).data")
    else:
        chmax, flags, rxp = cv
        if route == "direct":
            return Ctx(dev.DDeviceData(chmax, flags, rxp), None, "DDeviceData(...)")
        if route == "device":
            chans = _others_chan(-1, chmax)
            return Ctx(dev.Device(chmax, flags, rxp, chans).data, None, f"Device({chmax}, {flags}, …).data")
    raise ValueError(f"route {kind}/{route}")


def run_steps(ctx, steps, obs):
    """run the history; obs gets (step token, name, value, exception | None, record, items of its __dict__)"""
    for st in steps:
        o = ctx.rec
        if st.startswith("@"):
            exc = None
            try:
                ctx.rec = COPIES[st](o)
                ctx.lib_assign = None
            except Exception as e:  # a copy that cannot be made is reported like any other exception
                exc = e
            obs.append((st, None, None, exc, ctx.rec, list(ctx.rec.__dict__.items())))
            continue
        lib = st.startswith("!")
        nm, vt = (st[1:] if lib else st).split("=")
        nm = nval(nm)
        v = getattr(o, nm, None) if vt == "cur" else val(vt)
        exc = None
        try:
            if lib and ctx.lib_assign is not None:
                ctx.lib_assign(nm, v)
            else:
                setattr(o, nm, v)
        except Exception as e:
            exc = e
        obs.append((st, nm, v, exc, o, list(o.__dict__.items())))


def execute(line):
    """-> (kind, route, ctor values, construction exception | None, observations).  observations[0] is the
    constructed record (step token None)."""
    t = line.split(" ")
    assert t[0] == "rec" and t[1] == "seq", line
    kind, route = t[2], t[3]
    cv = [val(x) for x in t[4].split(",")]
    steps = [] if t[5] == "-" else t[5].split(";")
    obs = []
    if route == "session":
        return kind, route, cv, *_session(kind, cv, steps, obs)
    try:
        ctx = build(kind, route, cv)
    except Exception as e:
        return kind, route, cv, e, obs
    obs.append((None, None, None, None, ctx.rec, list(ctx.rec.__dict__.items())))
    run_steps(ctx, steps, obs)
    return kind, route, cv, None, obs


def _session(kind, cv, steps, obs):
    """the record an application gets from a connected NxscopeHandler (reference device, virtual time)"""
    import vsim
    import refdev

    if kind == "chan":
        chan, ty, vdim, name, en, div, mlen = cv
        j, n, flags, rxp = chan, chan + 1 + (chan % 2), 3, 0
        me = dict(en=en, type=ty, vdim=vdim, div=div, mlen=mlen, name=name)
    else:
        n, flags, rxp = cv
        j, me = None, None
    chans = [dict(en=bool(k & 1), type=2 + k, vdim=1, div=k % 3, mlen=0, name=f"f{k}") for k in range(n)]
    if me is not None:
        chans[j] = me

    def scenario(sim):
        from nxslib.nxscope import NxscopeHandler
        from nxslib.proto.parse import Parser
        dev = refdev.RefDevice(chans, flags=flags, rxpadding=rxp)
        link = refdev.make_link(sim, dev)
        nx = NxscopeHandler(link, Parser())
        nx.connect()
        try:
            if kind == "chan":
                def lib(nm, v):
                    if nm == "en":
                        (nx.ch_enable if v else nx.ch_disable)(j)
                    elif nm == "div":
                        nx.ch_divider(j, v)
                    else:
                        raise ValueError(nm)
                    nx.channels_write()
                ctx = Ctx(nx.dev_channel_get(j).data, lib)
                assert nx.dev.channel_get(j).data is ctx.rec and nx._comm.dev.channel_get(j).data is ctx.rec
            else:
                ctx = Ctx(nx.dev.data, None)
                assert nx._comm.dev.data is ctx.rec
            obs.append((None, None, None, None, ctx.rec, list(ctx.rec.__dict__.items())))
            run_steps(ctx, steps, obs)
        finally:
            nx.disconnect()
        return None

    r, sim = vsim.run_sim(scenario, seed=0, time_limit=3000.0, real_limit=30.0)
    if isinstance(r, BaseException):
        return r, obs
    return None, obs


OTHERS_SRC = ["1.0", "0.0", "1.5", "3.0", "float('nan')", "float('inf')", "-0.0", "b''", "b'ab'", "bytearray(b'x')", "()", "(1, 2)",
              "[]", "[1]", "{}", "{'en': 1}", "frozenset()", "(1+0j)", "Fraction(1, 1)", "EqTrue()", "EqRaises()", "BoolRaises()",
              "IntSub(1)", "StrSub('en')", "Falsy()", "int", "range(3)", "7.0", "255.0", "2.0", "18.0"]
assert len(OTHERS_SRC) == len(OTHERS)


def pyval(t):
    """a value token as Python source (EqTrue … Falsy: the hostile classes of harness/props/C19.py)"""
    return OTHERS_SRC[int(t.split(".")[1])] if t[0] == "o" else repr(val(t))


def pyrepro(line, upto=None):
    """the case as a Python snippet against nxslib (what the replay does), steps 1..upto"""
    t = line.split(" ")
    kind, route, cv = t[2], t[3], [pyval(x) for x in t[4].split(",")]
    steps = [] if t[5] == "-" else t[5].split(";")
    a = ", ".join(cv)
    if kind == "chan":
        j = val(t[4].split(",")[0])
        how = {"direct": f"rec = DDeviceChannelData({a})",
               "devchan": f"rec = DeviceChannel({a}).data",
               "device": f"dev = Device(n, {route_flags(route)}, 0, [... DeviceChannel({a}) at index j ...]); rec = dev.channel_get(j).data   # j = chan % 3",
               "decoded": f"rec = Parser().frame_chinfo_decode(DParseFrame(EParseId.CHINFO, struct.pack('BBBBB<n>s', en, _type, vdim, div, "
                          f"mlen, name)), chan).data   # (chan, _type, vdim, name, en, div, mlen) = ({a})",
               "session": f"nx = NxscopeHandler(<link to a device whose channel {j} reports (chan, _type, vdim, name, en, div, mlen) = ({a})>, "
                          f"Parser()); nx.connect(); rec = nx.dev_channel_get({j}).data"}[route.split(".")[0]]
    else:
        how = {"direct": f"rec = DDeviceData({a})", "device": f"rec = Device({a}, [<chmax channels>]).data",
               "session": f"nx = NxscopeHandler(<link to a device reporting (chmax, flags, rxpadding) = ({a})>, Parser()); nx.connect(); "
                          "rec = nx.dev.data"}[route]
    out = [how]
    for st in steps[:upto]:
        if st.startswith("@"):
            out.append({"@copy": "rec = copy.copy(rec)", "@deepcopy": "rec = copy.deepcopy(rec)", "@pickle": "rec = pickle.loads(pickle.dumps(rec))",
                        "@pickle2": "rec = pickle.loads(pickle.dumps(rec, protocol=2))", "@replace": "rec = dataclasses.replace(rec)"}[st])
            continue
        lib = st.startswith("!")
        nm, vt = (st[1:] if lib else st).split("=")
        nm = nval(nm)
        v = (f"rec.{nm}" if nm.isidentifier() else f"getattr(rec, {nm!r}, None)") if vt == "cur" else pyval(vt)
        if lib and route.split(".")[0] == "device":
            out.append(f"dev.{'en' if nm == 'en' else 'div'}_channels_update([... {v} at index j ...])   # the library assigns rec.{nm}")
        elif lib and route == "session":
            out.append((f"nx.ch_{'enable' if val(vt) else 'disable'}({j})" if nm == "en" else f"nx.ch_divider({j}, {v})") +
                       f"; nx.channels_write()   # the library assigns rec.{nm}")
        else:
            out.append(f"rec.{nm} = {v}" if nm.isidentifier() else f"setattr(rec, {nm!r}, {v})")
    return out


def dump(items):
    return ",".join(f"{ntok(k)}={tok(v)}" for k, v in items)


# ---------------------------------------------------------------------------------------------------------------
# device-level lines: all the records of ONE Device (`rec devseq`)
# ---------------------------------------------------------------------------------------------------------------

def _vec(read):
    """read a channels_en / channels_div vector: (list | None, exception | None)"""
    try:
        return list(read()), None
    except Exception as e:  # noqa: BLE001
        return None, e


def execute_dev(line):
    """-> (device ctor values, [channel ctor values], construction exception | None, observations).
    An observation is (step token | None, what, exception | None, [items of dev.data.__dict__, items of channel 0's record, …],
    (channels_en, exc), (channels_div, exc)) with what = ("chan", i, name, value) | ("dev", name, value) | ("E" | "D", values);
    observations[0] is the device as constructed."""
    t = line.split(" ")
    assert t[0] == "rec" and t[1] == "devseq", line
    dv = [val(x) for x in t[2].split(",")]
    cvs = [] if t[3] == "-" else [[val(x) for x in c.split(",")] for c in t[3].split("/")]
    steps = [] if t[4] == "-" else t[4].split(";")
    dev = _dev()
    obs = []
    try:
        d = dev.Device(dv[0], dv[1], dv[2], [dev.DeviceChannel(*cv) for cv in cvs])
    except Exception as e:  # noqa: BLE001
        return dv, cvs, e, obs
    recs = [d.data] + [d.channel_get(j).data for j in range(len(cvs))]     # the records an application is handed

    def look(st, what, exc):
        obs.append((st, what, exc, [list(r.__dict__.items()) for r in recs], _vec(lambda: d.channels_en), _vec(lambda: d.channels_div)))

    look(None, None, None)
    for st in steps:
        tgt, arg = st.split(":")
        exc = None
        if tgt in ("E", "D"):
            vs = [] if arg == "-" else [val(x) for x in arg.split(",")]
            what = (tgt, vs)
            try:
                (d.en_channels_update if tgt == "E" else d.div_channels_update)(vs)
            except Exception as e:  # noqa: BLE001
                exc = e
        else:
            nm, vt = arg.split("=")
            nm = nval(nm)
            i = None if tgt == "d" else int(tgt[1:])
            if vt == "cur":
                ch = None if i is None else d.channel_get(i)
                v = getattr(d.data, nm, None) if i is None else (None if ch is None else getattr(ch.data, nm, None))
            else:
                v = val(vt)
            what = ("dev", nm, v) if i is None else ("chan", i, nm, v)
            try:
                if i is None:
                    setattr(d.data, nm, v)
                else:
                    setattr(d.channel_get(i).data, nm, v)
            except Exception as e:  # noqa: BLE001
                exc = e
        look(st, what, exc)
    return dv, cvs, None, obs


def vec_tok(vx):
    vs, exc = vx
    if exc is not None:
        return "!" + exc_name(exc)
    return ",".join(tok(v) for v in vs) or "-"


def impl_dev(line):
    dv, cvs, cexc, obs = execute_dev(line)
    if cexc is not None:
        return f"err-init {exc_name(cexc)}"
    outs = [("ok" if exc is None else f"err:{exc_name(exc)}") + f"[{vec_tok(en)}|{vec_tok(div)}]" for st, what, exc, recs, en, div in obs[1:]]
    st, what, exc, recs, en, div = obs[-1]
    return (f"ok {';'.join(outs) or '-'} E:{vec_tok(en)} D:{vec_tok(div)} dev:{dump(recs[0])} "
            f"ch:{'/'.join(dump(r) for r in recs[1:]) or '-'}")


def pyrepro_dev(line, upto=None):
    t = line.split(" ")
    cvs = [] if t[3] == "-" else [", ".join(pyval(x) for x in c.split(",")) for c in t[3].split("/")]
    out = [f"dev = Device({', '.join(pyval(x) for x in t[2].split(','))}, [{', '.join(f'DeviceChannel({a})' for a in cvs)}])"]
    for st in ([] if t[4] == "-" else t[4].split(";"))[:upto]:
        tgt, arg = st.split(":")
        if tgt in ("E", "D"):
            vs = [] if arg == "-" else [pyval(x) for x in arg.split(",")]
            out.append(f"dev.{'en' if tgt == 'E' else 'div'}_channels_update([{', '.join(vs)}])")
            continue
        nm, vt = arg.split("=")
        nm = nval(nm)
        rec = "dev.data" if tgt == "d" else f"dev.channel_get({tgt[1:]}).data"
        v = f"getattr({rec}, {nm!r}, None)" if vt == "cur" else pyval(vt)
        out.append(f"{rec}.{nm} = {v}" if nm.isidentifier() else f"setattr({rec}, {nm!r}, {v})")
    return out


ROUTE_TEXT = {"direct": "built directly", "devchan": "DeviceChannel(...).data", "device": "handed out by a Device",
              "decoded": "decoded by Parser.frame_chinfo_decode", "session": "handed out by a connected NxscopeHandler"}


class C19(Prop):
    id = "C19"
    lean_module = "NxsModel.Props.C19"
    rule = ("one line = one record + a history; whole __dict__ compared after construction and after every step. "
            "chan-single: type bytes (thorough all 256) x every name (dataclasses.fields incl. _initdone, non-field and "
            "odd names) x values rotating through None/bool/ints up to 2**64/str/floats/bytes/containers/hostile "
            "__eq__/__hash__/__bool__ objects/the current value; chan-sweep: every field written back with its "
            "current value, with None, with an equal-but-not-identical value, per type byte; histories: random "
            "assignment sequences (library en/div updates, copies, attempts to clear the marker) on records built "
            "directly, through DeviceChannel/Device, decoded from a chinfo frame, copied/pickled, or handed out by a "
            "connected NxscopeHandler; constructor arguments varied over the same value domain; devseq: ALL the records of "
            "one Device (0..4 channels, type bytes across the range) under histories of application assignments to any "
            "channel record (also out of range) / the device record and library en/div updates with vectors of the right "
            "and of wrong lengths, channels_en / channels_div read back after every step; "
            "distinct = distinct (line, output); non-trivial = all")

    # ---- generation -------------------------------------------------------------------------------------------
    INTS = ["i0", "i1", "i9", "i-1", "i-128", "i255", "i256", "i7", "i3", "i18446744073709551616",
            "i-9223372036854775809", "i2"]
    STRS = ["s-", sval("abc"), sval("en"), sval("div"), sval("é中"), sval("x" * 70), sval("0")]

    def pool(self):
        return ["N", "T", "F"] + self.INTS + self.STRS + [otok(i) for i in range(len(OTHERS))]

    def names(self, kind):
        dev = _dev()
        cls = dev.DDeviceChannelData if kind == "chan" else dev.DDeviceData
        fields = [f.name for f in dataclasses.fields(cls)]
        # (`en` / `div` are writable on a channel record only: on a device record they are names like any other)
        odd = (["en", "div"] if kind == "dev" else []) + ["bogus", "__dict__", "__class__", "__setattr__", "__post_init__", "__eq__", "EN", "Div", "en_", "_en", "div2",
               "data", "_data", "chan_", "%656e20", "%20656e", "%656e00", "%c3a96e", "%-", "%6469762e", "enable",
               "divider", "type", "__initdone", "_initdone_"]
        return fields, odd

    def ctor(self, rng, kind, route, ty=None, wild=True):
        """constructor value tokens acceptable for the route"""
        P = self.pool()
        if kind == "chan":
            ty = rng.randrange(256) if ty is None else ty
            if route == "direct":
                pick = (lambda: rng.choice(P)) if wild else (lambda: rng.choice(["i0", "i1", "i7", "i3", "i255", "i2"]))
                return [pick(), f"i{ty}", pick(), pick() if wild else sval(rng.choice(["ch", "", "név"])),
                        pick() if wild else rng.choice("TF"), pick(), pick()]
            if route in ("devchan", "device") or route.startswith("device."):
                chan = rng.choice(["i0", "i1", "i2", "i5", "i7", "i63", "i255"])
                pick = (lambda: rng.choice(P)) if (wild and route == "devchan") else (lambda: rng.choice(self.INTS[:9]))
                return [chan, f"i{ty}", pick(), sval(rng.choice(["ch", "", "név", "a b"])), rng.choice("TF"), pick(), pick()]
            if route == "decoded":
                b = lambda: f"i{rng.choice([0, 1, 2, 7, 18, 127, 128, 255, rng.randrange(256)])}"  # noqa: E731
                chan = rng.choice(P) if wild else b()
                return [chan, f"i{ty}", b(), sval(rng.choice(["ch", "", "név", "a b", "x" * 40])), rng.choice("TF"), b(), b()]
            if route == "session":
                b = lambda: f"i{rng.choice([0, 1, 2, 7, 18, 127, 128, 255, rng.randrange(256)])}"  # noqa: E731
                return [f"i{rng.randrange(3)}", f"i{ty}", b(), sval(rng.choice(["ch", "", "név", "a b"])), rng.choice("TF"), b(), b()]
        else:
            if route == "direct":
                fl = rng.choice([0, 1, 2, 3, 255, 7, 128, 4, 2 ** 64 + 3, rng.randrange(256), rng.randrange(1 << 20)])
                pick = (lambda: rng.choice(P)) if wild else (lambda: rng.choice(["i0", "i1", "i7", "i3", "i255", "i2"]))
                return [pick(), f"i{fl}", pick()]
            if route == "device":
                fl = rng.choice([0, 1, 2, 3, 255, 7, 128, rng.randrange(256)])
                return [f"i{rng.randrange(4)}", f"i{fl}", rng.choice(P)]
            if route == "session":
                return [f"i{rng.randrange(1, 4)}", f"i{rng.choice([0, 1, 2, 3])}", rng.choice(["i0", "i0", "i4"])]
        raise ValueError((kind, route))

    def history(self, rng, kind, route, n):
        P = self.pool()
        fields, odd = self.names(kind)
        allowed = ["en", "div"] if kind == "chan" else []
        steps = []
        for _ in range(n):
            r = rng.random()
            if r < 0.30 and allowed:
                nm = rng.choice(allowed)
                if route == "session":
                    # on a live handler en / div are the library's: channels_write() re-assigns its own view of BOTH
                    # to every record, so application-level en / div assignments come last (see cases)
                    steps.append(f"!{nm}=" + (rng.choice("TF") if nm == "en" else f"i{rng.randrange(256)}"))
                    continue
                if route.split(".")[0] == "device" and rng.random() < 0.35:
                    steps.append(f"!{nm}={rng.choice(P)}")
                    continue
            elif r < 0.62:
                nm = rng.choice([f for f in fields if f not in allowed])
            elif r < 0.74:
                nm = "_initdone"
            elif r < 0.84:
                nm = rng.choice(odd)
            elif r < 0.92 and route != "session":
                steps.append(rng.choice(list(COPIES)))
                continue
            else:
                nm = rng.choice([f for f in fields if not (route == "session" and f in allowed)])
            v = rng.choice(P + ["cur", "cur", "N", "F", "i0"]) if nm != "_initdone" else \
                rng.choice(["F", "i0", "N", "s-", "o0.1", "o0.24", "T", "cur", "o0.12"])
            steps.append(f"{nm}={v}")
        # a history always ends by trying an identifying field (so that the oracle sees an unsealed record)
        ident = [f for f in fields if f not in allowed and f != "_initdone"]
        steps.append(f"{rng.choice(ident)}={rng.choice(P)}")
        return ";".join(steps)

    def line(self, kind, route, cv, steps):
        return f"rec seq {kind} {route} {','.join(cv)} {steps or '-'}"

    def cases(self, rng, tier):
        thorough = tier == "thorough"
        P = self.pool()
        cfields, codd = self.names("chan")
        dfields, dodd = self.names("dev")
        tys = list(range(256)) if thorough else sorted(set(list(range(0, 34)) + [50, 64, 82, 96, 114, 127, 128, 138, 146, 147,
                                                                                  160, 179, 210, 224, 243, 255]
                                                           + [rng.randrange(256) for _ in range(6)]))
        # 1 single assignments on fresh records: every type byte x every name, values rotating through the pool
        k = rng.randrange(len(P))
        for ty in tys:
            base = self.ctor(rng, "chan", "direct", ty, wild=False)
            yield self.line("chan", "direct", base, ""), "chan-dump"
            for nm in cfields + (codd if thorough or ty % 4 == 0 else codd[:3]):
                for _ in range(2 if thorough else 1):
                    k += 1
                    yield self.line("chan", "direct", base, f"{nm}={P[k % len(P)]}"), "chan-single"
            # 2 sweeps: every field written back with its current value / None / an equal-but-not-identical value
            yield self.line("chan", "direct", base, ";".join(f"{nm}=cur" for nm in cfields)), "chan-sweep-cur"
            yield self.line("chan", rng.choice(["direct", "devchan", "device"]), self.ctor(rng, "chan", "device", ty, wild=False),
                            ";".join(f"{nm}=N" for nm in cfields)), "chan-sweep-none"
            eqv = {"i0": ["F", "o0.1", "o0.6"], "i1": ["T", "o1.0", "o1.22", "o1.17", "o1.18"], "i7": ["o1.27"], "i3": ["o1.3"],
                   "i255": ["o1.28"], "i2": ["o1.29"], "T": ["i1", "o1.0"], "F": ["i0", "o0.1"], "s-": ["o0.7"]}
            st = []
            for nm, cur in zip(["chan", "vdim", "name", "en", "div", "mlen"], [base[0]] + base[2:]):
                st.append(f"{nm}={rng.choice(eqv.get(cur, ['o1.19']))}")
            d = ty & 0x1F
            st += [f"_type={rng.choice(['o1.19', 'o1.22', 'cur'])}", f"dtype={'o1.30' if d == 18 else 'o1.19'}",
                   f"critical={'i1' if ty & 0x80 else 'i0'}", f"is_valid={'i1' if d else 'i0'}",
                   f"is_numerical={'o1.0' if d not in (0, 1, 18, 19) else 'o0.1'}", "type_res=o1.19", "_initdone=i1", "_initdone=o1.19"]
            yield self.line("chan", "direct", base, ";".join(st)), "chan-sweep-equal"
            # 2b the record of a channel OWNED BY A DEVICE whose flags lack divider / ACK support (0, 2; also 1, 255, 128): en and div
            # stay assignable — by the application and by the library — and store what was assigned
            fl = [0, 2, 2, 0, 1, 255, 128, 0][ty % 8]
            dv = rng.choice(["i1", "i1", "i255", "i7", "T", "o1.0", "i256"])
            yield self.line("chan", f"device.{fl}", self.ctor(rng, "chan", "device", ty, wild=False),
                            rng.choice([f"div={dv};en=T;div=i0;div=i9;chan=i3", f"en=T;div={dv};!div=i5;div=cur;mlen=N",
                                        f"!div=i3;div={dv};en=F;!en=T;_type=i0", f"div={dv};@copy;div=i2;vdim=i0"])), "chan-nodiv-device"
        # 3 device record
        for fl in [0, 1, 2, 3, 255, 7, 128, 4, 2 ** 64 + 3] + [rng.randrange(256) for _ in range(16 if thorough else 3)]:
            for route in ("direct", "device"):
                base = [f"i{rng.randrange(4)}", f"i{fl}", rng.choice(["i0", "i7", "i3", "i1"])]
                yield self.line("dev", route, base, ""), "dev-dump"
                for nm in dfields + (dodd if thorough else dodd[:6]):
                    k += 1
                    yield self.line("dev", route, base, f"{nm}={P[k % len(P)]}"), "dev-single"
                yield self.line("dev", route, base, ";".join(f"{nm}=cur" for nm in dfields)), "dev-sweep-cur"
                yield self.line("dev", route, base, ";".join(f"{nm}=N" for nm in dfields)), "dev-sweep-none"
                eq = {"chmax": {"i0": "o0.1", "i1": "o1.0", "i2": "o1.29", "i3": "o1.3"}[base[0]],
                      "flags": "o1.3" if fl == 3 else "o1.19",
                      "rxpadding": {"i0": "F", "i7": "o1.27", "i3": "o1.3", "i1": "T"}[base[2]],
                      "div_supported": "i1" if fl & 1 else "i0", "ack_supported": "o1.0" if fl & 2 else "o0.1",
                      "_initdone": "i1"}
                yield self.line("dev", route, base, ";".join(f"{nm}={v}" for nm, v in eq.items()) + ";_initdone=F;chmax=i99"), "dev-sweep-equal"
        # 4 histories on records from every route, constructor arguments over the whole value domain
        nh = 1500 if thorough else 500
        for i in range(nh):
            kind = "chan" if rng.random() < 0.7 else "dev"
            route = rng.choice(["direct", "direct", "devchan", "device", "decoded", "device.0", "device.2"] if kind == "chan" else ["direct", "device"])
            cv = self.ctor(rng, kind, route, wild=rng.random() < 0.6)
            yield self.line(kind, route, cv, self.history(rng, kind, route, rng.randrange(1, 10))), f"history-{kind}-{route}"
        # 5 copies first, then assignments
        for how in COPIES:
            for kind, route in (("chan", "direct"), ("chan", "device"), ("chan", "decoded"), ("dev", "direct"), ("dev", "device")):
                cv = self.ctor(rng, kind, route, wild=False)
                ident = "chan=i5;_type=i1;mlen=N" if kind == "chan" else "chmax=i5;flags=i0;ack_supported=F"
                yield self.line(kind, route, cv, f"{how};{ident};_initdone=F;{ident}"), "copy-first"
                if kind == "chan":
                    yield self.line(kind, route, cv, f"en=T;div=i4;{how};{ident};en=F;{how};{ident}"), "copy-after-en-div"
        # 6 records handed out by a connected handler (virtual time, reference device), library en/div updates between
        ns = 40 if thorough else 12
        for i in range(ns):
            kind = "chan" if i % 4 != 3 else "dev"
            cv = self.ctor(rng, kind, "session")
            if kind == "chan":
                st = rng.choice(["!en=T;chan=i9", "chan=N;!en=F;!div=i5;vdim=cur", "!div=i3;_initdone=F;name=s-;_type=i0"]) + ";" + \
                    self.history(rng, kind, "session", rng.randrange(1, 6)) + \
                    rng.choice(["", ";en=N;chan=i1", ";div=o1.19;en=cur;_initdone=F;mlen=i0"])
            else:
                st = self.history(rng, kind, "session", rng.randrange(2, 6))
            yield self.line(kind, "session", cv, st), f"session-{kind}"
        # 7 all the records of one Device: application assignments to any of them and the library's en / div updates
        yield from self.dev_cases(rng, thorough)

    # ---- device-level lines (`rec devseq`) ---------------------------------------------------------------------
    CHAN_IDS = ["i0", "i1", "i2", "i5", "i7", "i63", "i255", "i-1", "i256", "i18446744073709551616", "N", sval("a"), sval("é")]
    # `len(channels) == chmax` holds for these as well (the record keeps the object given)
    CHMAX_EQ = {0: ["F", "o0.1", "o0.6"], 1: ["T", "o1.0", "o1.22", "o1.18"], 2: ["o1.29"], 3: ["o1.3"], 4: []}

    def dev_ctor(self, rng, n, tys=None, wild=True):
        """-> (device ctor tokens, [channel ctor tokens]) of a device with n channels (distinct hashable ids, str names, bool en)"""
        P = self.pool()
        chmax = rng.choice(self.CHMAX_EQ[n]) if self.CHMAX_EQ.get(n) and rng.random() < 0.15 else f"i{n}"
        fl = rng.choice([0, 1, 2, 3, 3, 255, 7, 128, 4, 2 ** 64 + 3, rng.randrange(256), rng.randrange(1 << 20)])
        dv = [chmax, f"i{fl}", rng.choice(P) if wild else rng.choice(["i0", "i4", "i1"])]
        ids = rng.sample(self.CHAN_IDS, n) if wild else [f"i{j}" for j in range(n)]
        cvs = []
        for j in range(n):
            ty = rng.randrange(256) if tys is None else tys[j]
            pick = (lambda: rng.choice(P)) if wild and rng.random() < 0.5 else (lambda: rng.choice(self.INTS[:9]))
            cvs.append([ids[j], f"i{ty}", pick(), rng.choice(self.STRS), rng.choice("TF"), pick(), pick()])
        return dv, cvs

    def dev_line(self, dv, cvs, steps):
        return f"rec devseq {','.join(dv)} {'/'.join(','.join(c) for c in cvs) or '-'} {';'.join(steps) or '-'}"

    def dev_vec(self, rng, fld, m):
        P = self.pool()
        if rng.random() < 0.7:
            vs = [rng.choice("TF") if fld == "E" else f"i{rng.choice([0, 1, 2, 7, 255, 256, rng.randrange(256)])}" for _ in range(m)]
        else:
            vs = [rng.choice(P) for _ in range(m)]
        return f"{fld}:{','.join(vs) or '-'}"

    def dev_step(self, rng, n, kind=None):
        """one step token of the given kind (None: drawn) for a device with n channels"""
        P = self.pool()
        cfields, codd = self.names("chan")
        dfields, dodd = self.names("dev")
        kind = kind or rng.choice(["chan-endiv", "chan-endiv", "chan-ident", "chan-ident", "chan-marker", "chan-odd", "chan-range", "dev-field",
                                   "dev-odd", "lib-en", "lib-div", "lib-en", "lib-div", "lib-wrong", "cur"])
        if n == 0 and kind in ("chan-endiv", "chan-ident", "chan-marker", "chan-odd"):
            kind = "chan-range"
        i = rng.randrange(n) if n else 0
        if kind == "chan-endiv":
            return f"c{i}:{rng.choice(['en', 'div'])}={rng.choice(P)}"
        if kind == "chan-ident":
            return f"c{i}:{rng.choice([f for f in cfields if f not in ('en', 'div', '_initdone')])}={rng.choice(P + ['cur', 'N'])}"
        if kind == "chan-marker":
            return f"c{i}:_initdone={rng.choice(['F', 'i0', 'N', 's-', 'o0.1', 'o0.24', 'T', 'cur', 'o0.12'])}"
        if kind == "chan-odd":
            return f"c{i}:{rng.choice(codd)}={rng.choice(P)}"
        if kind == "chan-range":
            return f"c{rng.choice([n, n, n + 1, n + 5, 255, 2 ** 64])}:{rng.choice(['en', 'div', 'chan', 'en', '_initdone', 'bogus'])}={rng.choice(P + ['cur'])}"
        if kind == "dev-field":
            return f"d:{rng.choice(dfields)}={rng.choice(P + ['cur', 'N', 'F'])}"
        if kind == "dev-odd":
            return f"d:{rng.choice(dodd)}={rng.choice(P)}"
        if kind in ("lib-en", "lib-div"):
            return self.dev_vec(rng, "E" if kind == "lib-en" else "D", n)
        if kind == "lib-wrong":
            return self.dev_vec(rng, rng.choice("ED"), rng.choice([m for m in (0, n - 1, n + 1, n + 1, n + 3, 2 * n) if 0 <= m != n]))
        return rng.choice([f"c{i}:en=cur", f"c{i}:div=cur", f"c{i}:chan=cur", "d:chmax=cur", f"c{i}:div=cur"])

    DEV_KINDS = ["chan-endiv", "chan-ident", "chan-marker", "chan-odd", "chan-range", "dev-field", "dev-odd", "lib-en", "lib-div", "lib-wrong", "cur"]

    def dev_cases(self, rng, thorough):
        P = self.pool()
        # a type bytes across the range, 0..4 channels, no history / one step of every kind
        tys = list(range(256)) if thorough else sorted(set(list(range(0, 34, 3)) + [18, 19, 31, 32, 64, 96, 127, 128, 138, 146, 147, 160, 224, 255]
                                                           + [rng.randrange(256) for _ in range(6)]))
        k = 0
        while k < len(tys):
            n = [4, 3, 2, 1, 4][(k // 4) % 5]
            chunk = tys[k:k + n]
            k += n
            dv, cvs = self.dev_ctor(rng, len(chunk), chunk, wild=False)
            yield self.dev_line(dv, cvs, []), "devseq-dump"
            yield self.dev_line(dv, cvs, [self.dev_step(rng, len(chunk))]), "devseq-single"
        for n in range(5):
            for kind in self.DEV_KINDS:
                for _ in range(3 if thorough else 1):
                    dv, cvs = self.dev_ctor(rng, n)
                    yield self.dev_line(dv, cvs, [self.dev_step(rng, n, kind)]), "devseq-single"
        # b assignments to two channels, in both orders (then everything is read back; a library update in between for half of them)
        for r in range(60 if thorough else 16):
            n = rng.randrange(2, 5)
            dv, cvs = self.dev_ctor(rng, n, wild=r % 2 == 0)
            i, j = rng.sample(range(n), 2)
            a = f"c{i}:{rng.choice(['en', 'div', 'en', 'chan', '_initdone'])}={rng.choice(P)}"
            b = f"c{j}:{rng.choice(['en', 'div', 'div', 'name', 'dtype'])}={rng.choice(P)}"
            tail = [self.dev_step(rng, n, rng.choice(["lib-en", "lib-div", "cur", "lib-wrong"]))] if r % 2 else []
            yield self.dev_line(dv, cvs, [a, b] + tail), "devseq-two-channels"
            yield self.dev_line(dv, cvs, [b, a] + tail), "devseq-two-channels"
        # c vectors of the wrong length after the application / the library assigned: nothing may be applied, not even a prefix
        for r in range(80 if thorough else 20):
            n = r % 5
            dv, cvs = self.dev_ctor(rng, n, wild=False)
            pre = [self.dev_step(rng, n, rng.choice(["lib-en", "lib-div", "chan-endiv"])) for _ in range(rng.randrange(3))]
            yield self.dev_line(dv, cvs, pre + [self.dev_step(rng, n, "lib-wrong"), self.dev_step(rng, n, "lib-wrong"),
                                                self.dev_step(rng, n, rng.choice(["lib-en", "lib-div", "chan-ident"]))]), "devseq-wrong-length"
        # d random histories
        for r in range(1200 if thorough else 200):
            n = rng.choice([0, 1, 1, 2, 2, 3, 3, 4, 4])
            dv, cvs = self.dev_ctor(rng, n, wild=rng.random() < 0.6)
            yield self.dev_line(dv, cvs, [self.dev_step(rng, n) for _ in range(rng.randrange(1, 11))]), "devseq-history"

    def search_cases(self, rng):
        out = []
        for i in range(400):
            kind = "chan" if rng.random() < 0.7 else "dev"
            route = rng.choice(["direct", "devchan", "device", "decoded", "device.0", "device.2", "device.1"] if kind == "chan" else ["direct", "device"])
            cv = self.ctor(rng, kind, route, wild=rng.random() < 0.5)
            out.append((self.line(kind, route, cv, self.history(rng, kind, route, rng.randrange(1, 8))), "search"))
        for i in range(200):
            n = rng.randrange(5)
            dv, cvs = self.dev_ctor(rng, n, wild=rng.random() < 0.5)
            out.append((self.dev_line(dv, cvs, [self.dev_step(rng, n) for _ in range(rng.randrange(1, 9))]), "search"))
        return out

    # ---- the real code ---------------------------------------------------------------------------------------
    def impl(self, line):
        if line.split(" ")[1] == "devseq":
            return impl_dev(line)
        kind, route, cv, cexc, obs = execute(line)
        if cexc is not None and not obs:
            return f"err-init {exc_name(cexc)}"
        out = [dump(obs[0][5])]
        for st, nm, v, exc, o, items in obs[1:]:
            out.append(("ok:" if exc is None else f"err:{exc_name(exc)}:") + dump(items))
        if cexc is not None:
            out.append(f"session-exc:{exc_name(cexc)}")
        return "ok " + ";".join(out)

    # ---- the property ----------------------------------------------------------------------------------------
    def oracle(self, line, impl_out=None):
        if line.split(" ")[1] == "devseq":
            v = self._judge_dev(line)
            if v:
                m = re.search(r"step (\d+) of history", v.get("what", ""))
                v["python"] = pyrepro_dev(line, int(m.group(1)) if m else None)
                v["values"] = "N None, T/F bool, i<n> int, s<hex> str (UTF-8), o<truthy>.<k> = k-th entry of OTHERS in harness/props/C19.py"
            return v
        v = self._judge(line)
        if v:
            m = re.search(r"step (\d+) of history", v.get("what", ""))
            v["python"] = pyrepro(line, int(m.group(1)) if m else None)
            v["values"] = "N None, T/F bool, i<n> int, s<hex> str (UTF-8), o<truthy>.<k> = k-th entry of OTHERS in harness/props/C19.py"
        return v

    def _judge(self, line):
        kind, route, cv, cexc, obs = execute(line)
        rtext = ROUTE_TEXT.get(route.split(".")[0], route) + (f" with flags {route_flags(route)}" if "." in route else "")
        where = f"{'channel' if kind == 'chan' else 'device'} description {rtext} from ({line.split(' ')[4]})"
        if cexc is not None:
            return {"key": "construct", "what": f"{where}: construction / session raised {type(cexc).__name__}: {cexc}",
                    "expected": "a record", "observed": type(cexc).__name__}
        snap0 = dict(obs[0][5])     # the record as constructed (obs[0][4] is the live object: the history has run on it)
        if kind == "chan":
            ty = cv[1]
            want = {"dtype": ty & 0x1F, "critical": bool(ty & 0x80), "type_res": ty & 0x60, "is_valid": (ty & 0x1F) != 0,
                    "is_numerical": (ty & 0x1F) not in (0, 1, 18, 19), "_type": ty}
        else:
            fl = cv[1]
            want = {"div_supported": bool(fl & 1), "ack_supported": bool(fl & 2), "flags": fl}
        got = {k: snap0.get(k, "absent") for k in want}
        if any(type(got[k]) is not type(want[k]) or got[k] != want[k] for k in want):
            return {"key": "derived", "what": f"{where}: derived attributes of the type byte / flags",
                    "expected": str(want), "observed": str(got)}
        if route == "direct":
            names = ["chan", "_type", "vdim", "name", "en", "div", "mlen"] if kind == "chan" else ["chmax", "flags", "rxpadding"]
            for nm, v in zip(names, cv):
                g = snap0.get(nm, "absent")
                if tok(g) != tok(v):
                    return {"key": "fields", "what": f"{where}: attribute {nm} is not the constructor argument",
                            "expected": tok(v), "observed": tok(g)}
        prev = obs[0][5]
        hist = []
        for idx, (st, nm, v, exc, o, items) in enumerate(obs[1:], 1):
            hist.append(st)
            if nm is None:
                if exc is not None:
                    return {"key": "copy", "what": f"{where}: {st[1:]} of the record raised {type(exc).__name__}", "expected": "a copy",
                            "observed": str(exc)[:80]}
                prev = items        # the copy is judged by what the following assignments do to it
                continue
            at = f"{where}, step {idx} of history [{';'.join(hist)}]: rec.{nm} = {tok(v)}" + (" (assigned by the library)" if st[0] == "!" else "")
            allowed = kind == "chan" and nm in ("en", "div") and type(nm) is str
            same_keys = [k for k, _ in items] == [k for k, _ in prev]
            # en and div are the library's: when IT assigns one of them (channels_write on a live handler re-assigns its own
            # view of both to every record) the other may be re-assigned too; an application's assignment touches nothing else
            mine = ("en", "div") if st[0] == "!" and allowed else (nm,)
            changed = [k for (k, a), (k2, b) in zip(items, prev) if k not in mine and a is not b] if same_keys else ["<attribute set>"]
            if allowed:
                if exc is not None:
                    return {"key": "en-div-assignable", "what": f"{at} raised {type(exc).__name__}", "expected": "assignment goes through",
                            "observed": f"{type(exc).__name__}: {exc}"}
                stored = dict(items).get(nm, "absent")
                if stored is not v:
                    return {"key": "en-div-assignable", "what": f"{at} did not store the value", "expected": tok(v), "observed": tok(stored)}
                if changed:
                    return {"key": "en-div-assignable", "what": f"{at} changed other attributes: {changed}",
                            "expected": dump(prev), "observed": dump(items)}
            else:
                if exc is None:
                    now = dict(items).get(nm, "absent")
                    return {"key": "readonly", "what": f"{at} did not raise; the attribute is now {tok(now)}",
                            "expected": f"TypeError, {nm} stays {tok(dict(prev).get(nm, 'absent')) if nm in dict(prev) else 'absent'}",
                            "observed": "no exception; " + dump(items)}
                # the property says "raises": any exception satisfies the oracle (the model and the correspondence are
                # about the TypeError the code raises today; another exception type breaks the correspondence, and the
                # search then finds no input on which the PROPERTY fails)
                if not same_keys or changed or any(a is not b for (_, a), (_, b) in zip(items, prev)):
                    return {"key": "readonly", "what": f"{at} raised {type(exc).__name__} but the record changed: "
                            f"{changed or [k for (k, a), (_, b) in zip(items, prev) if a is not b]}",
                            "expected": dump(prev), "observed": dump(items)}
            prev = items
        return None

    def _judge_dev(self, line):
        """the property over ALL the records of one Device and a history of application assignments and library updates"""
        dv, cvs, cexc, obs = execute_dev(line)
        t = line.split(" ")
        where = f"Device({t[2]}, [{t[3]}])"
        if cexc is not None:
            return {"key": "construct", "what": f"{where}: construction raised {type(cexc).__name__}: {cexc}", "expected": "a device",
                    "observed": type(cexc).__name__}
        n = len(cvs)
        base = obs[0][3]
        # as constructed: the fields are the constructor arguments, the derived attributes follow flags / type byte
        bd = dict(base[0])
        wantd = {"chmax": dv[0], "flags": dv[1], "rxpadding": dv[2], "div_supported": bool(dv[1] & 1), "ack_supported": bool(dv[1] & 2)}
        if any(tok(bd.get(k, "absent")) != tok(w) for k, w in wantd.items()):
            return {"key": "fields", "what": f"{where}: the device description as constructed", "expected": dump(wantd.items()), "observed": dump(base[0])}
        for j, cv in enumerate(cvs):
            ty = cv[1]
            wantc = {"chan": cv[0], "_type": ty, "vdim": cv[2], "name": cv[3], "en": cv[4], "div": cv[5], "mlen": cv[6],
                     "dtype": ty & 0x1F, "critical": bool(ty & 0x80), "type_res": ty & 0x60, "is_valid": (ty & 0x1F) != 0,
                     "is_numerical": (ty & 0x1F) not in (0, 1, 18, 19)}
            bc = dict(base[1 + j])
            if any(tok(bc.get(k, "absent")) != tok(w) for k, w in wantc.items()):
                return {"key": "fields" if any(tok(bc.get(k, "absent")) != tok(wantc[k]) for k in list(wantc)[:7]) else "derived",
                        "what": f"{where}: the description of channel {j} as constructed", "expected": dump(wantc.items()), "observed": dump(base[1 + j])}
        exp = {"en": [dict(r).get("en", "absent") for r in base[1:]], "div": [dict(r).get("div", "absent") for r in base[1:]]}
        hist = []

        def account(at):
            """every record against the oracle's own account; -> violation | None"""
            st, what, exc, recs, en, div = obs[at]
            for j, (items, b) in enumerate(zip(recs, base)):
                rname = "the device description" if j == 0 else f"the description of channel {j - 1}"
                if [k for k, _ in items] != [k for k, _ in b]:
                    return rname, "its attribute set changed", dump(b), dump(items)
                for (k, a), (_, c) in zip(items, b):
                    w = exp[k][j - 1] if j > 0 and k in ("en", "div") else c
                    if a is not w:
                        return rname, f"{k} is not " + ("the value last assigned" if w is not c else "the constructed value"), tok(w), tok(a)
            for nm, (vs, vexc) in (("en", en), ("div", div)):
                if vexc is not None or len(vs) != n or any(a is not b for a, b in zip(vs, exp[nm])):
                    return f"Device.channels_{nm}", "is not the per-channel values last assigned", ",".join(tok(x) for x in exp[nm]) or "-", vec_tok((vs, vexc))
            return None

        bad = account(0)
        if bad:
            return {"key": "fields", "what": f"{where} as constructed: {bad[0]}: {bad[1]}", "expected": bad[2], "observed": bad[3]}
        for idx in range(1, len(obs)):
            st, what, exc, recs, en, div = obs[idx]
            hist.append(st)
            at = f"{where}, step {idx} of history [{';'.join(hist)}]: "
            if what[0] == "chan":
                _, i, nm, v = what
                at += f"dev.channel_get({i}).data.{nm} = {tok(v)}"
                must_pass = 0 <= i < n and type(nm) is str and nm in ("en", "div")
                if must_pass:
                    exp[nm][i] = v
                key = "en-div-assignable" if must_pass else "readonly"
            elif what[0] == "dev":
                _, nm, v = what
                at += f"dev.data.{nm} = {tok(v)}"
                must_pass, key = False, "readonly"
            else:
                fld = "en" if what[0] == "E" else "div"
                vs = what[1]
                at += f"dev.{fld}_channels_update([{', '.join(tok(x) for x in vs)}]) on a device with {n} channels"
                must_pass, key = len(vs) == n, "library-update"
                if must_pass:
                    exp[fld] = list(vs)
            if must_pass and exc is not None:
                return {"key": key, "what": f"{at} raised {type(exc).__name__}", "expected": "goes through", "observed": f"{type(exc).__name__}: {exc}"}
            if not must_pass and exc is None:
                return {"key": key, "what": f"{at} did not raise", "expected": "an exception, every record unchanged",
                        "observed": "no exception; " + impl_dev(line).split(" ")[1].split(";")[idx - 1]}
            bad = account(idx)
            if bad:
                return {"key": key, "what": f"{at} {'went through' if exc is None else 'raised ' + type(exc).__name__} but afterwards {bad[0]}: {bad[1]}",
                        "expected": bad[2], "observed": bad[3]}
        return None

    OPT_SCRIPT = r"""
import json, sys
from nxslib.dev import DDeviceData, DeviceChannel, Device
out = []
def attempt(rec, what, name, value):
    before = dict(rec.__dict__)
    try:
        setattr(rec, name, value)
        raised = None
    except Exception as e:
        raised = type(e).__name__
    after = dict(rec.__dict__)
    if raised is None or any(after.get(k) is not v for k, v in before.items()) or set(after) != set(before):
        out.append({"record": what, "field": name, "raised": raised, "changed": [k for k in after if after.get(k) is not before.get(k)]})
for ty in (0, 2, 10, 0x8a, 255):
    ch = DeviceChannel(3, ty, 2, "chan3")
    for name in ("chan", "_type", "vdim", "name", "mlen", "dtype", "critical", "_initdone", "is_valid", "is_numerical"):
        attempt(ch.data, f"DeviceChannel(3,{ty},2,'chan3').data", name, 0)
    dev = Device(1, 3, 0, [DeviceChannel(0, ty, 1, "c")])
    for name in ("chmax", "flags", "rxpadding", "div_supported", "ack_supported", "_initdone"):
        attempt(dev.data, f"Device(1,3,0,[..type {ty}]).data", name, 0)
    attempt(dev.channel_get(0).data, "Device(...).channel_get(0).data", "chan", 5)
    d = DDeviceData(2, 3, 0)
    attempt(d, "DDeviceData(2,3,0)", "flags", 0)
print(json.dumps(out[:5]))
"""

    def optimized_interpreter(self):
        """the read-only guard must not depend on the interpreter mode: the same attempts under `python -O` and `-OO`
        (asserts stripped, docstrings dropped)"""
        import json
        import subprocess
        import common
        out = []
        for flag in ("-O", "-OO"):
            env = dict(os.environ, PYTHONPATH=os.path.join(common.REPO, "src"), PYTHONDONTWRITEBYTECODE="1")
            p = subprocess.run([sys.executable, flag, "-c", self.OPT_SCRIPT], capture_output=True, text=True, env=env, timeout=120)
            try:
                bad = json.loads(p.stdout.strip().splitlines()[-1]) if p.returncode == 0 else [{"error": p.stderr[-300:]}]
            except Exception:  # noqa: BLE001
                bad = [{"error": (p.stdout + p.stderr)[-300:]}]
            if bad:
                b = bad[0]
                out.append({"key": "readonly", "case": f"python {flag}: {b.get('record')} . {b.get('field')} = 0",
                            "what": f"under `python {flag}` assigning to an identifying field of a sealed record "
                                    f"{'did not raise' if b.get('raised') is None else 'changed the record'}",
                            "expected": "an exception, record unchanged", "observed": json.dumps(b)[:300]})
        return out

    # ---- order of the assignments ACROSS records, in fresh interpreters -------------------------------------------
    # What a sealed record lets through must not depend on which record of the process was assigned to first (seeded C19-r5m1:
    # the set of writable names resolved lazily on the first sealed assignment and cached on a class both records share).
    # Every sequence runs in its own fresh interpreter, where its first step IS the first sealed assignment of the process.
    # Records: dev / chan = Device(2, flags, 0, [DeviceChannel(0, ty, 1, "a"), DeviceChannel(1, 2, 1, "b")]).data / .channel_get(0).data,
    # ddev / dchan = DDeviceData(2, flags, 0) / DDeviceChannelData(4, ty, 1, "d"), chan1 = the second channel's record;
    # lib_en / lib_div = the library's own update (Device.en_channels_update / div_channels_update).  The script judges each
    # step by the property alone: en / div of a channel record are stored, anything else raises and changes nothing.
    ORDER_SCRIPT = r"""
import json, sys
from nxslib.dev import DDeviceData, DDeviceChannelData, DeviceChannel, Device
spec = json.loads(sys.stdin.read())
fl, ty = spec["flags"], spec["ty"]
device = Device(2, fl, 0, [DeviceChannel(0, ty, 1, "a"), DeviceChannel(1, 2, 1, "b")])
recs = {"dev": device.data, "chan": device.channel_get(0).data, "chan1": device.channel_get(1).data,
        "ddev": DDeviceData(2, fl, 0), "dchan": DDeviceChannelData(4, ty, 1, "d")}
bad = None
done = []
for rec, name, value in spec["steps"]:
    done.append(f"{rec}.{name} = {value!r}")
    if rec in ("lib_en", "lib_div"):
        before = [dict(r.__dict__) for r in (recs["chan"], recs["chan1"])]
        try:
            if rec == "lib_en":
                device.en_channels_update([value, not value])
                got = device.channels_en
                want = [value, not value]
            else:
                device.div_channels_update([value, value + 1])
                got = device.channels_div
                want = [value, value + 1]
            if got != want:
                bad = {"what": "the library's own update did not store the values", "expected": want, "observed": got}
        except Exception as e:
            bad = {"what": "the library's own update of en / div raised", "expected": "values stored", "observed": type(e).__name__ + ": " + str(e)}
        if bad:
            break
        continue
    r = recs[rec]
    before = dict(r.__dict__)
    try:
        setattr(r, name, value)
        raised = None
    except Exception as e:
        raised = type(e).__name__ + ": " + str(e)
    after = dict(r.__dict__)
    writable = rec in ("chan", "chan1", "dchan") and name in ("en", "div")
    if writable:
        if raised is not None:
            bad = {"what": f"assigning {name} of a channel description raised", "expected": "assignment goes through", "observed": raised}
        elif after.get(name, "absent") is not value:
            bad = {"what": f"assigning {name} of a channel description did not store the value", "expected": repr(value),
                   "observed": repr(after.get(name, "absent"))}
        elif any(after.get(k) is not v for k, v in before.items() if k != name) or set(after) != set(before):
            bad = {"what": f"assigning {name} of a channel description changed other attributes", "expected": "-", "observed": "-"}
    else:
        if raised is None:
            bad = {"what": f"assigning {name} of a {'device' if rec in ('dev', 'ddev') else 'channel'} description did not raise",
                   "expected": "an exception, record unchanged", "observed": f"no exception; {name} is now {after.get(name, 'absent')!r}"}
        elif set(after) != set(before) or any(after.get(k) is not v for k, v in before.items()):
            bad = {"what": f"assigning {name} raised but the record changed", "expected": "record unchanged", "observed": raised}
    if bad:
        break
if bad:
    bad["steps_run"] = done
print(json.dumps(bad))
"""

    ORDERS = [
        # the process's first sealed assignment hits a DEVICE record (rejected, fine); the channel records come afterwards
        [["dev", "chmax", 1], ["chan", "en", True], ["chan", "div", 1], ["chan", "chan", 5], ["dev", "flags", 0], ["chan1", "div", 7]],
        [["ddev", "flags", 0], ["dchan", "en", True], ["dchan", "div", 3], ["dchan", "name", "x"], ["chan", "en", True]],
        [["dev", "rxpadding", 4], ["lib_en", "-", True], ["lib_div", "-", 5], ["chan", "div", 2], ["dev", "chmax", 0]],
        [["dev", "en", True], ["chan", "div", 9], ["chan", "en", False], ["dev", "div", 1]],
        # ... a CHANNEL record first (en / div, or a rejected identifying field), the device record afterwards
        [["chan", "en", True], ["dev", "chmax", 1], ["dev", "en", True], ["dev", "div", 1], ["chan", "div", 3], ["ddev", "div", 0]],
        [["chan", "chan", 5], ["dev", "flags", 0], ["chan", "en", True], ["chan", "div", 1], ["dchan", "div", 4], ["ddev", "en", False]],
        [["lib_div", "-", 3], ["dev", "div_supported", False], ["dev", "div", 2], ["chan1", "en", True], ["chan1", "vdim", 2]],
        [["dchan", "div", 1], ["ddev", "chmax", 9], ["ddev", "div", 1], ["dchan", "en", True], ["dchan", "_type", 0]],
    ]

    def order_spec(self, rng, i):
        """(flags, type byte, steps): the fixed orders first, then random ones (a random first record, then a mix)"""
        fl = [3, 0, 2, 1, 3, 2, 0, 255][i % 8]
        ty = [10, 2, 0, 0x8a, 255, 18, 7, 1][i % 8] if i < 8 else rng.randrange(256)
        if i < len(self.ORDERS):
            return {"flags": fl, "ty": ty, "steps": self.ORDERS[i]}
        idents = {"dev": ["chmax", "flags", "rxpadding", "div_supported", "ack_supported", "_initdone", "en", "div", "bogus"],
                  "chan": ["chan", "_type", "vdim", "name", "mlen", "dtype", "critical", "is_valid", "_initdone", "en", "div", "en", "div"]}
        steps = []
        for _ in range(rng.randrange(3, 9)):
            rec = rng.choice(["dev", "ddev", "chan", "chan1", "dchan", "chan", "lib_en", "lib_div"])
            if rec == "lib_en":
                steps.append([rec, "-", rng.random() < 0.5])
            elif rec == "lib_div":
                steps.append([rec, "-", rng.randrange(255)])
            else:
                nm = rng.choice(idents["dev" if rec in ("dev", "ddev") else "chan"])
                v = rng.choice([True, False, 1, 0, 255]) if nm in ("en", "div") else rng.choice([0, 1, None, "x", True, 7])
                steps.append([rec, nm, v])
        return {"flags": fl, "ty": ty, "steps": steps}

    def run_order(self, spec):
        """run one sequence in a fresh interpreter; -> violation dict or None"""
        import json
        import subprocess
        import common
        env = dict(os.environ, PYTHONPATH=os.path.join(common.REPO, "src"), PYTHONDONTWRITEBYTECODE="1")
        p = subprocess.run([sys.executable, "-c", self.ORDER_SCRIPT], input=json.dumps(spec), capture_output=True, text=True, env=env,
                           timeout=120)
        try:
            bad = json.loads(p.stdout.strip().splitlines()[-1]) if p.returncode == 0 else {"what": "the sequence did not run", "expected": "-",
                                                                                           "observed": p.stderr[-300:]}
        except Exception:  # noqa: BLE001
            bad = {"what": "the sequence did not run", "expected": "-", "observed": (p.stdout + p.stderr)[-300:]}
        if not bad:
            return None
        last = (bad.get("steps_run") or ["?"])[-1]
        key = "readonly" if "did not raise" in bad["what"] or "record changed" in bad["what"] else \
            ("construct" if "did not run" in bad["what"] else "en-div-assignable")
        return {"key": key, "case": "fresh interpreter: " + json.dumps(spec),
                "what": f"in a fresh interpreter, with device = Device(2, {spec['flags']}, 0, [DeviceChannel(0, {spec['ty']}, 1, 'a'), DeviceChannel(1, 2, 1, 'b')]) "
                        f"(dev = device.data, chan / chan1 = device.channel_get(0 / 1).data, ddev = DDeviceData(2, {spec['flags']}, 0), dchan = "
                        f"DDeviceChannelData(4, {spec['ty']}, 1, 'd')), after the assignments {bad.get('steps_run', [])[:-1]} (rejected ones included): "
                        f"`{last}`: {bad['what']}",
                "expected": str(bad.get("expected")), "observed": str(bad.get("observed"))[:300]}

    def assignment_orders(self, rng, tier):
        out = []
        n = 40 if tier == "thorough" else 14
        for i in range(n):
            v = self.run_order(self.order_spec(rng, i))
            if v:
                out.append(v)
                if len(out) >= 3:
                    break
        return out, n

    def replay(self, obj):
        import json
        case = obj.get("case", "")
        if case.startswith("python -O"):
            vs = self.optimized_interpreter()
            return vs[0] if vs else None
        if case.startswith("fresh interpreter: "):
            return self.run_order(json.loads(case[len("fresh interpreter: "):]))
        return super().replay(obj)

    def extra_checks(self, rng, tier, ev):
        v = self.optimized_interpreter()
        ev["coverage"]["interpreter_modes"] = ["default", "-O", "-OO"]
        w, n = self.assignment_orders(rng, tier)
        ev["coverage"]["fresh_interpreter_assignment_orders"] = n
        return v + w


PROP = C19()
