"""C19 — device and channel descriptions are read-only apart from enable and divider."""
import dataclasses
from common import Prop, exc_name


def _dev():
    import nxslib.dev as dev
    return dev


def b2i(v):
    return int(v) if isinstance(v, bool) else v


class C19(Prop):
    id = "C19"
    lean_module = "NxsModel.Props.C19"
    rule = ("exhaustive on the real dataclasses: 256 type bytes x every field (dataclasses.fields incl. _initdone, "
            "plus two non-field names) x assigned values {0,1,9}; device record for flags 0..3,255 x every field; "
            "constructed records dumped for all 256 type bytes; distinct = distinct (op,input); non-trivial = all")

    def cases(self, rng, tier):
        dev = _dev()
        cf = [f.name for f in dataclasses.fields(dev.DDeviceChannelData)] + ["bogus", "__dict__x"]
        df = [f.name for f in dataclasses.fields(dev.DDeviceData)] + ["bogus"]
        tys = range(256) if tier == "thorough" else list(range(0, 40)) + [64, 96, 127, 128, 138, 160, 224, 255]
        for ty in tys:
            yield f"rec chanall {ty}", "chan-dump"
            for f in cf:
                for v in (0, 1, 9):
                    yield f"rec chan {ty} {f} {v}", "chan-set"
        for fl in (0, 1, 2, 3, 255, 7, 128):
            yield f"rec devall {fl}", "dev-dump"
            for f in df:
                for v in (0, 1, 9):
                    yield f"rec dev {fl} {f} {v}", "dev-set"

    def _chan(self, ty):
        return _dev().DDeviceChannelData(7, ty, 7, 7, 7, 7, 7)

    def _devd(self, fl):
        return _dev().DDeviceData(7, fl, 7)

    def impl(self, line):
        t = line.split(" ")
        if t[1] in ("chanall", "devall"):
            o = self._chan(int(t[2])) if t[1] == "chanall" else self._devd(int(t[2]))
            return "ok " + " ".join(f"{k}={b2i(v)}" for k, v in o.__dict__.items())
        o = self._chan(int(t[2])) if t[1] == "chan" else self._devd(int(t[2]))
        f, v = t[3], int(t[4])
        before = o.__dict__.get(f, "absent")
        try:
            setattr(o, f, v)
        except Exception as e:
            after = o.__dict__.get(f, "absent")
            return f"err {exc_name(e)} {b2i(after)}"
        return f"ok {b2i(o.__dict__.get(f, 'absent'))}"

    def oracle(self, line, impl_out=None):
        t = line.split(" ")
        dev = _dev()
        if t[1] in ("chan", "dev"):
            o = self._chan(int(t[2])) if t[1] == "chan" else self._devd(int(t[2]))
            f, v = t[3], int(t[4])
            snap = dict(o.__dict__)
            try:
                setattr(o, f, v)
                raised = False
            except TypeError:
                raised = True
            except Exception as e:
                return {"key": "wrong-exception", "what": f"assigning {f} raised {type(e).__name__}", "expected": "TypeError", "observed": type(e).__name__}
            allowed = t[1] == "chan" and f in ("en", "div")
            if allowed:
                if raised or getattr(o, f) != v or {k: x for k, x in o.__dict__.items() if k != f} != {k: x for k, x in snap.items() if k != f}:
                    return {"key": "en-div-assignable", "what": f"assigning {f} must work and change nothing else", "expected": "ok", "observed": "raised" if raised else "changed"}
            else:
                if not raised or dict(o.__dict__) != snap:
                    return {"key": "readonly", "what": f"assigning {t[1]}.{f} must raise and leave the record unchanged",
                            "expected": "TypeError, unchanged", "observed": "no exception" if not raised else "changed"}
        elif t[1] == "chanall":
            ty = int(t[2])
            o = self._chan(ty)
            if (o.dtype, o.critical, o.type_res) != (ty & 0x1F, bool(ty & 0x80), ty & 0x60):
                return {"key": "derived", "what": "derived attributes of the type byte", "expected": str((ty & 0x1F, bool(ty & 0x80), ty & 0x60)),
                        "observed": str((o.dtype, o.critical, o.type_res))}
        return None


PROP = C19()
