"""C03 — frame reassembly depends on the bytes received, not on how reads split them."""
import os
import random
import time

from common import Prop, hexs, unhex
from ref import ref_frame
import genlib as g


def _mk_crc_table():
    t = []
    for i in range(256):
        r = i << 8
        for _ in range(8):
            r = ((r << 1) ^ 0x1021) & 0xFFFF if r & 0x8000 else (r << 1) & 0xFFFF
        t.append(r)
    return t


_CRC_T = _mk_crc_table()


def crc16(data):
    """CRC-16/XMODEM (poly 0x1021, init 0, no reflection, no xorout), table driven: the oracle's own CRC
    (frames of up to 65535 bytes are judged, the bitwise reference in ref.py is too slow for that)"""
    r = 0
    t = _CRC_T
    for b in data:
        r = ((r << 8) & 0xFFFF) ^ t[(r >> 8) ^ b]
    return r


def scripted_comm(chunks, frame_cls=None):
    """the real CommHandler over a scripted link; returns a function stepping the receive-thread body"""
    from nxslib.comm import CommHandler
    from nxslib.intf.iintf import ICommInterface
    from nxslib.proto.parse import Parser
    script = list(chunks)

    class Link(ICommInterface):
        def start(self): pass
        def stop(self): pass
        def drop_all(self): pass
        def _read(self):
            return script.pop(0) if script else b""
        def _write(self, data): pass

    parse = Parser(frame=frame_cls) if frame_cls else Parser()
    comm = CommHandler(Link(), parse)
    comm._dev = object()       # a device is known: ACK frames are queued like any other
    return comm, script


def run_real_routed(chunks, has_dev):
    """(response queue, stream queue) contents after the receive thread processed the scripted reads"""
    comm, script = scripted_comm(chunks)
    comm._dev = object() if has_dev else None
    for _ in range(200000):
        had = bool(script)
        before = comm._prev_read
        n = comm._q.qsize() + comm._q_stream.qsize()
        comm._recv_thread()
        if not had and not script and comm._prev_read == before and comm._q.qsize() + comm._q_stream.qsize() == n:
            break
    out = []
    for q in (comm._q, comm._q_stream):
        fr = []
        while not q.empty():
            f = q.get_nowait()
            fr.append((int(f.fid), bytes(f.data)))
        out.append(fr)
    comm._dev = None
    return out


def run_real(chunks, frame_cls=None, limit=200000):
    comm, script = scripted_comm(chunks, frame_cls)
    frames = []
    for _ in range(limit):
        had = bool(script)
        before = comm._prev_read
        comm._recv_thread()
        got = False
        for q in (comm._q, comm._q_stream):
            while not q.empty():
                f = q.get_nowait()
                frames.append((int(f.fid), bytes(f.data)))
                got = True
        if not got and not had and not script and comm._prev_read == before:
            break
    else:
        raise RuntimeError("receive body did not become quiescent")
    comm._dev = None
    return frames


def ref_scan(data):
    """one left-to-right pass (the property statement), NxScope serial framing"""
    out = []
    i = 0
    n = len(data)
    while True:
        j = data.find(b"\x55", i)
        if j < 0 or n - j < 4:
            return out
        flen = data[j + 1] | data[j + 2] << 8
        fid = data[j + 3]
        if fid > 8:
            i = j + 1
            continue
        if n - j < flen:
            return out
        if flen >= 6 and crc16(data[j:j + flen]) == 0:
            out.append((fid, data[j + 4:j + flen - 2]))
            i = j + flen
        else:
            i = j + 1


def fstr(frames):
    return "ok " + (",".join(f"{fid}:{hexs(d)}" for fid, d in frames) or "-")


def gen_stream(rng, maxparts=6):
    parts = []
    for _ in range(rng.randrange(1, maxparts + 1)):
        r = rng.random()
        if r < 0.45:
            parts.append(g.valid_frame(rng, maxlen=6))
        elif r < 0.6:
            parts.append(g.noise(rng, rng.randrange(1, 6), sof_rich=True))
        elif r < 0.7:
            f = g.valid_frame(rng, maxlen=6)
            parts.append(f[:rng.randrange(1, len(f))])               # cut-off frame
        elif r < 0.8:
            f = bytearray(g.valid_frame(rng, maxlen=6))
            f[rng.randrange(len(f))] ^= 1 << rng.randrange(8)         # damaged frame
            parts.append(bytes(f))
        elif r < 0.88:
            parts.append(bytes([0x55, rng.choice([0, 1, 3, 5, 6, 7, 12, 40]), 0, rng.randrange(10)]))   # bogus header
        else:
            parts.append(bytes(rng.choice([0, 0x55, 0xFF]) for _ in range(rng.randrange(1, 4))))
    return b"".join(parts)


# ---- long frames (REVIEW C03-1): lengths around every power-of-two / buffer-size boundary a receive path may have ----
BIG_SIZES = [255, 256, 257, 1023, 1024, 1025, 1500, 4096, 4097, 32767, 32768, 65535]
NOISE_BEFORE = bytes([0x00, 0x55, 0x13, 0xAA, 0x55])     # two false start bytes, neither starts a decodable header
EX_FRAME = bytes([0x55, 0x07, 0x00, 0x05, 0x01, 0x88, 0x9C])
BOGUS40 = bytes([0x55, 0x28, 0x00, 0x02, 0xAA, 0xBB])     # decodable header (id 2) declaring 0x28 bytes
BOGUS65535 = bytes([0x55, 0xFF, 0xFF, 0x07])              # decodable header (id 7) declaring 65535 bytes


def big_frame(rng, total, fid=None):
    """valid frame of exactly `total` bytes on the wire; the payload is random (so it contains start bytes)"""
    fid = rng.choice([1, 1, 2, 3, 4, 8]) if fid is None else fid
    return ref_frame(fid, rng.randbytes(total - 6))


def cut(data, n):
    return [data[i:i + n] for i in range(0, len(data), n)] or [b""]


def big_chunkings(pre, f, post, small, all_splits):
    """(tag, chunks) for the stream pre ++ f ++ post: one read, 64-byte reads, reads of 1500 with an idle read after
    each (a frame in transit over a tty), splits inside the header / at the header end / inside the CRC each followed
    by an idle read, and byte-wise for the small ones"""
    s = pre + f + post
    a = len(pre)
    out = [("big-one-read", [s]), ("big-64", cut(s, 64)),
           ("big-1500-idle", [x for c in cut(s, 1500) for x in (c, b"")])]
    splits = [("big-split-in-hdr", a + 2), ("big-split-hdr-end", a + 4), ("big-split-in-crc", a + len(f) - 1),
              ("big-split-mid", a + len(f) // 2)]
    for k, (tag, pos) in enumerate(splits):
        if all_splits or k == (len(f) + a) % len(splits):
            out.append((tag, [s[:pos], b"", s[pos:]]))
            out.append((tag + "-noidle", [s[:pos], s[pos:]]))
    if small:
        out.append(("big-bytewise", [bytes([b]) for b in s]))
        out.append(("big-bytewise-idle", [x for b in s for x in (bytes([b]), b"")]))
    return out


def delay_cases(rng, T):
    """REVIEW C03-2: a decodable header that announces more bytes than have arrived makes the receiver wait; the
    frames behind it are delivered, all of them, once the announced number of bytes is in"""
    more = EX_FRAME * 2
    d1 = BOGUS40 + EX_FRAME * 3
    yield [d1], "delay-stalled"                                   # 27 of 40 bytes: nothing yet
    yield [d1, b"", b""], "delay-stalled"
    yield [d1, b"", more], "delay-resumed"                        # 41 bytes: window rejected, five frames delivered
    yield [d1, b"", more[:12]], "delay-stalled"                   # 39 bytes: still waiting
    yield [d1, b"", more[:12], b"", more[12:13]], "delay-resumed"     # the 40th byte arrives alone
    yield [bytes([b]) for b in d1 + more] + [b""], "delay-resumed"
    yield g.random_chunking(rng, d1 + more + g.valid_frame(rng)), "delay-resumed"
    d2 = BOGUS65535 + EX_FRAME * 100
    yield [d2, b""], "delay-stalled"                              # 704 of 65535 bytes: none of the 100 frames yet
    need = 65535 - len(d2)
    frames_fill = b"".join(big_frame(rng, 2000) for _ in range(need // 2000)) + big_frame(rng, need % 2000)
    fills = [bytes(need), frames_fill] + ([rng.randbytes(need)] if T else [])
    for fill in fills:
        tail = g.valid_frame(rng, fid=4)
        yield [d2, b""] + cut(fill[:-1], 4096) + [b""], "delay-stalled"          # 65534 bytes: still waiting
        yield [d2, b""] + cut(fill, 4096) + [b"", tail], "delay-resumed"         # 65535: all delivered
        yield cut(d2 + fill + tail, 1500), "delay-resumed"


# ---- public level (REVIEW C03-3): CommHandler.stream_data() over a scripted link -------------------------------------
def pub_session(layout, script_reads, seed=None, stale=None, info=None):
    """The real CommHandler connects (virtual-time runtime, reference device) to a device with the channel `layout`;
    then the link returns the scripted reads (b"" = an idle read) and the application polls stream_data() until the
    script is exhausted and nothing more comes.  Returns (canonical stream_data() results, reads seen by the client
    after the handshake, the client's carry-over buffer when the script started).
    With `stale` (bytes): after the first connect the device emits `stale` (e.g. the beginning of a frame), the client
    reads it, disconnects, and connects again with the SAME handler; the script then runs in the second session.
    `info` receives requests written / virtual seconds of both connects and the outcome of the second one."""
    import vsim
    import refdev
    import streamglue as sg
    from nxslib.intf.iintf import ICommInterface

    chans = [dict(en=True, type=t, vdim=v, div=0, mlen=m, name=f"ch{i}") for i, (t, v, m) in enumerate(layout)]
    res = {}

    def scenario(sim):
        from nxslib.comm import CommHandler
        from nxslib.proto.parse import Parser
        dev = refdev.RefDevice(chans, flags=3)
        dev.now = lambda: sim.now

        class Link(ICommInterface):
            script = None
            seen = []

            def start(self): pass
            def stop(self): pass
            def drop_all(self): pass

            def _read(self):
                if self.script is None:
                    if not sim.block(lambda: len(dev.rx) > 0, 0.01, "link-read"):
                        return b""
                    out = bytes(dev.rx)
                    del dev.rx[:]
                    return out
                if self.script:
                    c = self.script.pop(0)
                    if not c:
                        sim.block(lambda: False, 0.01, "link-idle")
                    self.seen.append(c)
                    return c
                sim.block(lambda: False, 0.01, "link-idle")
                return b""

            def _write(self, data):
                self.nwrites += 1
                sim.yield_("link-write")
                dev.on_write(bytes(data))

        link = Link()
        link.nwrites = 0
        comm = CommHandler(link, Parser())
        t0 = sim.now
        comm.connect()
        if info is not None:
            info["connect1"] = (link.nwrites, round(sim.now - t0, 2))
        if stale is not None:
            dev.rx += stale
            sim.block(lambda: False, 0.5, "stale-bytes-read")
            comm.disconnect()
            del dev.rx[:]
            w0, t0 = link.nwrites, sim.now
            try:
                comm.connect()
                outcome = "ok"
            except Exception as e:      # noqa: BLE001 - the outcome of the second connect is what is judged
                outcome = "exc " + type(e).__name__ + ": " + str(e)[:80]
            if info is not None:
                info["connect2"] = (link.nwrites - w0, round(sim.now - t0, 2))
                info["connect2_outcome"] = outcome
            if outcome != "ok":
                res["seen"], res["carry"] = [], b""
                try:
                    comm.disconnect()
                except Exception:       # noqa: BLE001
                    pass
                return []
        sim.block(lambda: False, 0.05, "settle")
        res["carry"] = bytes(comm._prev_read)
        link.seen = []
        link.script = list(script_reads)
        out = []
        nones = 0
        for _ in range(100000):
            try:
                ds = comm.stream_data()
            except Exception as e:      # noqa: BLE001 - reported as the result of that call
                out.append("exc " + type(e).__name__)
                continue
            if ds is None:
                if not link.script:
                    nones += 1
                    if nones >= 2:
                        break
                continue
            nones = 0
            out.append(ds)
        res["seen"] = list(link.seen)
        comm.disconnect()
        return out

    r, sim = vsim.run_sim(scenario, seed=seed, time_limit=100000.0, real_limit=60.0)
    if isinstance(r, BaseException):
        raise r
    return r, res["seen"], res["carry"]


PUB_TYPES = [2, 3, 4, 5, 6, 7, 8, 9, 10, 11]


def pub_case(rng, big):
    """(layout, [(payload, expected canonical result)], byte stream, reads)"""
    import streamglue as sg
    import streamgen as gen
    n = rng.randrange(1, 5)
    layout = [(rng.choice(PUB_TYPES), rng.choice([1, 1, 2, 3]), rng.choice([0, 0, 1, 2])) for _ in range(n)]
    parts, frames = [], []
    for k in range(rng.randrange(2, 7)):
        ns = rng.choice([1, 1, 2, 3, 5]) if not (big and k == 1) else rng.choice([120, 300, 700])
        smps = [gen.gen_sample(rng, layout, {}, rng.randrange(n)) for _ in range(ns)]
        flags = rng.choice([0, 0, 1, rng.randrange(256)])
        payload = sg.ref_wire(layout, {}, smps, flags=flags)
        want = f"ok {flags} " + "|".join(gen.sample_str(layout, {}, s_, True) for s_ in smps)
        frames.append((payload, want))
        r = rng.random()
        if r < 0.25:
            # noise rich in start bytes in which no position starts a decodable header (every id byte is > 8)
            parts.append(bytes(rng.choice([0x55, 0x55, 0xEE, 0xAA, 0x13]) for _ in range(rng.randrange(1, 6))) + b"\xee\xee\xee")
        elif r < 0.4:
            parts.append(ref_frame(4, bytes(4)))                     # an ACK in between goes to the other queue
        elif r < 0.5:
            bad = bytearray(ref_frame(1, payload))
            bad[-1] ^= 0x40
            parts.append(bytes(bad))                                  # the same frame with a damaged CRC first
        parts.append(ref_frame(1, payload))
    stream = b"".join(parts)
    mode = rng.randrange(4)
    if mode == 0:
        reads = [stream]
    elif mode == 1:
        reads = cut(stream, rng.choice([1, 3, 7, 64]))
    elif mode == 2:
        reads = [x for c in cut(stream, rng.choice([5, 50, 1000])) for x in (c, b"")]
    else:
        reads = g.random_chunking(rng, stream)
    if len(reads) > 3000:
        reads = cut(stream, 64)
    return layout, frames, stream, reads


def layout_str(layout):
    return ",".join(f"{t}:{v}:{m}" for t, v, m in layout)


def pub_line(layout, reads):
    return "pub " + layout_str(layout) + " " + ",".join(hexs(c) for c in reads)


def pub_expected(layout, stream):
    """what stream_data() must return, call by call, for the received bytes `stream`: the STREAM frames of the
    reference scan, each decoded by the reference stream parser (int and float types only); None = cannot judge"""
    import streamglue as sg
    out = []
    for fid, payload in ref_scan(stream):
        if fid != 1 or not payload:
            continue
        parsed = sg.ref_parse(layout, {}, payload)
        if parsed is None:
            return None
        smps = []
        for chan, vals, metas in parsed:
            ty, vdim, mlen = layout[chan]
            vs = []
            for code, raw in vals:
                if code in "BHIQbhiq":
                    vs.append(f"i:{int.from_bytes(raw, 'little', signed=code.islower())}")
                elif code in "fd":
                    vs.append(f"{code}:" + format(int.from_bytes(raw, "little"), f"0{2 * len(raw)}x"))
                else:
                    return None
            smps.append(f"{chan},{sg.dtype_of(ty, {})},{vdim},{mlen},[{';'.join(vs)}],"
                        f"[{';'.join(str(int.from_bytes(m, 'little')) for m in metas)}]")
        out.append((payload, f"ok {payload[0]} " + ("|".join(smps) or "-")))
    return out


def pub_real(layout, reads, stale=None, info=None):
    """canonical results of the real stream_data() calls for the scripted reads (+ reads seen, carry-over)"""
    import streamglue as sg
    res, seen, carry = pub_session(layout, reads, stale=stale, info=info)
    exp = pub_expected(layout, carry + b"".join(reads)) or []
    out = []
    for k, ds in enumerate(res):
        if isinstance(ds, str):
            out.append(ds)
        elif k < len(exp):
            out.append(sg.canon_decoded(ds, layout, {}, exp[k][0]))
        else:
            out.append(f"extra flags={ds.flags} samples={len(ds.samples)}")
    return out, seen, carry


def pub_oracle(layout, reads):
    exp = pub_expected(layout, b"".join(reads))
    if exp is None:
        return None
    got, seen, carry = pub_real(layout, reads)
    if carry:
        return None
    want = [w for _, w in exp]
    if got != want:
        k = next((i for i, (a, b) in enumerate(zip(got, want)) if a != b), min(len(got), len(want)))
        return {"key": "public-level", "what": "CommHandler.stream_data() over a scripted link does not return the STREAM "
                "frames of one left-to-right scan of the received bytes (decoded), call by call",
                "expected": f"{len(want)} results; #{k}: " + (want[k][:300] if k < len(want) else "none"),
                "observed": f"{len(got)} results; #{k}: " + (got[k][:300] if k < len(got) else "none"),
                "layout": layout_str(layout), "stream_len": len(b"".join(reads)),
                "reads": ",".join(hexs(c) for c in reads)[:4000], "case": pub_line(layout, reads)}
    return None


def reconnect_scenarios(rng):
    """(label, stale bytes of the first session, layout, reads of the second session)"""
    layout = [(7, 1, 0), (10, 2, 1)]
    import streamglue as sg
    import streamgen as gen
    frames = []
    for _ in range(3):
        smps = [gen.gen_sample(rng, layout, {}, rng.randrange(2)) for _ in range(rng.randrange(1, 4))]
        frames.append(ref_frame(1, sg.ref_wire(layout, {}, smps, flags=0)))
    stream = b"".join(frames)
    reads = [stream[:5], b"", stream[5:]]
    return [("cut-off long frame", big_frame(rng, 1006, fid=1)[:100], layout, reads),
            ("cut-off short frame", ref_frame(1, bytes(40))[:20], layout, reads),
            ("bogus header declaring 65535", BOGUS65535, layout, reads),
            ("cut-off header", b"\x55\x0a", layout, reads),
            ("complete frame not yet extracted + cut-off frame", ref_frame(4, bytes(4))[:6], layout, reads)]


def reconnect_oracle(label, stale, layout, reads):
    """a session that follows a disconnect behaves as a session of a fresh handler: the handshake takes the same
    requests and the same (virtual) time as the first one, and the frames delivered are the scan of the bytes
    received in THIS session (bytes left over from the previous session are not part of it)"""
    info = {}
    got, seen, carry = pub_real(layout, reads, stale=stale, info=info)
    want = [w for _, w in (pub_expected(layout, b"".join(reads)) or [])]
    bad = None
    if info.get("connect2_outcome") != "ok":
        bad = f"second connect: {info.get('connect2_outcome')} after {info['connect2'][0]} requests / {info['connect2'][1]} s"
    elif info["connect2"] != info["connect1"]:
        bad = (f"second connect took {info['connect2'][0]} requests / {info['connect2'][1]} s, "
               f"the first one {info['connect1'][0]} requests / {info['connect1'][1]} s")
    elif got != want:
        bad = f"stream_data() results in the second session: {len(got)} results, first {str(got[:1])[:200]}"
    if bad:
        return {"key": "reconnect-stale-buffer", "what": "bytes of a frame left unfinished when the client disconnected "
                "are still in the reassembly buffer of the next session (" + label + ")",
                "expected": f"second connect ok with {info['connect1'][0]} requests / {info['connect1'][1]} s, then "
                            f"{len(want)} stream_data() results",
                "observed": bad, "stale_bytes_first_session": hexs(stale)[:400], "layout": layout_str(layout),
                "reads_second_session": ",".join(hexs(c) for c in reads),
                "case": "reconnect " + layout_str(layout) + " " + hexs(stale) + " " + ",".join(hexs(c) for c in reads)}
    return None


class C03(Prop):
    id = "C03"
    lean_module = "NxsModel.Props.C03"
    rule = ("byte streams of valid frames of all ids interleaved with noise (0x55-rich), cut-off frames, damaged frames, "
            "bogus headers x chunkings (every composition of short streams, single split at every position, byte-wise, "
            "random, with empty reads) fed through a scripted link to the real CommHandler._recv_thread; the delivered "
            "frames are compared with the model's run; long frames (255..257, 1023..1025, 1500, 4096/4097, 32767/32768, "
            "65535 bytes on the wire, random payloads) behind noise and in front of a valid frame under one read / 64-byte "
            "reads / 1500-byte reads with idle reads / splits inside the header, at its end, inside the CRC / byte-wise; "
            "decodable bogus headers (declared 40 and 65535 bytes) in front of valid frames, with the awaited bytes supplied "
            "later or not; public level: stream_data() of a connected CommHandler over a scripted link vs the model "
            "(Reasm.run + Route + Stream.decode) and vs the samples encoded; distinct = distinct (stream, chunking); "
            "non-trivial = stream containing at least one valid frame and at least 2 chunks")

    def line(self, chunks):
        return "reasm run " + ",".join(hexs(c) for c in chunks)

    def cases(self, rng, tier):
        T = tier == "thorough"
        # exhaustive compositions of short streams
        for _ in range(30 if T else 6):
            s = gen_stream(rng, 2)[:(12 if T else 10)]
            for sizes in g.compositions(len(s)):
                yield self.line(g.chunk(s, sizes) or [b""]), "all-compositions"
        # the split-start-byte family: noise then frames, every single split, with and without an empty read
        for _ in range(60 if T else 12):
            s = gen_stream(rng, 4)
            for k in range(len(s) + 1):
                yield self.line([s[:k], s[k:]]), "single-split"
                if k % 3 == 0:
                    yield self.line([s[:k], b"", s[k:]]), "single-split-empty"
            yield self.line([bytes([b]) for b in s] or [b""]), "bytewise"
            yield self.line([s]), "one-read"
        for _ in range(1500 if T else 300):
            s = gen_stream(rng, 6)
            yield self.line(g.random_chunking(rng, s) or [b""]), "random"
        # routing of the delivered frames to the response / stream queue (with and without a known device)
        for _ in range(300 if T else 60):
            s = b"".join(g.valid_frame(rng, fid=rng.choice([1, 1, 1, 2, 3, 4, 4, 5]), maxlen=5) for _ in range(rng.randrange(1, 7)))
            yield f"reasm route {rng.randrange(2)} " + ",".join(hexs(c) for c in (g.random_chunking(rng, s) or [b""])), "route"
        # leading residues (0..3 header bytes, then the rest later)
        for _ in range(100 if T else 20):
            f1, f2 = g.valid_frame(rng), g.valid_frame(rng)
            pre = bytes(rng.randrange(0, 3))
            for k in range(0, 5):
                yield self.line([pre + f1[:k], b"", f1[k:] + f2]), "residue"
        # long frames
        for total in BIG_SIZES:
            small = total <= 1025
            for rep in range(2 if (T and total < 32767) else 1):
                f = big_frame(rng, total)
                post = g.valid_frame(rng, fid=rng.choice([2, 4, 5]))
                for tag, chunks in big_chunkings(NOISE_BEFORE if rep == 0 else g.noise(rng, 7, sof_rich=True) + b"\xee",
                                                 f, post, small, T or small):
                    yield self.line(chunks), tag
        # two long frames back to back, the second one cut off and followed by a valid frame
        for total in ([300, 1100, 5000] if not T else [300, 1100, 5000, 20000, 40000]):
            f1, f2, f3 = big_frame(rng, total), big_frame(rng, total + 1), g.valid_frame(rng)
            s = f1 + f2[:total // 2] + f3 + f3
            yield self.line(cut(s, 1000)), "big-cutoff"
            yield self.line(cut(s + bytes(total), 1000) + [b""]), "big-cutoff-covered"
        for chunks, tag in delay_cases(rng, T):
            yield self.line(chunks or [b""]), tag

    def impl(self, line):
        t = line.split(" ")
        if t[1] == "route":
            a, b = run_real_routed([unhex(c) for c in t[3].split(",")], t[2] == "1")
            return fstr(a) + " / " + fstr(b)
        chunks = [unhex(c) for c in t[2].split(",")]
        return fstr(run_real(chunks))

    def nontrivial(self, line, out):
        return out != "ok -" and "," in line.split(" ")[-1]

    def oracle(self, line, impl_out=None):
        # the pipeline writes one replay per key and stops collecting after 20 violations: handing it more than a few
        # of one key only starves the other keys (a change that breaks short streams would hide the long-frame input)
        # … and once failing inputs are in hand the rest of the search gets a time budget (20 s after the first hit)
        if self._first_hit is not None and time.time() - self._first_hit > float(os.environ.get("VERIF_C03_SEARCH_S", "20")):
            return None
        v = self._oracle(line)
        if v:
            if self._first_hit is None:
                self._first_hit = time.time()
            k = v.get("key", "")
            self._per_key[k] = self._per_key.get(k, 0) + 1
            if self._per_key[k] > 4:
                return None
        return v

    _per_key: dict = {}
    _first_hit = None

    def _oracle(self, line):
        t = line.split(" ")
        if t[0] == "reconnect":
            layout = [tuple(int(x) for x in c.split(":")) for c in t[1].split(",")]
            return reconnect_oracle("replay", unhex(t[2]), layout, [unhex(c) for c in t[3].split(",")])
        if t[0] == "pub":
            layout = [tuple(int(x) for x in c.split(":")) for c in t[1].split(",")]
            return pub_oracle(layout, [unhex(c) for c in t[2].split(",")])
        if t[1] == "route":
            chunks = [unhex(c) for c in t[3].split(",")]
            a, b = run_real_routed(chunks, t[2] == "1")
            want = ref_scan(b"".join(chunks))
            wa = [f for f in want if f[0] != 1 and not (t[2] == "0" and f[0] == 4)]
            wb = [f for f in want if f[0] == 1]
            if (a, b) != (wa, wb):
                return {"key": "routing", "what": "frames are not routed in arrival order to the response / stream queue",
                        "expected": fstr(wa) + " / " + fstr(wb), "observed": fstr(a) + " / " + fstr(b)}
            return None
        chunks = [unhex(c) for c in line.split(" ")[2].split(",")]
        got = run_real(chunks)
        want = ref_scan(b"".join(chunks))
        if got != want:
            stream = b"".join(chunks)
            longest = max([len(d) + 6 for _, d in want] + [0])
            if longest >= 255:
                # long frames get their own key, so that a failing input with a long frame is reported next to one
                # with short frames (one replay per key)
                return {"key": "long-frame", "what": "frames extracted differ from one left-to-right scan of the concatenated "
                        f"bytes on a stream with a valid frame of {longest} bytes (chunk sizes {[len(c) for c in chunks][:12]}…)",
                        "expected": "ids:payload lengths " + ",".join(f"{i}:{len(d)}" for i, d in want),
                        "observed": "ids:payload lengths " + ",".join(f"{i}:{len(d)}" for i, d in got),
                        "stream_len": len(stream)}
            return {"key": "chunking-dependence", "what": "frames extracted differ from one left-to-right scan of the concatenated bytes",
                    "expected": fstr(want), "observed": fstr(got), "stream": hexs(stream)}
        return None

    def search_cases(self, rng):
        f = ref_frame(2, b"")
        f2 = ref_frame(5, b"\x01")
        for pre in (b"", b"\x00", b"\x00\x00", b"\x00\x00\x00", b"\x55", b"\x00\x55"):
            s = pre + f + f2
            for sizes in g.compositions(min(len(s), 11)):
                head = g.chunk(s[:11], sizes)
                yield self.line(head + [s[11:]]), "search"
        # frames of every id with an empty payload, alone and between others
        for fid in range(9):
            e = ref_frame(fid, b"")
            yield self.line([e]), "search"
            yield self.line([f2 + e + f2]), "search"
            yield self.line([f2[:3], f2[3:] + e[:2], b"", e[2:] + f2]), "search"
        # a false start byte 1..5 bytes in front of a frame; a start byte inside a payload with an idle read behind it
        a = ref_frame(4, bytes(4))
        c = ref_frame(2, bytes([3, 11, 0]))
        for k in range(1, 6):
            for fill in (0x00, 0x13, 0x55):
                junk = bytes([0x55] + [fill] * (k - 1))
                yield self.line([junk + a + c]), "search"
                yield self.line([junk, a + c]), "search"
        st = ref_frame(1, bytes([1, 2, 0x55, 3, 4, 5, 6, 7]))
        for k in range(1, len(st)):
            yield self.line([st[:k], b"", st[k:] + a]), "search"
        # a complete frame with the beginning of the next one (or noise, or a damaged frame) in the same read
        bad = bytearray(c)
        bad[-1] ^= 1
        for tail in (a[:1], a[:3], a[:5], a[:-1], b"\x00\xaa", bytes(bad)):
            yield self.line([c + st + tail, a[len(tail):] if a.startswith(tail) else a]), "search"

    def extra_checks(self, rng, tier, ev):
        """public level: stream_data() of a connected CommHandler over a scripted link, judged by the oracle (reference
        scan + reference stream parser) and compared with the model (Reasm.run, Route.queues, Stream.decode)"""
        from common import driver_run, DRIVER
        T = tier == "thorough"
        n = int(os.environ.get("VERIF_C03_PUB", "60" if T else "10"))
        viol = []
        sessions = []
        # F21 (fixed 4392d6e): a second session on the same handler after a disconnect that interrupted a frame
        nrec = 0
        for label, stale, layout, reads in reconnect_scenarios(rng):
            v = reconnect_oracle(label, stale, layout, reads)
            nrec += 1
            if v:
                viol.append(v)
                break
        ev["coverage"]["reconnect_scenarios"] = nrec
        stats = {"sessions": 0, "reads": 0, "bytes": 0, "stream_frames": 0, "longest_frame": 0, "ambiguous_streams": 0}
        for k in range(n):
            layout, frames, stream, reads = pub_case(rng, big=(k % 3 == 0))
            exp = pub_expected(layout, stream)
            if exp is None:
                raise RuntimeError("harness: the reference parser rejects a payload of the reference encoder: "
                                   + pub_line(layout, reads)[:300])
            if [w for _, w in exp] != [w for _, w in frames]:
                # the bytes of a damaged frame happen to contain a decodable header: the reference scan (the property)
                # decides what is delivered, not the generator's intention
                stats["ambiguous_streams"] += 1
            got, seen, carry = pub_real(layout, reads)
            stats["sessions"] += 1
            stats["reads"] += len(reads)
            stats["bytes"] += len(stream)
            stats["stream_frames"] += len(exp)
            stats["longest_frame"] = max([stats["longest_frame"]] + [len(p_) + 6 for p_, _ in frames])
            want = [w for _, w in exp]
            if carry:
                raise RuntimeError(f"harness: carry-over buffer not empty after the handshake: {carry.hex()}")
            if got != want:
                v = pub_oracle(layout, reads)
                if v:
                    viol.append(v)
                    self._per_key["public-level"] = self._per_key.get("public-level", 0) + 1
                    if len(viol) >= 3:
                        break
                    continue
            sessions.append((layout, seen, got))
        ev["coverage"]["public_level"] = stats
        # model side: the reads the client saw -> Reasm.run -> Route.queues (device known) -> Stream.decode per frame
        if sessions and os.path.exists(DRIVER):
            routed = driver_run(["reasm route 1 " + (",".join(hexs(c) for c in seen) or "-") for _, seen, _ in sessions])
            dec_lines, owner = [], []
            for i, ((layout, _, _), r) in enumerate(zip(sessions, routed)):
                q = r.split(" / ")[1] if " / " in r else "?"
                for item in ([] if q in ("ok -", "?") else q[3:].split(",")):
                    fid, _, hx = item.partition(":")
                    if hx != "-":
                        dec_lines.append(f"stream dec {layout_str(layout)} - {hx}")
                        owner.append(i)
            dec = driver_run(dec_lines)
            model = [[] for _ in sessions]
            for i, o in zip(owner, dec):
                model[i].append(o)
            for (layout, seen, got), m in zip(sessions, model):
                if m != got:
                    k = next((i for i, (a, b) in enumerate(zip(got, m)) if a != b), min(len(got), len(m)))
                    raise RuntimeError("public-level correspondence: stream_data() results differ from the model "
                                       f"(Reasm.run + Route + Stream.decode) at result #{k}: real "
                                       f"{(got[k] if k < len(got) else 'none')[:200]} model {(m[k] if k < len(m) else 'none')[:200]}"
                                       f" case {pub_line(layout, seen)[:400]}")
            stats["model_compared"] = len(sessions)
        return viol

    def deep_search(self, rng):
        out = []
        if self._per_key.get("public-level"):
            return out          # a public-level failing input has been reported already
        for k in range(40):
            layout, frames, stream, reads = pub_case(rng, big=(k % 2 == 0))
            v = pub_oracle(layout, reads)
            if v:
                out.append(v)
                if len(out) >= 2:
                    break
        return out


PROP = C03()
