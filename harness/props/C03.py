"""C03 — frame reassembly depends on the bytes received, not on how reads split them."""
from common import Prop, hexs, unhex
from ref import ref_frame, ref_crc16_xmodem
import genlib as g


def scripted_comm(chunks, frame_cls=None):
    """the real CommHandler over a scripted link; returns a function stepping the receive-thread body"""
    from nxslib.comm import CommHandler
    from nxslib.intf.iintf import ICommInterface
    from nxslib.proto.parse import Parser
    script = list(chunks)

    class Link(ICommInterface):
        def start(self): pass
        def stop(self): pass
        def drop_all(self): pass
        def _read(self):
            return script.pop(0) if script else b""
        def _write(self, data): pass

    parse = Parser(frame=frame_cls) if frame_cls else Parser()
    comm = CommHandler(Link(), parse)
    comm._dev = object()       # a device is known: ACK frames are queued like any other
    return comm, script


def run_real_routed(chunks, has_dev):
    """(response queue, stream queue) contents after the receive thread processed the scripted reads"""
    comm, script = scripted_comm(chunks)
    comm._dev = object() if has_dev else None
    for _ in range(200000):
        had = bool(script)
        before = comm._prev_read
        n = comm._q.qsize() + comm._q_stream.qsize()
        comm._recv_thread()
        if not had and not script and comm._prev_read == before and comm._q.qsize() + comm._q_stream.qsize() == n:
            break
    out = []
    for q in (comm._q, comm._q_stream):
        fr = []
        while not q.empty():
            f = q.get_nowait()
            fr.append((int(f.fid), bytes(f.data)))
        out.append(fr)
    comm._dev = None
    return out


def run_real(chunks, frame_cls=None, limit=200000):
    comm, script = scripted_comm(chunks, frame_cls)
    frames = []
    for _ in range(limit):
        had = bool(script)
        before = comm._prev_read
        comm._recv_thread()
        got = False
        for q in (comm._q, comm._q_stream):
            while not q.empty():
                f = q.get_nowait()
                frames.append((int(f.fid), bytes(f.data)))
                got = True
        if not got and not had and not script and comm._prev_read == before:
            break
    else:
        raise RuntimeError("receive body did not become quiescent")
    comm._dev = None
    return frames


def ref_scan(data):
    """one left-to-right pass (the property statement), NxScope serial framing"""
    out = []
    i = 0
    n = len(data)
    while True:
        j = data.find(b"\x55", i)
        if j < 0 or n - j < 4:
            return out
        flen = data[j + 1] | data[j + 2] << 8
        fid = data[j + 3]
        if fid > 8:
            i = j + 1
            continue
        if n - j < flen:
            return out
        if flen >= 6 and ref_crc16_xmodem(data[j:j + flen]) == 0:
            out.append((fid, data[j + 4:j + flen - 2]))
            i = j + flen
        else:
            i = j + 1


def fstr(frames):
    return "ok " + (",".join(f"{fid}:{hexs(d)}" for fid, d in frames) or "-")


def gen_stream(rng, maxparts=6):
    parts = []
    for _ in range(rng.randrange(1, maxparts + 1)):
        r = rng.random()
        if r < 0.45:
            parts.append(g.valid_frame(rng, maxlen=6))
        elif r < 0.6:
            parts.append(g.noise(rng, rng.randrange(1, 6), sof_rich=True))
        elif r < 0.7:
            f = g.valid_frame(rng, maxlen=6)
            parts.append(f[:rng.randrange(1, len(f))])               # cut-off frame
        elif r < 0.8:
            f = bytearray(g.valid_frame(rng, maxlen=6))
            f[rng.randrange(len(f))] ^= 1 << rng.randrange(8)         # damaged frame
            parts.append(bytes(f))
        elif r < 0.88:
            parts.append(bytes([0x55, rng.choice([0, 1, 3, 5, 6, 7, 12, 40]), 0, rng.randrange(10)]))   # bogus header
        else:
            parts.append(bytes(rng.choice([0, 0x55, 0xFF]) for _ in range(rng.randrange(1, 4))))
    return b"".join(parts)


class C03(Prop):
    id = "C03"
    lean_module = "NxsModel.Props.C03"
    rule = ("byte streams of valid frames of all ids interleaved with noise (0x55-rich), cut-off frames, damaged frames, "
            "bogus headers x chunkings (every composition of short streams, single split at every position, byte-wise, "
            "random, with empty reads) fed through a scripted link to the real CommHandler._recv_thread; the delivered "
            "frames are compared with the model's run; distinct = distinct (stream, chunking); non-trivial = stream "
            "containing at least one valid frame and at least 2 chunks")

    def line(self, chunks):
        return "reasm run " + ",".join(hexs(c) for c in chunks)

    def cases(self, rng, tier):
        T = tier == "thorough"
        # exhaustive compositions of short streams
        for _ in range(30 if T else 6):
            s = gen_stream(rng, 2)[:(12 if T else 10)]
            for sizes in g.compositions(len(s)):
                yield self.line(g.chunk(s, sizes) or [b""]), "all-compositions"
        # the split-start-byte family: noise then frames, every single split, with and without an empty read
        for _ in range(60 if T else 12):
            s = gen_stream(rng, 4)
            for k in range(len(s) + 1):
                yield self.line([s[:k], s[k:]]), "single-split"
                if k % 3 == 0:
                    yield self.line([s[:k], b"", s[k:]]), "single-split-empty"
            yield self.line([bytes([b]) for b in s] or [b""]), "bytewise"
            yield self.line([s]), "one-read"
        for _ in range(1500 if T else 300):
            s = gen_stream(rng, 6)
            yield self.line(g.random_chunking(rng, s) or [b""]), "random"
        # routing of the delivered frames to the response / stream queue (with and without a known device)
        for _ in range(300 if T else 60):
            s = b"".join(g.valid_frame(rng, fid=rng.choice([1, 1, 1, 2, 3, 4, 4, 5]), maxlen=5) for _ in range(rng.randrange(1, 7)))
            yield f"reasm route {rng.randrange(2)} " + ",".join(hexs(c) for c in (g.random_chunking(rng, s) or [b""])), "route"
        # leading residues (0..3 header bytes, then the rest later)
        for _ in range(100 if T else 20):
            f1, f2 = g.valid_frame(rng), g.valid_frame(rng)
            pre = bytes(rng.randrange(0, 3))
            for k in range(0, 5):
                yield self.line([pre + f1[:k], b"", f1[k:] + f2]), "residue"

    def impl(self, line):
        t = line.split(" ")
        if t[1] == "route":
            a, b = run_real_routed([unhex(c) for c in t[3].split(",")], t[2] == "1")
            return fstr(a) + " / " + fstr(b)
        chunks = [unhex(c) for c in t[2].split(",")]
        return fstr(run_real(chunks))

    def nontrivial(self, line, out):
        return out != "ok -" and "," in line.split(" ")[-1]

    def oracle(self, line, impl_out=None):
        t = line.split(" ")
        if t[1] == "route":
            chunks = [unhex(c) for c in t[3].split(",")]
            a, b = run_real_routed(chunks, t[2] == "1")
            want = ref_scan(b"".join(chunks))
            wa = [f for f in want if f[0] != 1 and not (t[2] == "0" and f[0] == 4)]
            wb = [f for f in want if f[0] == 1]
            if (a, b) != (wa, wb):
                return {"key": "routing", "what": "frames are not routed in arrival order to the response / stream queue",
                        "expected": fstr(wa) + " / " + fstr(wb), "observed": fstr(a) + " / " + fstr(b)}
            return None
        chunks = [unhex(c) for c in line.split(" ")[2].split(",")]
        got = run_real(chunks)
        want = ref_scan(b"".join(chunks))
        if got != want:
            return {"key": "chunking-dependence", "what": "frames extracted differ from one left-to-right scan of the concatenated bytes",
                    "expected": fstr(want), "observed": fstr(got), "stream": hexs(b"".join(chunks))}
        return None

    def search_cases(self, rng):
        f = ref_frame(2, b"")
        f2 = ref_frame(5, b"\x01")
        for pre in (b"", b"\x00", b"\x00\x00", b"\x00\x00\x00", b"\x55", b"\x00\x55"):
            s = pre + f + f2
            for sizes in g.compositions(min(len(s), 11)):
                head = g.chunk(s[:11], sizes)
                yield self.line(head + [s[11:]]), "search"


PROP = C03()
