"""C03 — frame reassembly depends on the bytes received, not on how reads split them."""
import os
import random
import time

from common import Prop, hexs, unhex
from ref import ref_frame
import genlib as g


def _mk_crc_table():
    t = []
    for i in range(256):
        r = i << 8
        for _ in range(8):
            r = ((r << 1) ^ 0x1021) & 0xFFFF if r & 0x8000 else (r << 1) & 0xFFFF
        t.append(r)
    return t


_CRC_T = _mk_crc_table()


def crc16(data):
    """CRC-16/XMODEM (poly 0x1021, init 0, no reflection, no xorout), table driven: the oracle's own CRC
    (frames of up to 65535 bytes are judged, the bitwise reference in ref.py is too slow for that)"""
    r = 0
    t = _CRC_T
    for b in data:
        r = ((r << 8) & 0xFFFF) ^ t[(r >> 8) ^ b]
    return r


def take_all(q, n=None):
    """frames waiting on a queue of the handler, as (id, payload), taken off without blocking — with the one method the
    library itself uses on its queues (`get`), so that a queue class of the library's own works as well; `n` = at most
    that many (a snapshot of what was waiting when `n` was read)"""
    import queue as _q
    out = []
    while n is None or len(out) < n:
        try:
            f = q.get(block=False)
        except _q.Empty:
            break
        out.append((int(f.fid), bytes(f.data)))
    return out


def waiting(q):
    try:
        return q.qsize()
    except AttributeError:
        return -1


def scripted_comm(chunks, frame_cls=None):
    """the real CommHandler over a scripted link; returns a function stepping the receive-thread body"""
    from nxslib.comm import CommHandler
    from nxslib.intf.iintf import ICommInterface
    from nxslib.proto.parse import Parser
    script = list(chunks)

    class Link(ICommInterface):
        def start(self): pass
        def stop(self): pass
        def drop_all(self): pass
        def _read(self):
            return script.pop(0) if script else b""
        def _write(self, data): pass

    parse = Parser(frame=frame_cls) if frame_cls else Parser()
    comm = CommHandler(Link(), parse)
    comm._dev = object()       # a device is known: ACK frames are queued like any other
    return comm, script


def run_real_routed(chunks, has_dev):
    """(response queue, stream queue) contents after the receive thread processed the scripted reads"""
    comm, script = scripted_comm(chunks)
    comm._dev = object() if has_dev else None
    for _ in range(200000):
        had = len(script)
        before = comm._prev_read
        n = waiting(comm._q) + waiting(comm._q_stream)
        comm._recv_thread()
        if len(script) == had and comm._prev_read == before and waiting(comm._q) + waiting(comm._q_stream) == n:
            # nothing read, nothing consumed, nothing delivered: the receive body is a function of (carry-over buffer,
            # link), so every further call does the same — quiescent (script exhausted) or stalled (reads left unread)
            break
    out = [take_all(q) for q in (comm._q, comm._q_stream)]
    comm._dev = None
    return out


def run_real(chunks, frame_cls=None, limit=200000, stall=None):
    """frames delivered by the receive-thread body over the scripted reads.  `stall` (a list) receives the number of
    scripted reads the receiver never asked for, when it stopped reading although reads were left: a call of the body
    that reads nothing, consumes nothing and delivers nothing is a fixed point (the body is a function of the carry-over
    buffer and the link), so the receiver is stuck there for ever and everything behind it is lost."""
    comm, script = scripted_comm(chunks, frame_cls)
    frames = []
    for _ in range(limit):
        had = len(script)
        before = comm._prev_read
        comm._recv_thread()
        new = take_all(comm._q) + take_all(comm._q_stream)
        frames += new
        got = bool(new)
        if not got and len(script) == had and comm._prev_read == before:
            if script and stall is not None:
                stall.append(len(script))
            break
    else:
        raise RuntimeError("receive body did not become quiescent")
    comm._dev = None
    return frames


def ref_scan(data):
    """one left-to-right pass (the property statement), NxScope serial framing"""
    out = []
    i = 0
    n = len(data)
    while True:
        j = data.find(b"\x55", i)
        if j < 0 or n - j < 4:
            return out
        flen = data[j + 1] | data[j + 2] << 8
        fid = data[j + 3]
        if fid > 8:
            i = j + 1
            continue
        if n - j < flen:
            return out
        if flen >= 6 and crc16(data[j:j + flen]) == 0:
            out.append((fid, data[j + 4:j + flen - 2]))
            i = j + flen
        else:
            i = j + 1


def fstr(frames):
    return "ok " + (",".join(f"{fid}:{hexs(d)}" for fid, d in frames) or "-")


def gen_stream(rng, maxparts=6):
    parts = []
    for _ in range(rng.randrange(1, maxparts + 1)):
        r = rng.random()
        if r < 0.45:
            parts.append(g.valid_frame(rng, maxlen=6))
        elif r < 0.6:
            parts.append(g.noise(rng, rng.randrange(1, 6), sof_rich=True))
        elif r < 0.7:
            f = g.valid_frame(rng, maxlen=6)
            parts.append(f[:rng.randrange(1, len(f))])               # cut-off frame
        elif r < 0.8:
            f = bytearray(g.valid_frame(rng, maxlen=6))
            f[rng.randrange(len(f))] ^= 1 << rng.randrange(8)         # damaged frame
            parts.append(bytes(f))
        elif r < 0.88:
            parts.append(bytes([0x55, rng.choice([0, 1, 3, 5, 6, 7, 12, 40]), 0, rng.randrange(10)]))   # bogus header
        else:
            parts.append(bytes(rng.choice([0, 0x55, 0xFF]) for _ in range(rng.randrange(1, 4))))
    return b"".join(parts)


# ---- long frames (REVIEW C03-1): lengths around every power-of-two / buffer-size boundary a receive path may have ----
BIG_SIZES = [255, 256, 257, 1023, 1024, 1025, 1500, 4096, 4097, 32767, 32768, 65535]
NOISE_BEFORE = bytes([0x00, 0x55, 0x13, 0xAA, 0x55])     # two false start bytes, neither starts a decodable header
EX_FRAME = bytes([0x55, 0x07, 0x00, 0x05, 0x01, 0x88, 0x9C])
BOGUS40 = bytes([0x55, 0x28, 0x00, 0x02, 0xAA, 0xBB])     # decodable header (id 2) declaring 0x28 bytes
BOGUS65535 = bytes([0x55, 0xFF, 0xFF, 0x07])              # decodable header (id 7) declaring 65535 bytes


def big_frame(rng, total, fid=None):
    """valid frame of exactly `total` bytes on the wire; the payload is random (so it contains start bytes)"""
    fid = rng.choice([1, 1, 2, 3, 4, 8]) if fid is None else fid
    return ref_frame(fid, rng.randbytes(total - 6))


def cut(data, n):
    return [data[i:i + n] for i in range(0, len(data), n)] or [b""]


def big_chunkings(pre, f, post, small, all_splits):
    """(tag, chunks) for the stream pre ++ f ++ post: one read, 64-byte reads, reads of 1500 with an idle read after
    each (a frame in transit over a tty), splits inside the header / at the header end / inside the CRC each followed
    by an idle read, and byte-wise for the small ones"""
    s = pre + f + post
    a = len(pre)
    out = [("big-one-read", [s]), ("big-64", cut(s, 64)),
           ("big-1500-idle", [x for c in cut(s, 1500) for x in (c, b"")])]
    splits = [("big-split-in-hdr", a + 2), ("big-split-hdr-end", a + 4), ("big-split-in-crc", a + len(f) - 1),
              ("big-split-mid", a + len(f) // 2)]
    for k, (tag, pos) in enumerate(splits):
        if all_splits or k == (len(f) + a) % len(splits):
            out.append((tag, [s[:pos], b"", s[pos:]]))
            out.append((tag + "-noidle", [s[:pos], s[pos:]]))
    if small:
        out.append(("big-bytewise", [bytes([b]) for b in s]))
        out.append(("big-bytewise-idle", [x for b in s for x in (bytes([b]), b"")]))
    return out


def delay_cases(rng, T):
    """REVIEW C03-2: a decodable header that announces more bytes than have arrived makes the receiver wait; the
    frames behind it are delivered, all of them, once the announced number of bytes is in"""
    more = EX_FRAME * 2
    d1 = BOGUS40 + EX_FRAME * 3
    yield [d1], "delay-stalled"                                   # 27 of 40 bytes: nothing yet
    yield [d1, b"", b""], "delay-stalled"
    yield [d1, b"", more], "delay-resumed"                        # 41 bytes: window rejected, five frames delivered
    yield [d1, b"", more[:12]], "delay-stalled"                   # 39 bytes: still waiting
    yield [d1, b"", more[:12], b"", more[12:13]], "delay-resumed"     # the 40th byte arrives alone
    yield [bytes([b]) for b in d1 + more] + [b""], "delay-resumed"
    yield g.random_chunking(rng, d1 + more + g.valid_frame(rng)), "delay-resumed"
    d2 = BOGUS65535 + EX_FRAME * 100
    yield [d2, b""], "delay-stalled"                              # 704 of 65535 bytes: none of the 100 frames yet
    need = 65535 - len(d2)
    frames_fill = b"".join(big_frame(rng, 2000) for _ in range(need // 2000)) + big_frame(rng, need % 2000)
    fills = [bytes(need), frames_fill] + ([rng.randbytes(need)] if T else [])
    for fill in fills:
        tail = g.valid_frame(rng, fid=4)
        yield [d2, b""] + cut(fill[:-1], 4096) + [b""], "delay-stalled"          # 65534 bytes: still waiting
        yield [d2, b""] + cut(fill, 4096) + [b"", tail], "delay-resumed"         # 65535: all delivered
        yield cut(d2 + fill + tail, 1500), "delay-resumed"


# ---- public level (REVIEW C03-3): CommHandler.stream_data() over a scripted link -------------------------------------
def pub_budget(script_reads):
    """virtual seconds an application waits for the receive thread to work through the scripted reads: the link's own
    time (an idle read lasts 0.01 s) plus a minute"""
    return 60.0 + 0.02 * len(script_reads)


def pub_session(layout, script_reads, seed=None, stale=None, info=None, consumer="poll"):
    """The real CommHandler connects (virtual-time runtime, reference device) to a device with the channel `layout`;
    then the link returns the scripted reads (b"" = an idle read) and the application polls stream_data() until the
    script is exhausted and nothing more comes.  Returns (canonical stream_data() results, reads seen by the client
    after the handshake, the client's carry-over buffer when the script started).
    With `stale` (bytes): after the first connect the device emits `stale` (e.g. the beginning of a frame), the client
    reads it, disconnects, and connects again with the SAME handler; the script then runs in the second session.
    `info` receives requests written / virtual seconds of both connects and the outcome of the second one; `timed_out`
    when the application gave up after `pub_budget` virtual seconds with scripted reads still unread (the receive thread
    no longer reads); `disconnect` when disconnect() did not come back.
    `consumer`: "poll" = the application polls stream_data() from the start; "lazy" = it does something else until the
    link has handed over all scripted reads (at most `pub_budget` virtual seconds) and polls then; "none" = it never
    polls: after the same wait the frames waiting on the response queue and on the stream queue are taken off (once,
    without blocking) and returned as `info["queues"]` = ([(id, payload)…], [(id, payload)…])."""
    import vsim
    import refdev
    import streamglue as sg
    from nxslib.intf.iintf import ICommInterface

    chans = [dict(en=True, type=t, vdim=v, div=0, mlen=m, name=f"ch{i}") for i, (t, v, m) in enumerate(layout)]
    res = {}

    def scenario(sim):
        from nxslib.comm import CommHandler
        from nxslib.proto.parse import Parser
        dev = refdev.RefDevice(chans, flags=3)
        dev.now = lambda: sim.now

        class Link(ICommInterface):
            script = None
            seen = []

            def start(self): pass
            def stop(self): pass
            def drop_all(self): pass

            def _read(self):
                if self.script is None:
                    if not sim.block(lambda: len(dev.rx) > 0, 0.01, "link-read"):
                        return b""
                    out = bytes(dev.rx)
                    del dev.rx[:]
                    return out
                if self.script:
                    c = self.script.pop(0)
                    if not c:
                        sim.block(lambda: False, 0.01, "link-idle")
                    self.seen.append(c)
                    return c
                sim.block(lambda: False, 0.01, "link-idle")
                return b""

            def _write(self, data):
                self.nwrites += 1
                sim.yield_("link-write")
                dev.on_write(bytes(data))

        link = Link()
        link.nwrites = 0
        comm = CommHandler(link, Parser())
        t0 = sim.now
        comm.connect()
        if info is not None:
            info["connect1"] = (link.nwrites, round(sim.now - t0, 2))
        if stale is not None:
            dev.rx += stale
            sim.block(lambda: False, 0.5, "stale-bytes-read")
            comm.disconnect()
            del dev.rx[:]
            w0, t0 = link.nwrites, sim.now
            try:
                comm.connect()
                outcome = "ok"
            except Exception as e:      # noqa: BLE001 - the outcome of the second connect is what is judged
                outcome = "exc " + type(e).__name__ + ": " + str(e)[:80]
            if info is not None:
                info["connect2"] = (link.nwrites - w0, round(sim.now - t0, 2))
                info["connect2_outcome"] = outcome
            if outcome != "ok":
                res["seen"], res["carry"] = [], b""
                try:
                    comm.disconnect()
                except Exception:       # noqa: BLE001
                    pass
                return []
        sim.block(lambda: False, 0.05, "settle")
        res["carry"] = bytes(comm._prev_read)
        link.seen = []
        link.script = list(script_reads)
        out = []
        nones = 0
        t_start = sim.now
        budget = pub_budget(script_reads)
        if consumer != "poll":
            sim.block(lambda: not link.script, budget, "application-busy")
            sim.block(lambda: False, 1.0, "application-busy")
        if consumer == "none":
            # what is waiting NOW (taking frames off may let a receive thread that was blocked on a full queue go on)
            counts = [waiting(q) for q in (comm._q, comm._q_stream)]
            qs = [take_all(q, n if n >= 0 else None) for q, n in zip((comm._q, comm._q_stream), counts)]
            if info is not None:
                info["queues"] = tuple(qs)
        for _ in range(100000 if consumer != "none" else 0):
            if sim.now - t_start > 2 * budget:
                break
            try:
                ds = comm.stream_data()
            except Exception as e:      # noqa: BLE001 - reported as the result of that call
                out.append("exc " + type(e).__name__)
                continue
            if ds is None:
                if not link.script:
                    nones += 1
                    if nones >= 2:
                        break
                continue
            nones = 0
            out.append(ds)
        if info is not None:
            info["virtual_s"] = round(sim.now - t_start, 1)
        if link.script and info is not None:
            info["timed_out"] = (f"{len(link.script)} of {len(script_reads)} scripted reads still unread after "
                                 f"{sim.now - t_start:.0f} virtual seconds: the receive thread no longer reads")
        res["seen"] = list(link.seen)
        try:
            comm.disconnect()
        except Exception as e:          # noqa: BLE001 - e.g. the receive thread is blocked for ever and cannot be joined
            if info is not None:
                info["disconnect"] = type(e).__name__ + ": " + str(e)[:200]
        return out

    # spin limit: the longest stretch of work between two clock ticks in these sessions is one read of ~100 kB rescanned
    # byte by byte (about 3 primitive operations per byte); a receive thread that loops without reading is reported
    # after a million operations (seconds) instead of the simulator's default five millions (a minute)
    r, sim = vsim.run_sim(scenario, seed=seed, time_limit=100000.0, real_limit=60.0, spin_limit=1000000)
    if isinstance(r, BaseException):
        raise r
    return r, res["seen"], res["carry"]


def sim_verdict(e):
    """the simulator's verdicts about a session that does not come to an end (a thread loops without the clock
    advancing, nobody can run, virtual / real time budget exhausted)"""
    return type(e).__name__ in ("Spin", "Deadlock", "TimeLimit", "RealTimeLimit")


def stuck_violation(e, layout, reads, consumer, nwant):
    stream = b"".join(reads)
    return {"key": "public-level", "what": "a session of the real CommHandler over a scripted link (receive thread running, "
            + CONSUMER_TEXT[consumer] + ") does not come to an end: the frames on the line are never all delivered",
            "expected": f"{nwant} frames delivered and the session over within {pub_budget(reads):.0f} virtual seconds",
            "observed": f"{type(e).__name__}: {str(e)[:400]}", "stuck": True,
            "layout": layout_str(layout), "stream_len": len(stream), "frames_on_the_line": describe(stream),
            "reads_shape": reads_shape(reads), "reads": ",".join(hexs(c) for c in reads)[:4000],
            "case": pub_line(layout, reads, consumer)}


PUB_TYPES = [2, 3, 4, 5, 6, 7, 8, 9, 10, 11]


def pub_case(rng, big):
    """(layout, [(payload, expected canonical result)], byte stream, reads)"""
    import streamglue as sg
    import streamgen as gen
    n = rng.randrange(1, 5)
    layout = [(rng.choice(PUB_TYPES), rng.choice([1, 1, 2, 3]), rng.choice([0, 0, 1, 2])) for _ in range(n)]
    parts, frames = [], []
    for k in range(rng.randrange(2, 7)):
        ns = rng.choice([1, 1, 2, 3, 5]) if not (big and k == 1) else rng.choice([120, 300, 700])
        smps = [gen.gen_sample(rng, layout, {}, rng.randrange(n)) for _ in range(ns)]
        flags = rng.choice([0, 0, 1, rng.randrange(256)])
        payload = sg.ref_wire(layout, {}, smps, flags=flags)
        want = f"ok {flags} " + "|".join(gen.sample_str(layout, {}, s_, True) for s_ in smps)
        frames.append((payload, want))
        r = rng.random()
        if r < 0.25:
            # noise rich in start bytes in which no position starts a decodable header (every id byte is > 8)
            parts.append(bytes(rng.choice([0x55, 0x55, 0xEE, 0xAA, 0x13]) for _ in range(rng.randrange(1, 6))) + b"\xee\xee\xee")
        elif r < 0.4:
            parts.append(ref_frame(4, bytes(4)))                     # an ACK in between goes to the other queue
        elif r < 0.5:
            bad = bytearray(ref_frame(1, payload))
            bad[-1] ^= 0x40
            parts.append(bytes(bad))                                  # the same frame with a damaged CRC first
        parts.append(ref_frame(1, payload))
    stream = b"".join(parts)
    mode = rng.randrange(4)
    if mode == 0:
        reads = [stream]
    elif mode == 1:
        reads = cut(stream, rng.choice([1, 3, 7, 64]))
    elif mode == 2:
        reads = [x for c in cut(stream, rng.choice([5, 50, 1000])) for x in (c, b"")]
    else:
        reads = g.random_chunking(rng, stream)
    if len(reads) > 3000:
        reads = cut(stream, 64)
    return layout, frames, stream, reads


def layout_str(layout):
    return ",".join(f"{t}:{v}:{m}" for t, v, m in layout)


def pub_line(layout, reads, consumer="poll"):
    return PUB_OP_OF[consumer] + " " + layout_str(layout) + " " + ",".join(hexs(c) for c in reads)


def pub_expected(layout, stream):
    """what stream_data() must return, call by call, for the received bytes `stream`: the STREAM frames of the
    reference scan, each decoded by the reference stream parser (int and float types only); None = cannot judge"""
    import streamglue as sg
    out = []
    for fid, payload in ref_scan(stream):
        if fid != 1 or not payload:
            continue
        parsed = sg.ref_parse(layout, {}, payload)
        if parsed is None:
            return None
        smps = []
        for chan, vals, metas in parsed:
            ty, vdim, mlen = layout[chan]
            vs = []
            for code, raw in vals:
                if code in "BHIQbhiq":
                    vs.append(f"i:{int.from_bytes(raw, 'little', signed=code.islower())}")
                elif code in "fd":
                    vs.append(f"{code}:" + format(int.from_bytes(raw, "little"), f"0{2 * len(raw)}x"))
                else:
                    return None
            smps.append(f"{chan},{sg.dtype_of(ty, {})},{vdim},{mlen},[{';'.join(vs)}],"
                        f"[{';'.join(str(int.from_bytes(m, 'little')) for m in metas)}]")
        out.append((payload, f"ok {payload[0]} " + ("|".join(smps) or "-")))
    return out


def pub_real(layout, reads, stale=None, info=None, consumer="poll"):
    """canonical results of the real stream_data() calls for the scripted reads (+ reads seen, carry-over)"""
    import streamglue as sg
    res, seen, carry = pub_session(layout, reads, stale=stale, info=info, consumer=consumer)
    exp = pub_expected(layout, carry + b"".join(reads)) or []
    out = []
    for k, ds in enumerate(res):
        if isinstance(ds, str):
            out.append(ds)
        elif k < len(exp):
            out.append(sg.canon_decoded(ds, layout, {}, exp[k][0]))
        else:
            out.append(f"extra flags={ds.flags} samples={len(ds.samples)}")
    return out, seen, carry


FRAME_NAMES = {1: "STREAM", 2: "CMNINFO", 3: "CHINFO", 4: "ACK"}


def describe(stream):
    """the frames of the reference scan of `stream`, run-length encoded: 'ACK x17, STREAM x1'"""
    runs = []
    for fid, _ in ref_scan(stream):
        nm = FRAME_NAMES.get(fid, f"id{fid}")
        if runs and runs[-1][0] == nm:
            runs[-1][1] += 1
        else:
            runs.append([nm, 1])
    return ", ".join(f"{nm} x{k}" for nm, k in runs)[:600] or "no frame"


def reads_shape(reads):
    sizes = [len(c) for c in reads]
    return (f"{len(reads)} reads ({sizes.count(0)} idle), sizes " + ",".join(map(str, sizes[:16]))
            + ("…" if len(sizes) > 16 else ""))


PUB_OPS = {"pub": "poll", "publazy": "lazy", "pubq": "none"}
PUB_OP_OF = {v: k for k, v in PUB_OPS.items()}
CONSUMER_TEXT = {"poll": "the application polls stream_data() all along",
                 "lazy": "the application starts polling stream_data() once the link has gone quiet",
                 "none": "nobody takes frames off the queues while the link delivers"}


def pub_oracle(layout, reads, consumer="poll"):
    return pub_judge(layout, reads, consumer)[0]


def pub_judge(layout, reads, consumer="poll"):
    """public level, receive thread running: the results of stream_data(), call by call, are the STREAM frames of the
    reference scan of the bytes received, decoded — all of them, within `pub_budget` virtual seconds, whatever else
    (control frames nobody asked for, in any number) is on the line between them.
    Returns (violation | None, canonical results, reads seen by the client, carry-over at the start of the script)."""
    if consumer == "none":
        return pubq_judge(layout, reads)
    exp = pub_expected(layout, b"".join(reads))
    if exp is None:
        return None, None, [], b""
    info = {}
    want = [w for _, w in exp]
    try:
        got, seen, carry = pub_real(layout, reads, info=info, consumer=consumer)
    except Exception as e:      # noqa: BLE001
        if sim_verdict(e) and want:
            return stuck_violation(e, layout, reads, consumer, len(want)), None, [], b""
        raise
    if carry:
        return None, got, seen, carry
    if got != want:
        k = next((i for i, (a, b) in enumerate(zip(got, want)) if a != b), min(len(got), len(want)))
        stream = b"".join(reads)
        v = {"key": "public-level", "what": "CommHandler.stream_data() over a scripted link does not return the STREAM "
             "frames of one left-to-right scan of the received bytes (decoded), call by call (" + CONSUMER_TEXT[consumer] + ")",
             "expected": f"{len(want)} results; #{k}: " + (want[k][:300] if k < len(want) else "none"),
             "observed": f"{len(got)} results; #{k}: " + (got[k][:300] if k < len(got) else "none"),
             "layout": layout_str(layout), "stream_len": len(stream), "frames_on_the_line": describe(stream),
             "reads_shape": reads_shape(reads),
             "reads": ",".join(hexs(c) for c in reads)[:4000], "case": pub_line(layout, reads, consumer)}
        v["observed"] += f" ({info.get('virtual_s')} virtual seconds after the link started to deliver)"
        if info.get("timed_out"):
            v["observed"] += "; " + info["timed_out"]
        if info.get("disconnect"):
            v["disconnect"] = info["disconnect"]
        return v, got, seen, carry
    return None, got, seen, carry


def route_expected(stream):
    """(response queue, stream queue) for the received bytes, device known: the frames of the reference scan in order,
    STREAM frames on the stream queue, every other frame on the response queue"""
    want = ref_scan(stream)
    return [f for f in want if f[0] != 1], [f for f in want if f[0] == 1]


def pubq_real(layout, reads):
    info = {}
    _, seen, carry = pub_session(layout, reads, info=info, consumer="none")
    return info.get("queues", ([], [])), seen, carry, info


def pubq_oracle(layout, reads):
    return pubq_judge(layout, reads)[0]


def pubq_judge(layout, reads):
    """queue level, receive thread running, nobody consuming: once the link has handed over all reads, the response
    queue and the stream queue hold the frames of the reference scan, each exactly once and in order (the observable of
    the `reasm route` cases, for streams of hundreds of frames).
    Returns (violation | None, (response queue, stream queue), reads seen by the client, carry-over)."""
    stream = b"".join(reads)
    wa, wb = route_expected(stream)
    try:
        (a, b), seen, carry, info = pubq_real(layout, reads)
    except Exception as e:      # noqa: BLE001
        if sim_verdict(e) and (wa or wb):
            return stuck_violation(e, layout, reads, "none", len(wa) + len(wb)), None, [], b""
        raise
    if carry:
        return None, (a, b), seen, carry
    if (a, b) != (wa, wb):
        def summ(q):
            return f"{len(q)} frames"

        def first_diff(g_, w_):
            k = next((i for i, (x, y) in enumerate(zip(g_, w_)) if x != y), min(len(g_), len(w_)))
            return k, (f"{g_[k][0]}:{hexs(g_[k][1])[:40]}" if k < len(g_) else "none"), \
                (f"{w_[k][0]}:{hexs(w_[k][1])[:40]}" if k < len(w_) else "none")
        which, g_, w_ = ("response queue", a, wa) if a != wa else ("stream queue", b, wb)
        k, gk, wk = first_diff(g_, w_)
        v = {"key": "queues-long-run", "what": "with the receive thread running and nobody taking frames off, the frames "
             "waiting on the response / stream queue after the link has gone quiet are not the frames of one left-to-right "
             "scan of the received bytes, each once and in order",
             "expected": f"response queue {summ(wa)}, stream queue {summ(wb)}; {which} #{k}: {wk}",
             "observed": f"response queue {summ(a)}, stream queue {summ(b)}; {which} #{k}: {gk}",
             "layout": layout_str(layout), "stream_len": len(stream), "frames_on_the_line": describe(stream),
             "reads_shape": reads_shape(reads),
             "reads": ",".join(hexs(c) for c in reads)[:4000], "case": pub_line(layout, reads, "none")}
        v["observed"] += f" ({info.get('virtual_s')} virtual seconds after the link started to deliver)"
        if info.get("timed_out"):
            v["observed"] += "; " + info["timed_out"]
        if info.get("disconnect"):
            v["disconnect"] = info["disconnect"]
        return v, (a, b), seen, carry
    return None, (a, b), seen, carry


# ---- long runs (REVIEW R4-A-A1 / R4-B-H1): hundreds of control frames nobody asked for between stream frames; hundreds of
# stream frames before anybody polls.  Run lengths sit around the sizes a bounded queue might have.
RUN_LENGTHS = [15, 16, 17, 31, 33, 63, 64, 65, 100, 127, 129, 255, 257, 300]
LONG_RUNS = [511, 513, 600, 1025, 1100]
LONG_LAYOUT = [(7, 1, 0), (4, 2, 1)]


def ctl_frame(rng, kind=None):
    kind = rng.choice("aaaci") if kind is None else kind
    if kind == "a":
        return ref_frame(4, rng.choice([bytes(4), b"\xff\xff\xff\xff", rng.randbytes(4)]))
    if kind == "c":
        return ref_frame(2, bytes([rng.randrange(1, 9), rng.randrange(8), 0]))
    return ref_frame(3, bytes([rng.randrange(2), rng.randrange(2, 12), rng.randrange(1, 4), rng.randrange(2), 0]) + b"ch" + bytes([0x30 + rng.randrange(10)]))


def stream_frame(rng, layout, ns=1):
    import streamglue as sg
    import streamgen as gen
    smps = [gen.gen_sample(rng, layout, {}, rng.randrange(len(layout))) for _ in range(ns)]
    return ref_frame(1, sg.ref_wire(layout, {}, smps, flags=rng.choice([0, 0, 1])))


def long_chunking(rng, stream, frames, mode):
    if mode == 0:
        return [stream]
    if mode == 1:
        return cut(stream, 64)
    if mode == 2:
        return [x for f in frames for x in (f, b"")][:4000] if len(frames) <= 2000 else cut(stream, 64)   # a frame per read, idle reads between
    if mode == 3:
        return cut(stream, 4096)
    return cut(stream, rng.choice([7, 100, 1000]))


def long_case(rng, k):
    """(consumer, layout, reads, label) — session k of the long-run family.  The first ones are fixed shapes (smallest
    first, so that the failing input reported is the simplest one), the rest random mixes."""
    layout = LONG_LAYOUT
    fixed = [("poll", [("a", 17), ("s", 1)], 0),                       # the reviewer's example: 17 ACK frames, then a stream frame
             ("none", [("s", 65), ("a", 1)], 0),
             ("lazy", [("s", 600), ("a", 1), ("s", 3)], 1),
             ("poll", [("a", 300), ("s", 2), ("c", 200), ("s", 1), ("i", 100), ("s", 3)], 2),
             ("none", [("s", 1100), ("a", 20), ("s", 5)], 3)]
    if k < len(fixed):
        consumer, shape, mode = fixed[k]
    else:
        consumer = ["poll", "none", "lazy"][k % 3]
        shape = []
        for _ in range(rng.randrange(2, 6)):
            if consumer == "poll":
                shape.append((rng.choice("aaci") if rng.random() < 0.7 else "m", rng.choice(RUN_LENGTHS)))
                shape.append(("s", rng.choice([1, 1, 2, 5])))
            else:
                shape.append(("s", rng.choice(RUN_LENGTHS + LONG_RUNS[:3]) if rng.random() < 0.7 else rng.choice(LONG_RUNS)))
                shape.append((rng.choice("acim"), rng.choice([1, 2, 17, 40])))
            if sum(n for _, n in shape) > 1500:
                break
        mode = rng.randrange(5)
    frames = []
    for kind, cnt in shape:
        for _ in range(cnt):
            frames.append(stream_frame(rng, layout, rng.choice([1, 1, 2])) if kind == "s" else ctl_frame(rng, None if kind == "m" else kind))
    stream = b"".join(frames)
    return consumer, layout, long_chunking(rng, stream, frames, mode), "+".join(f"{n}{kd}" for kd, n in shape)


def reconnect_scenarios(rng):
    """(label, stale bytes of the first session, layout, reads of the second session)"""
    layout = [(7, 1, 0), (10, 2, 1)]
    import streamglue as sg
    import streamgen as gen
    frames = []
    for _ in range(3):
        smps = [gen.gen_sample(rng, layout, {}, rng.randrange(2)) for _ in range(rng.randrange(1, 4))]
        frames.append(ref_frame(1, sg.ref_wire(layout, {}, smps, flags=0)))
    stream = b"".join(frames)
    reads = [stream[:5], b"", stream[5:]]
    return [("cut-off long frame", big_frame(rng, 1006, fid=1)[:100], layout, reads),
            ("cut-off short frame", ref_frame(1, bytes(40))[:20], layout, reads),
            ("bogus header declaring 65535", BOGUS65535, layout, reads),
            ("cut-off header", b"\x55\x0a", layout, reads),
            ("complete frame not yet extracted + cut-off frame", ref_frame(4, bytes(4))[:6], layout, reads)]


def reconnect_oracle(label, stale, layout, reads):
    """a session that follows a disconnect behaves as a session of a fresh handler: the handshake takes the same
    requests and the same (virtual) time as the first one, and the frames delivered are the scan of the bytes
    received in THIS session (bytes left over from the previous session are not part of it)"""
    info = {}
    got, seen, carry = pub_real(layout, reads, stale=stale, info=info)
    want = [w for _, w in (pub_expected(layout, b"".join(reads)) or [])]
    bad = None
    if info.get("connect2_outcome") != "ok":
        bad = f"second connect: {info.get('connect2_outcome')} after {info['connect2'][0]} requests / {info['connect2'][1]} s"
    elif info["connect2"] != info["connect1"]:
        bad = (f"second connect took {info['connect2'][0]} requests / {info['connect2'][1]} s, "
               f"the first one {info['connect1'][0]} requests / {info['connect1'][1]} s")
    elif got != want:
        bad = f"stream_data() results in the second session: {len(got)} results, first {str(got[:1])[:200]}"
    if bad:
        return {"key": "reconnect-stale-buffer", "what": "bytes of a frame left unfinished when the client disconnected "
                "are still in the reassembly buffer of the next session (" + label + ")",
                "expected": f"second connect ok with {info['connect1'][0]} requests / {info['connect1'][1]} s, then "
                            f"{len(want)} stream_data() results",
                "observed": bad, "stale_bytes_first_session": hexs(stale)[:400], "layout": layout_str(layout),
                "reads_second_session": ",".join(hexs(c) for c in reads),
                "case": "reconnect " + layout_str(layout) + " " + hexs(stale) + " " + ",".join(hexs(c) for c in reads)}
    return None


class C03(Prop):
    id = "C03"
    lean_module = "NxsModel.Props.C03"
    rule = ("byte streams of valid frames of all ids interleaved with noise (0x55-rich), cut-off frames, damaged frames, "
            "bogus headers x chunkings (every composition of short streams, single split at every position, byte-wise, "
            "random, with empty reads) fed through a scripted link to the real CommHandler._recv_thread; the delivered "
            "frames are compared with the model's run; long frames (255..257, 1023..1025, 1500, 4096/4097, 32767/32768, "
            "65535 bytes on the wire, random payloads) behind noise and in front of a valid frame under one read / 64-byte "
            "reads / 1500-byte reads with idle reads / splits inside the header, at its end, inside the CRC / byte-wise; "
            "decodable bogus headers (declared 40 and 65535 bytes) in front of valid frames, with the awaited bytes supplied "
            "later or not; public level: stream_data() of a connected CommHandler over a scripted link vs the model "
            "(Reasm.run + Route + Stream.decode) and vs the samples encoded; long runs with the real receive thread: 15..300 "
            "control frames nobody asks for (ACK / CMNINFO / CHINFO) between stream frames while the application polls "
            "stream_data(); 63..1100 stream frames before the application starts polling; the same with nobody consuming, "
            "judged on the two queues (run lengths around 16/32/64/128/256/512/1024; one read, 64-byte / 4096-byte reads, a "
            "frame per read with idle reads); distinct = distinct (stream, chunking); "
            "non-trivial = stream containing at least one valid frame and at least 2 chunks")

    assumptions = [
        "accepted reading of 'accepts a complete valid frame and continues after it, and otherwise advances one byte' / 'a valid "
        "frame that follows line noise or a cut-off frame is not lost' — MODULO AWAITED BYTES (REVIEW R4-A-A7): at a start byte "
        "whose header decodes and declares more bytes than have arrived so far the scan (specification `Reasm.scan`, oracle "
        "`ref_scan`, and the code) WAITS instead of advancing; it advances one byte only once the declared number of bytes is in "
        "and the window is rejected. Reviewer's example: the first 10 bytes of a 40-byte frame (55 28 00 01 + 6 payload bytes) "
        "followed by the valid frame 55 07 00 05 01 88 9c and idle reads deliver nothing, under every chunking, until 40 bytes "
        "are in (17 and 38 bytes: nothing; with the 40th byte: every frame behind the cut-off one, none lost) — the literal "
        "scan of the text would deliver [(5, 01)] at once. Regression corpus harness/corpus/C03/f4_awaited_bytes.txt; theorems "
        "stalled_until / delivery_delay_bounded / valid_frame_not_lost (Props/C03.lean) state exactly what holds: delivery is "
        "delayed by at most the declared length (65535 bytes at most), nothing is lost, chunking independence is unconditional",
        "the frames delivered are a function of the bytes received SO FAR; a session is judged after the link has gone quiet",
        "public / queue level sessions run the real receive thread under the virtual-time runtime (harness/vsim.py preserves "
        "queue (maxsize included) / lock / event / thread semantics). The property states no time; a session is judged when the "
        "link has handed over all scripted reads and stream_data() has then returned None twice in a row (2 virtual seconds of "
        "silence; consumers 'lazy' / 'none': 1 virtual second after the last read was handed over), or when 60 + 0.02 x reads "
        "virtual seconds have passed with reads still unread (the receive thread no longer reads): a frame not out by then is "
        "reported as lost",
        "queue level without a consumer (`pubq`): the response and the stream queue are expected to take every frame of the scan "
        "without anybody taking frames off (the observable 'frames placed on the client's response/stream queues' of the `reasm "
        "route` cases, for hundreds of frames): a queue that blocks or drops when full is a violation at this level",
        "crcmod validated against the Lean CRC (C01), not verified; the oracle uses its own table-driven CRC-16/XMODEM"]

    def line(self, chunks):
        return "reasm run " + ",".join(hexs(c) for c in chunks)

    def cases(self, rng, tier):
        T = tier == "thorough"
        # exhaustive compositions of short streams
        for _ in range(30 if T else 6):
            s = gen_stream(rng, 2)[:(12 if T else 10)]
            for sizes in g.compositions(len(s)):
                yield self.line(g.chunk(s, sizes) or [b""]), "all-compositions"
        # the split-start-byte family: noise then frames, every single split, with and without an empty read
        for _ in range(60 if T else 12):
            s = gen_stream(rng, 4)
            for k in range(len(s) + 1):
                yield self.line([s[:k], s[k:]]), "single-split"
                if k % 3 == 0:
                    yield self.line([s[:k], b"", s[k:]]), "single-split-empty"
            yield self.line([bytes([b]) for b in s] or [b""]), "bytewise"
            yield self.line([s]), "one-read"
        for _ in range(1500 if T else 300):
            s = gen_stream(rng, 6)
            yield self.line(g.random_chunking(rng, s) or [b""]), "random"
        # routing of the delivered frames to the response / stream queue (with and without a known device)
        for _ in range(300 if T else 60):
            s = b"".join(g.valid_frame(rng, fid=rng.choice([1, 1, 1, 2, 3, 4, 4, 5]), maxlen=5) for _ in range(rng.randrange(1, 7)))
            yield f"reasm route {rng.randrange(2)} " + ",".join(hexs(c) for c in (g.random_chunking(rng, s) or [b""])), "route"
        # leading residues (0..3 header bytes, then the rest later)
        for _ in range(100 if T else 20):
            f1, f2 = g.valid_frame(rng), g.valid_frame(rng)
            pre = bytes(rng.randrange(0, 3))
            for k in range(0, 5):
                yield self.line([pre + f1[:k], b"", f1[k:] + f2]), "residue"
        # long frames
        for total in BIG_SIZES:
            small = total <= 1025
            for rep in range(2 if (T and total < 32767) else 1):
                f = big_frame(rng, total)
                post = g.valid_frame(rng, fid=rng.choice([2, 4, 5]))
                for tag, chunks in big_chunkings(NOISE_BEFORE if rep == 0 else g.noise(rng, 7, sof_rich=True) + b"\xee",
                                                 f, post, small, T or small):
                    yield self.line(chunks), tag
        # two long frames back to back, the second one cut off and followed by a valid frame
        for total in ([300, 1100, 5000] if not T else [300, 1100, 5000, 20000, 40000]):
            f1, f2, f3 = big_frame(rng, total), big_frame(rng, total + 1), g.valid_frame(rng)
            s = f1 + f2[:total // 2] + f3 + f3
            yield self.line(cut(s, 1000)), "big-cutoff"
            yield self.line(cut(s + bytes(total), 1000) + [b""]), "big-cutoff-covered"
        for chunks, tag in delay_cases(rng, T):
            yield self.line(chunks or [b""]), tag

    def impl(self, line):
        t = line.split(" ")
        if t[1] == "route":
            a, b = run_real_routed([unhex(c) for c in t[3].split(",")], t[2] == "1")
            return fstr(a) + " / " + fstr(b)
        chunks = [unhex(c) for c in t[2].split(",")]
        return fstr(run_real(chunks))

    def nontrivial(self, line, out):
        return out != "ok -" and "," in line.split(" ")[-1]

    def oracle(self, line, impl_out=None):
        # the pipeline writes one replay per key and stops collecting after 20 violations: handing it more than a few
        # of one key only starves the other keys (a change that breaks short streams would hide the long-frame input)
        # … and once failing inputs are in hand the rest of the search gets a time budget (20 s after the first hit)
        if self._first_hit is not None and time.time() - self._first_hit > float(os.environ.get("VERIF_C03_SEARCH_S", "20")):
            return None
        v = self._oracle(line)
        if v:
            if self._first_hit is None:
                self._first_hit = time.time()
            k = v.get("key", "")
            self._per_key[k] = self._per_key.get(k, 0) + 1
            if self._per_key[k] > 4:
                return None
        return v

    _per_key: dict = {}
    _first_hit = None
    _pub_stuck = False

    def _oracle(self, line):
        t = line.split(" ")
        if t[0] == "reconnect":
            layout = [tuple(int(x) for x in c.split(":")) for c in t[1].split(",")]
            return reconnect_oracle("replay", unhex(t[2]), layout, [unhex(c) for c in t[3].split(",")])
        if t[0] in PUB_OPS:
            layout = [tuple(int(x) for x in c.split(":")) for c in t[1].split(",")]
            return pub_oracle(layout, [unhex(c) for c in t[2].split(",")], PUB_OPS[t[0]])
        if t[1] == "route":
            chunks = [unhex(c) for c in t[3].split(",")]
            a, b = run_real_routed(chunks, t[2] == "1")
            want = ref_scan(b"".join(chunks))
            wa = [f for f in want if f[0] != 1 and not (t[2] == "0" and f[0] == 4)]
            wb = [f for f in want if f[0] == 1]
            if (a, b) != (wa, wb):
                return {"key": "routing", "what": "frames are not routed in arrival order to the response / stream queue",
                        "expected": fstr(wa) + " / " + fstr(wb), "observed": fstr(a) + " / " + fstr(b)}
            return None
        chunks = [unhex(c) for c in line.split(" ")[2].split(",")]
        stall = []
        got = run_real(chunks, stall=stall)
        want = ref_scan(b"".join(chunks))
        if got != want:
            stream = b"".join(chunks)
            if stall:
                return {"key": "receiver-stalled", "what": "the receive body stopped asking the link for bytes (a call reads "
                        "nothing, consumes nothing, delivers nothing — and so does every later call) although "
                        f"{stall[0]} of the {len(chunks)} scripted reads were still to come; the frames in them are lost",
                        "expected": fstr(want)[:2000], "observed": fstr(got)[:2000], "stream": hexs(stream)[:4000],
                        "chunk_sizes": [len(c) for c in chunks][:40]}
            longest = max([len(d) + 6 for _, d in want] + [0])
            if longest >= 255:
                # long frames get their own key, so that a failing input with a long frame is reported next to one
                # with short frames (one replay per key)
                return {"key": "long-frame", "what": "frames extracted differ from one left-to-right scan of the concatenated "
                        f"bytes on a stream with a valid frame of {longest} bytes (chunk sizes {[len(c) for c in chunks][:12]}…)",
                        "expected": "ids:payload lengths " + ",".join(f"{i}:{len(d)}" for i, d in want),
                        "observed": "ids:payload lengths " + ",".join(f"{i}:{len(d)}" for i, d in got),
                        "stream_len": len(stream)}
            return {"key": "chunking-dependence", "what": "frames extracted differ from one left-to-right scan of the concatenated bytes",
                    "expected": fstr(want), "observed": fstr(got), "stream": hexs(stream)}
        return None

    def search_cases(self, rng):
        f = ref_frame(2, b"")
        f2 = ref_frame(5, b"\x01")
        for pre in (b"", b"\x00", b"\x00\x00", b"\x00\x00\x00", b"\x55", b"\x00\x55"):
            s = pre + f + f2
            for sizes in g.compositions(min(len(s), 11)):
                head = g.chunk(s[:11], sizes)
                yield self.line(head + [s[11:]]), "search"
        # frames of every id with an empty payload, alone and between others
        for fid in range(9):
            e = ref_frame(fid, b"")
            yield self.line([e]), "search"
            yield self.line([f2 + e + f2]), "search"
            yield self.line([f2[:3], f2[3:] + e[:2], b"", e[2:] + f2]), "search"
        # a false start byte 1..5 bytes in front of a frame; a start byte inside a payload with an idle read behind it
        a = ref_frame(4, bytes(4))
        c = ref_frame(2, bytes([3, 11, 0]))
        for k in range(1, 6):
            for fill in (0x00, 0x13, 0x55):
                junk = bytes([0x55] + [fill] * (k - 1))
                yield self.line([junk + a + c]), "search"
                yield self.line([junk, a + c]), "search"
        st = ref_frame(1, bytes([1, 2, 0x55, 3, 4, 5, 6, 7]))
        for k in range(1, len(st)):
            yield self.line([st[:k], b"", st[k:] + a]), "search"
        # a complete frame with the beginning of the next one (or noise, or a damaged frame) in the same read
        bad = bytearray(c)
        bad[-1] ^= 1
        for tail in (a[:1], a[:3], a[:5], a[:-1], b"\x00\xaa", bytes(bad)):
            yield self.line([c + st + tail, a[len(tail):] if a.startswith(tail) else a]), "search"

    def extra_checks(self, rng, tier, ev):
        """public level: stream_data() of a connected CommHandler over a scripted link, judged by the oracle (reference
        scan + reference stream parser) and compared with the model (Reasm.run, Route.queues, Stream.decode)"""
        from common import driver_run, DRIVER
        T = tier == "thorough"
        n = int(os.environ.get("VERIF_C03_PUB", "60" if T else "10"))
        viol = []
        sessions = []
        # F21 (fixed 4392d6e): a second session on the same handler after a disconnect that interrupted a frame
        nrec = 0
        for label, stale, layout, reads in reconnect_scenarios(rng):
            v = reconnect_oracle(label, stale, layout, reads)
            nrec += 1
            if v:
                viol.append(v)
                break
        ev["coverage"]["reconnect_scenarios"] = nrec
        stats = {"sessions": 0, "reads": 0, "bytes": 0, "stream_frames": 0, "longest_frame": 0, "ambiguous_streams": 0}
        for k in range(n):
            layout, frames, stream, reads = pub_case(rng, big=(k % 3 == 0))
            exp = pub_expected(layout, stream)
            if exp is None:
                raise RuntimeError("harness: the reference parser rejects a payload of the reference encoder: "
                                   + pub_line(layout, reads)[:300])
            if [w for _, w in exp] != [w for _, w in frames]:
                # the bytes of a damaged frame happen to contain a decodable header: the reference scan (the property)
                # decides what is delivered, not the generator's intention
                stats["ambiguous_streams"] += 1
            v, got, seen, carry = pub_judge(layout, reads)
            stats["sessions"] += 1
            stats["reads"] += len(reads)
            stats["bytes"] += len(stream)
            stats["stream_frames"] += len(exp)
            stats["longest_frame"] = max([stats["longest_frame"]] + [len(p_) + 6 for p_, _ in frames])
            if carry:
                raise RuntimeError(f"harness: carry-over buffer not empty after the handshake: {carry.hex()}")
            if v:
                viol.append(v)
                self._per_key["public-level"] = self._per_key.get("public-level", 0) + 1
                if v.get("stuck"):
                    self._pub_stuck = True      # every further session would cost the simulator's whole spin budget
                if len(viol) >= 3 or self._pub_stuck:
                    break
                continue
            sessions.append((layout, seen, got))
        ev["coverage"]["public_level"] = stats
        # long runs: control frames nobody asks for between stream frames; hundreds of stream frames before anybody polls
        nl = int(os.environ.get("VERIF_C03_LONG", "24" if T else "8"))
        lstats = {"sessions": 0, "frames": 0, "bytes": 0, "reads": 0, "by_consumer": {}, "shapes": []}
        qsessions = []
        seen_keys = set()
        for k in range(nl if not self._pub_stuck else 0):
            consumer, layout, reads, label = long_case(rng, k)
            stream = b"".join(reads)
            t_k = time.time()
            lstats["sessions"] += 1
            lstats["frames"] += len(ref_scan(stream))
            lstats["bytes"] += len(stream)
            lstats["reads"] += len(reads)
            lstats["by_consumer"][consumer] = lstats["by_consumer"].get(consumer, 0) + 1
            if len(lstats["shapes"]) < 8:
                lstats["shapes"].append(consumer + ":" + label)
            v, got, seen, carry = pub_judge(layout, reads, consumer)
            if carry:
                raise RuntimeError(f"harness: carry-over buffer not empty after the handshake: {carry.hex()}")
            if v:
                if (v["key"], consumer) not in seen_keys:
                    seen_keys.add((v["key"], consumer))
                    if v["key"] == "public-level":
                        if self._per_key.get("public-level"):
                            v["key"] = "public-level-" + consumer     # a second replay, beside the one of the short sessions
                        self._per_key["public-level"] = self._per_key.get("public-level", 0) + 1
                    viol.append(v)
                if v.get("stuck"):
                    self._pub_stuck = True
                    break
                continue
            if consumer == "none":
                qsessions.append((seen, fstr(got[0]) + " / " + fstr(got[1])))
            else:
                sessions.append((layout, seen, got))
            lstats.setdefault("wall_s", []).append(round(time.time() - t_k, 2))
            if len(viol) >= 4:
                break
        ev["coverage"]["public_level_long_runs"] = lstats
        if qsessions and os.path.exists(DRIVER):
            routed = driver_run(["reasm route 1 " + (",".join(hexs(c) for c in seen) or "-") for seen, _ in qsessions])
            for (seen, real), m in zip(qsessions, routed):
                if real != m:
                    raise RuntimeError("queue-level correspondence (receive thread running, no consumer): the queues differ "
                                       f"from the model (Reasm.run + Route): real {real[:200]} model {m[:200]} "
                                       f"case reasm route 1 {(','.join(hexs(c) for c in seen))[:400]}")
            lstats["model_compared_queues"] = len(qsessions)
        # model side: the reads the client saw -> Reasm.run -> Route.queues (device known) -> Stream.decode per frame
        if sessions and os.path.exists(DRIVER):
            routed = driver_run(["reasm route 1 " + (",".join(hexs(c) for c in seen) or "-") for _, seen, _ in sessions])
            dec_lines, owner = [], []
            for i, ((layout, _, _), r) in enumerate(zip(sessions, routed)):
                q = r.split(" / ")[1] if " / " in r else "?"
                for item in ([] if q in ("ok -", "?") else q[3:].split(",")):
                    fid, _, hx = item.partition(":")
                    if hx != "-":
                        dec_lines.append(f"stream dec {layout_str(layout)} - {hx}")
                        owner.append(i)
            dec = driver_run(dec_lines)
            model = [[] for _ in sessions]
            for i, o in zip(owner, dec):
                model[i].append(o)
            for (layout, seen, got), m in zip(sessions, model):
                if m != got:
                    k = next((i for i, (a, b) in enumerate(zip(got, m)) if a != b), min(len(got), len(m)))
                    raise RuntimeError("public-level correspondence: stream_data() results differ from the model "
                                       f"(Reasm.run + Route + Stream.decode) at result #{k}: real "
                                       f"{(got[k] if k < len(got) else 'none')[:200]} model {(m[k] if k < len(m) else 'none')[:200]}"
                                       f" case {pub_line(layout, seen)[:400]}")
            stats["model_compared"] = len(sessions)
        return viol

    def deep_search(self, rng):
        out = []
        if self._per_key.get("public-level") or self._pub_stuck:
            return out          # a public-level failing input has been reported already
        for k in range(40):
            layout, frames, stream, reads = pub_case(rng, big=(k % 2 == 0))
            v = pub_oracle(layout, reads)
            if v:
                out.append(v)
                if len(out) >= 2 or v.get("stuck"):
                    break
        return out


PROP = C03()
