"""C01 — emitted frames are the NxScope serial wire format and round-trip."""
from common import Prop, hexs, unhex, exc_name
from ref import ref_frame, ref_crc16_xmodem


def _sf():
    from nxslib.proto.serialframe import SerialFrame
    return SerialFrame()


class C01(Prop):
    id = "C01"
    lean_module = "NxsModel.Props.C01"
    rule = ("frame create/decode over ids 0..8 (plus 9..256) x payload lengths 0..300, boundary lengths "
            "65527..65531, random lengths; crc over random strings; distinct = distinct (op,input,output); "
            "non-trivial = payload non-empty or error outcome")
    assumptions = ["crcmod (third party) is validated against the Lean CRC by the `frame crc` cases, not verified",
                   "CPython struct is modelled by Struct.lean (cross-checked by the same cases)"]

    def __init__(self):
        self.sf = _sf()

    def cases(self, rng, tier):
        lens = list(range(0, 301)) if tier == "thorough" else list(range(0, 40)) + [63, 64, 127, 128, 250, 255, 256, 257, 300]
        for fid in range(9):
            for n in lens:
                p = bytes(rng.randrange(256) for _ in range(n))
                yield f"frame create {fid} {hexs(p)}", "create-small"
                yield f"frame decode {hexs(ref_frame(fid, p))}", "decode-wire"
        for fid in (0, 1, 5, 8):
            yield f"frame create {fid} none", "create-none"
        for fid in (9, 17, 85, 128, 255, 256, 300):
            yield f"frame create {fid} {hexs(bytes([fid & 0xff, 1, 2]))}", "create-bigid"
        for n in (65527, 65528, 65529, 65530, 65531, 70000):
            p = bytes(rng.randrange(256) for _ in range(n))
            yield f"frame create {rng.randrange(9)} {hexs(p)}", "create-boundary"
            if n <= 65529:
                yield f"frame decode {hexs(ref_frame(3, p))}", "decode-boundary"
        for _ in range(200 if tier == "thorough" else 40):
            n = rng.choice([rng.randrange(0, 2000), rng.randrange(0, 66000)])
            p = bytes(rng.randrange(256) for _ in range(n))
            yield f"frame create {rng.randrange(9)} {hexs(p)}", "create-random"
        for _ in range(300 if tier == "thorough" else 60):
            n = rng.randrange(0, 64)
            yield f"frame crc {hexs(bytes(rng.randrange(256) for _ in range(n)))}", "crc"

    def impl(self, line):
        t = line.split(" ")
        if t[1] == "create":
            fid = int(t[2])
            data = None if t[3] == "none" else unhex(t[3])
            try:
                return "ok " + hexs(self.sf.frame_create(fid, data))
            except Exception as e:
                return "err " + exc_name(e)
        if t[1] == "decode":
            r = self.sf.frame_decode(unhex(t[2]))
            if r.err != 0:
                return "err " + r.err.name
            return f"ok {int(r.fid)} {hexs(r.data)}"
        if t[1] == "crc":
            return f"ok {self.sf._crc16_func(unhex(t[2]))}"
        raise ValueError(line)

    def nontrivial(self, line, out):
        return not line.endswith(" -")

    def oracle(self, line, impl_out=None):
        t = line.split(" ")
        sf = _sf()
        if t[1] == "create":
            fid = int(t[2])
            data = None if t[3] == "none" else unhex(t[3])
            p = data or b""
            try:
                got = sf.frame_create(fid, data)
            except Exception as e:
                got = e
            if len(p) > 65529:
                if not isinstance(got, Exception):
                    return {"key": "emitted-oversize", "what": f"payload of {len(p)} bytes was not refused",
                            "expected": "an exception", "observed": hexs(got[:8]) + "..."}
                return None
            if fid > 255:
                return None
            exp = ref_frame(fid, p)
            if isinstance(got, Exception) or got != exp:
                return {"key": "wire-format", "what": f"frame_create({fid}, {len(p)} bytes) is not the NxScope serial encoding",
                        "expected": hexs(exp), "observed": repr(got) if isinstance(got, Exception) else hexs(got)}
            if fid <= 8:
                r = sf.frame_decode(got)
                if r.err != 0 or int(r.fid) != fid or r.data != p:
                    return {"key": "round-trip", "what": "decode(create(id, payload)) != (id, payload)",
                            "expected": f"{fid} {hexs(p)}", "observed": f"err={r.err} fid={r.fid} data={hexs(r.data)}"}
            return None
        if t[1] == "decode":
            d = unhex(t[2])
            # only wire frames are generated here: must decode to their id and payload
            if len(d) >= 6 and d[0] == 0x55 and d[3] <= 8 and int.from_bytes(d[1:3], "little") == len(d) \
               and ref_crc16_xmodem(d) == 0:
                r = sf.frame_decode(d)
                if r.err != 0 or int(r.fid) != d[3] or r.data != d[4:-2]:
                    return {"key": "decode-wire", "what": "a valid wire frame does not decode to its id and payload",
                            "expected": f"{d[3]} {hexs(d[4:-2])}", "observed": f"err={r.err} fid={r.fid} data={hexs(r.data)}"}
            return None
        return None

    def search_cases(self, rng):
        for fid in range(9):
            for n in list(range(0, 20)) + [255, 256, 65529, 65530]:
                yield f"frame create {fid} {hexs(bytes(rng.randrange(256) for _ in range(n)))}", "search"


PROP = C01()
