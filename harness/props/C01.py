"""C01 — emitted frames are the NxScope serial wire format and round-trip."""
import binascii
import contextlib
import logging

from common import Prop, hexs, unhex, exc_name
from ref import ref_frame, ref_crc16_xmodem

# two independent CRC-16/XMODEM implementations (neither is nxslib's crcmod): the bitwise one written from the
# protocol description (ref.py) and CPython's binascii.crc_hqx (poly 0x1021, MSB first) — they must agree
assert binascii.crc_hqx(b"123456789", 0) == 0x31C3 == ref_crc16_xmodem(b"123456789")
_probe = bytes((i * 73 + 11) & 0xFF for i in range(5000))
assert binascii.crc_hqx(_probe, 0) == ref_crc16_xmodem(_probe)


def _sf():
    from nxslib.proto.serialframe import SerialFrame
    return SerialFrame()


@contextlib.contextmanager
def debug_logging(on=True):
    """the application-side dimension of every library call: the "nxslib" logger at DEBUG (what an application that
    wants the library's diagnostics does) instead of the default (no level set, the check pipeline silences logging
    altogether).  Records go to a NullHandler, nothing is printed.  `on=False`: the pipeline's default, unchanged."""
    if not on:
        yield
        return
    lg = logging.getLogger("nxslib")
    old = (lg.level, lg.propagate, logging.root.manager.disable)
    h = logging.NullHandler()
    lg.addHandler(h)
    lg.propagate = False
    lg.setLevel(logging.DEBUG)
    logging.disable(logging.NOTSET)
    try:
        assert lg.isEnabledFor(logging.DEBUG)
        yield
    finally:
        lg.removeHandler(h)
        lg.setLevel(old[0])
        lg.propagate = old[1]
        logging.disable(old[2])


LOGGING_MODES = (("default logging", False), ('logging.getLogger("nxslib").setLevel(logging.DEBUG)', True))


def rb(rng, n):
    return rng.randbytes(n)


def wire(fid, p):
    """the NxScope serial encoding, written from the protocol description (ref_frame), with the C CRC for long payloads"""
    if len(p) <= 600:
        return ref_frame(fid, p)
    n = len(p) + 6
    pre = bytes([0x55, n & 0xFF, n >> 8, fid & 0xFF]) + p
    return pre + binascii.crc_hqx(pre, 0).to_bytes(2, "big")


# payload lengths around the byte boundaries of the 16-bit length field (total = payload + 6)
LEN16 = [249, 250, 251, 255, 256, 257, 32761, 32762, 32763, 32767, 32768, 32769]
# payload lengths whose total length has a byte equal to the start byte: 0x0055, 0x0155, 0x0255, 0x5500, 0x5555, 0x5655
LEN55 = [79, 335, 591, 21754, 21839, 22095]


class C01(Prop):
    id = "C01"
    lean_module = "NxsModel.Props.C01"
    rule = ("frame create/decode over ids 0..8 (plus 9..300, correspondence only: the oracle judges ids 0..8, the "
            "property's quantifier) x payload lengths 0..300, lengths around the byte "
            "boundaries of the length field (249..257, 32761..32769), boundary lengths 65527..65531, random lengths "
            "(every create with its decode twin); total lengths with a byte equal to the start byte (0x55, 0x155, 0x255, "
            "0x5500, 0x5555, 0x5655) and payloads that start with / consist of 0x55; None vs empty payload on ids 0..8, "
            "9, 127, 255, 256, 300; runs of "
            "creates on ONE long-lived SerialFrame whose payloads share id, length and the first 8..64 bytes and "
            "differ later; crc over random strings; LOGGING DIMENSION: every create / decode case is executed twice by "
            "the correspondence and by the oracle, under default logging and with the 'nxslib' logger at DEBUG (both "
            "must give the model's answer), every second long-lived-encoder sequence runs at DEBUG; "
            "distinct = distinct (op,input,output); non-trivial = payload non-empty or error outcome")
    assumptions = ["crcmod (third party) is validated against the Lean CRC by the `frame crc` cases, not verified",
                   "CPython struct is modelled by Struct.lean (cross-checked by the same cases)"]

    def __init__(self):
        # ONE SerialFrame for all the cases of a run: the driver is stateless, so whatever a SerialFrame remembers
        # between calls shows as a disagreement with the model
        self.sf = _sf()

    def cases(self, rng, tier):
        T = tier == "thorough"
        lens = list(range(0, 301)) if T else list(range(0, 40)) + [63, 64, 127, 128, 250, 255, 256, 257, 300]
        for fid in range(9):
            for n in lens:
                p = rb(rng, n)
                yield f"frame create {fid} {hexs(p)}", "create-small"
                yield f"frame decode {hexs(ref_frame(fid, p))}", "decode-wire"
        # None and the empty payload are the same frame, on every id (and refused alike above 255)
        for fid in list(range(9)) + [9, 127, 255, 256, 300]:
            yield f"frame create {fid} none", "create-none"
            yield f"frame create {fid} -", "create-empty"
            yield f"frame create {fid} none", "create-none"
        for fid in (9, 17, 85, 128, 255, 256, 300):
            yield f"frame create {fid} {hexs(bytes([fid & 0xff, 1, 2]))}", "create-bigid"
        # the two bytes of the length field: totals 255..263 and 32767..32775
        for i, n in enumerate(LEN16):
            # thorough: every id; quick: three ids on the low byte boundary, one (rotating) id on the high one
            for fid in (range(9) if T else ((0, 3, 8) if n < 1000 else ((i * 5 + rng.randrange(9)) % 9,))):
                p = rb(rng, n)
                yield f"frame create {fid} {hexs(p)}", "create-len16"
                yield f"frame decode {hexs(wire(fid, p))}", "decode-len16"
        # the start byte inside the frame: as the low / high byte of the length field, as first payload byte, everywhere
        for i, n in enumerate(LEN55):
            for fid in (range(9) if T else ((1, 7) if n < 1000 else ((i * 2 + rng.randrange(9)) % 9,))):
                for p in ((rb(rng, n), b"\x55" + rb(rng, n - 1)) if n < 1000 else (rb(rng, n),)):
                    yield f"frame create {fid} {hexs(p)}", "create-len55"
                    yield f"frame decode {hexs(wire(fid, p))}", "decode-len55"
        for fid in range(9):
            for p in (b"\x55", b"\x55\x55", b"\x55" * 7, b"\x55" + rb(rng, 5), bytes([0x55, 6, 0, 2, 0x5b, 0x9c]), b"\x55" * 79):
                yield f"frame create {fid} {hexs(p)}", "create-sof-payload"
                yield f"frame decode {hexs(wire(fid, p))}", "decode-sof-payload"
        for n in (65527, 65528, 65529, 65530, 65531, 70000):
            p = rb(rng, n)
            yield f"frame create {rng.randrange(9)} {hexs(p)}", "create-boundary"
            if n <= 65529:
                yield f"frame decode {hexs(wire(3, p))}", "decode-boundary"
        for _ in range(200 if T else 40):
            n = rng.choice([rng.randrange(0, 2000), rng.randrange(0, 66000)])
            p = rb(rng, n)
            fid = rng.randrange(9)
            yield f"frame create {fid} {hexs(p)}", "create-random"
            if n <= 65529 and (T or n < 2000 or rng.random() < 0.25):
                yield f"frame decode {hexs(wire(fid, p))}", "decode-random"
        # same id, same length, same leading bytes, different later: frame_create must look at all of the payload
        for fid, n, k in self.shared_prefix_plan(rng, T):
            for p in self.shared_prefix_run(rng, n, k):
                yield f"frame create {fid} {hexs(p)}", "create-shared-prefix"
                yield f"frame decode {hexs(wire(fid, p))}", "decode-shared-prefix"
        # a frame that fails its check (payload bit, footer bit, cut short, wrong start byte) decoded by the same
        # long-lived SerialFrame, then a create: what a rejected frame leaves behind must not reach the next frame built
        for _ in range(120 if T else 24):
            fid, n = rng.randrange(9), rng.choice([0, 1, 2, 7, 30, 200])
            w = bytearray(wire(fid, rb(rng, n)))
            how = rng.randrange(4)
            if how == 0:
                w[rng.randrange(4, len(w))] ^= 1 << rng.randrange(8)
            elif how == 1:
                w[-1 - rng.randrange(2)] ^= 1 << rng.randrange(8)
            elif how == 2:
                w = w[:rng.randrange(1, len(w))]
            else:
                w[0] ^= 0xFF
            yield f"frame decode {hexs(bytes(w))}", "decode-rejected"
            p = rb(rng, rng.randrange(0, 12))
            fid2 = rng.randrange(9)
            yield f"frame create {fid2} {hexs(p)}", "create-after-rejected"
            yield f"frame decode {hexs(wire(fid2, p))}", "decode-after-rejected"
        for _ in range(300 if T else 60):
            n = rng.randrange(0, 64)
            yield f"frame crc {hexs(rb(rng, n))}", "crc"

    @staticmethod
    def shared_prefix_plan(rng, T):
        plan = [(6, 9, 8), (7, 10, 8), (6, 16, 8), (7, 257, 8), (0, 40, 16), (1, 300, 64), (4, 2000, 8), (3, 9, 8)]
        if T:
            plan += [(fid, n, k) for fid in range(9) for n, k in ((9, 8), (12, 8), (33, 32), (600, 8))]
            plan += [(rng.randrange(9), rng.randrange(9, 3000), rng.choice([8, 8, 16, 32])) for _ in range(20)]
        return plan

    @staticmethod
    def shared_prefix_run(rng, n, k):
        """payloads of n bytes that share their first k bytes (k < n): random tails, a tail differing in the last byte only,
        a tail differing in byte k only, and the first payload once more at the end"""
        k = max(1, min(k, n - 1))
        head = rb(rng, k)
        first = head + rb(rng, n - k)
        out = [first]
        out.append(first[:-1] + bytes([first[-1] ^ 0x01]))
        out.append(first[:k] + bytes([first[k] ^ 0x80]) + first[k + 1:])
        out.append(head + rb(rng, n - k))
        out.append(first)
        return out

    def impl(self, line):
        """the canonical answer under default logging; the same call is repeated with the 'nxslib' logger at DEBUG and a
        different answer there is reported in place of the canonical one (the model knows no logging level)"""
        a = self.impl1(line)
        if line.split(" ")[1] == "crc":
            return a
        with debug_logging():
            b = self.impl1(line)
        if a != b:
            return f"logging-dependent: default[{a[:120]}] nxslib-logger-at-DEBUG[{b[:120]}]"
        return a

    def impl1(self, line):
        t = line.split(" ")
        if t[1] == "create":
            fid = int(t[2])
            data = None if t[3] == "none" else unhex(t[3])
            try:
                return "ok " + hexs(self.sf.frame_create(fid, data))
            except Exception as e:
                return "err " + exc_name(e)
        if t[1] == "decode":
            r = self.sf.frame_decode(unhex(t[2]))
            if r.err != 0:
                return "err " + r.err.name
            return f"ok {int(r.fid)} {hexs(r.data)}"
        if t[1] == "crc":
            return f"ok {self.sf._crc16_func(unhex(t[2]))}"
        raise ValueError(line)

    def nontrivial(self, line, out):
        return not line.endswith(" -")

    def oracle(self, line, impl_out=None):
        """ids 0..8 only (the quantifier of the property); judged under default logging and with the 'nxslib' logger at DEBUG"""
        for name, on in LOGGING_MODES:
            with debug_logging(on):
                v = self.oracle1(line)
            if v:
                v["logging"] = name
                if on:
                    v["what"] += f" [with {name}; the same call is right under default logging]"
                return v
        return None

    def oracle1(self, line):
        t = line.split(" ")
        sf = _sf()
        if t[1] == "create":
            fid = int(t[2])
            data = None if t[3] == "none" else unhex(t[3])
            p = data or b""
            try:
                got = sf.frame_create(fid, data)
            except Exception as e:
                got = e
            if len(p) > 65529:
                if fid > 8:
                    return None
                if not isinstance(got, Exception):
                    return {"key": "emitted-oversize", "what": f"payload of {len(p)} bytes was not refused",
                            "expected": "an exception", "observed": hexs(got[:8]) + "..."}
                return None
            if fid > 8:
                return None          # the property quantifies over ids 0..8; what larger ids do is the correspondence's business
            exp = wire(fid, p)
            if isinstance(got, Exception) or got != exp:
                return {"key": "wire-format", "what": f"frame_create({fid}, {len(p)} bytes) is not the NxScope serial encoding",
                        "expected": hexs(exp), "observed": repr(got) if isinstance(got, Exception) else hexs(got)}
            r = sf.frame_decode(got)
            if r.err != 0 or int(r.fid) != fid or r.data != p:
                return {"key": "round-trip", "what": "decode(create(id, payload)) != (id, payload)",
                        "expected": f"{fid} {hexs(p)}", "observed": f"err={r.err} fid={r.fid} data={hexs(r.data)}"}
            return None
        if t[1] == "decode":
            d = unhex(t[2])
            # only wire frames are generated here: must decode to their id and payload
            if len(d) >= 6 and d[0] == 0x55 and d[3] <= 8 and int.from_bytes(d[1:3], "little") == len(d) \
               and binascii.crc_hqx(d, 0) == 0 and (len(d) > 600 or ref_crc16_xmodem(d) == 0):
                r = sf.frame_decode(d)
                if r.err != 0 or int(r.fid) != d[3] or r.data != d[4:-2]:
                    return {"key": "decode-wire", "what": "a valid wire frame does not decode to its id and payload",
                            "expected": f"{d[3]} {hexs(d[4:-2])}", "observed": f"err={r.err} fid={r.fid} data={hexs(r.data)}"}
            return None
        return None

    # -- history: one long-lived SerialFrame / Parser, judged by the independent encoder --------------------------------
    @staticmethod
    def _run_sequence(ops, debug=False):
        """execute [(kind, ...)] on ONE SerialFrame and ONE Parser; return the first violation or None.
        ops: ("create", fid, payload-hex|"none") | ("div", [divs]) | ("enable", [0/1...]); debug: 'nxslib' logger at DEBUG"""
        with debug_logging(debug):
            v = C01._run_sequence1(ops)
        if v and debug:
            v["logging"] = LOGGING_MODES[1][0]
            v["what"] += f" [with {LOGGING_MODES[1][0]}]"
        return v

    @staticmethod
    def _run_sequence1(ops):
        from nxslib.proto.parse import Parser
        sf = _sf()
        ps = Parser()
        for i, op in enumerate(ops):
            if op[0] == "reject":
                # a frame that does not pass its check goes through the decoder; nothing is judged here but the calls after it
                try:
                    sf.frame_decode(unhex(op[1]))
                except Exception:  # noqa: BLE001
                    pass
                continue
            if op[0] == "create":
                fid = op[1]
                data = None if op[2] == "none" else unhex(op[2])
                p = data or b""
                call = f"SerialFrame.frame_create({fid}, {len(p)} bytes: {op[2][:40]}{'...' if len(op[2]) > 40 else ''})"
                try:
                    got = sf.frame_create(fid, data)
                except Exception as e:
                    got = e
            elif op[0] == "div":
                fid, p = 7, bytes([1, 0]) + bytes(op[1])
                call = f"Parser.frame_div({op[1]}, {len(op[1])})"
                try:
                    got = ps.frame_div(list(op[1]), len(op[1]))
                except Exception as e:
                    got = e
            else:
                fid, p = 6, bytes([1, 0]) + bytes(op[1])
                call = f"Parser.frame_enable({[bool(x) for x in op[1]]}, {len(op[1])})"
                try:
                    got = ps.frame_enable([bool(x) for x in op[1]], len(op[1]))
                except Exception as e:
                    got = e
            exp = wire(fid, p)
            if isinstance(got, Exception) or got != exp:
                return {"key": "encoder-call" if i == 0 else "history-dependent-create", "step": i,
                        "what": f"call #{i} on a long-lived encoder, {call}, did not emit the wire encoding of its own "
                                "arguments (the same call on a fresh encoder is judged by the per-line cases)",
                        "expected": hexs(exp), "observed": repr(got) if isinstance(got, Exception) else hexs(got)}
            r = sf.frame_decode(got)
            if r.err != 0 or int(r.fid) != fid or r.data != p:
                return {"key": "encoder-call-round-trip" if i == 0 else "history-dependent-create", "step": i,
                        "what": f"call #{i}: decode(create(id, payload)) != (id, payload) on the long-lived instance",
                        "expected": f"{fid} {hexs(p)}", "observed": f"err={r.err} fid={r.fid} data={hexs(r.data)}"}
        return None

    def extra_checks(self, rng, tier, ev):
        """frame_create must be a function of its arguments: ONE SerialFrame (and ONE client Parser) creates many frames
        whose payloads share id, length and leading bytes but differ later, interleaved with repeats and with decodes"""
        T = tier == "thorough"
        viol = []
        n_ops = 0
        for it in range(60 if T else 12):
            dbg = bool(it % 2)
            ops = []
            for _ in range(rng.randrange(2, 5)):
                fid = rng.randrange(9)
                n = rng.choice([9, 10, 12, 16, 17, 33, 100, 257, 1000])
                k = rng.choice([8, 8, 8, 9, 16, 32])
                k = min(k, n - 1)
                for p in self.shared_prefix_run(rng, n, k):
                    ops.append(("create", fid, hexs(p)))
                ops.append(("create", fid, "none"))
                ops.append(("create", fid, "-"))
            # bulk divider / enable requests of the client: same channel count, same first channels, different later ones
            for chmax in (rng.randrange(8, 40), rng.choice([64, 128, 255])):
                head = [rng.randrange(1, 256) for _ in range(6)]
                for _ in range(3):
                    ops.append(("div", head + [rng.randrange(0, 256) for _ in range(chmax - 6)]))
                ehead = [1, 0, 1, 1, 0, 1]
                for _ in range(3):
                    tail = [rng.randrange(2) for _ in range(chmax - 6)]
                    if len(set(ehead + tail)) > 1:
                        ops.append(("enable", ehead + tail))
            if rng.random() < 0.3:
                rng.shuffle(ops)
            # rejected frames (flipped payload / footer bit, cut short) between the calls
            for _ in range(rng.randrange(0, 4)):
                w = bytearray(wire(rng.randrange(9), rb(rng, rng.randrange(0, 40))))
                if rng.random() < 0.7:
                    w[rng.randrange(4, len(w))] ^= 1 << rng.randrange(8)
                else:
                    w = w[:rng.randrange(1, len(w))]
                ops.insert(rng.randrange(0, len(ops)), ("reject", hexs(bytes(w))))
            n_ops += len(ops)
            v = self._run_sequence(ops, dbg)
            if v:
                seq = ops[:v["step"] + 1]
                v1 = self._run_sequence([seq[-1]], dbg)
                if v1:
                    # not a matter of history: the call is wrong on a fresh encoder too
                    v, seq = v1, [seq[-1]]
                    v["what"] = v["what"].replace("on a long-lived encoder", "on a fresh encoder").replace(
                        " (the same call on a fresh encoder is judged by the per-line cases)", "")
                else:
                    # minimise: one earlier call + the failing call is usually enough
                    for j in range(len(seq) - 1):
                        v2 = self._run_sequence([seq[j], seq[-1]], dbg)
                        if v2:
                            v, seq = v2, [seq[j], seq[-1]]
                            break
                v["sequence"] = [list(o) for o in seq]
                v["debug_logging"] = dbg
                v["case"] = f"sequence of {len(seq)} calls on one SerialFrame / Parser (see `sequence`)"
                viol.append(v)
                break
        ev["coverage"]["long_lived_encoder_calls"] = n_ops
        return viol

    def replay(self, obj):
        if "sequence" in obj:
            return self._run_sequence([tuple(o) for o in obj["sequence"]], bool(obj.get("debug_logging")))
        return self.oracle(obj["case"])

    def search_cases(self, rng):
        for fid in range(9):
            for n in list(range(0, 20)) + [33, 79, 100, 255, 256, 335, 65529, 65530]:
                yield f"frame create {fid} {hexs(rb(rng, n))}", "search"


PROP = C01()
