"""C13 — a worker runs until stopped, never after stop returns, and can be restarted.

Correspondence: the REAL `nxslib.thread.ThreadCommon` is executed on real threads under the
deterministic scheduler `harness/sched.py` (switch points: every source line of thread.py, every
thread exit, a voluntary yield inside the target callback and between the controller's calls),
for start / stop / is_alive histories x schedules:
  * every schedule with <= k pre-emptions (k = 2 quick, 3 thorough; history length <= 4),
  * seeded random walks over longer histories.
Each executed trace (who took the next visible step and what was seen) is one driver line
`worker run <cfg> <history> <schedule> <tokens…>`; the Lean driver answers whether it is a run
of the model (the translated programs under the interleaving semantics of Worker.lean) and
the model's verdict on the safety predicates along it; `impl` answers the same line from the
observation of the real objects + the property oracle below.

Oracle: the property itself on the observed event order of the real code, written without
reference to the model: init once before the first target of a run, final once after the last
and before the thread ends, every target preceded by the worker's own clear poll of the stop
flag, no target after stop() returned until the next start() call, start on running / stop on
stopped perform no operation, a (re)start creates and starts a fresh thread that does not leave
its loop before stop is requested, thread_is_alive() tells the truth, no deadlock, no
exception, no spinning, a clear poll is followed by a target call, never two live workers.

Callback flavours (REVIEW round 3, C13-r3m1).  The history field of a case may carry `@<flavour>`
(`SPS@bound`; the Lean driver only carries the field along): how the ThreadCommon object is built —
  (none)   closures of the harness (the object and its callbacks stay referenced)
  bound    bound methods of a temporary object that nobody else references (`job` dropped, gc.collect())
  lambda   temporary lambdas          partial  temporary functools.partial objects
  func     plain module-level functions          callobj  temporary objects with `__call__`
  same     closures, but the worker thread is given the NAME of the controlling thread (C13-r3m2)
Every flavour must behave exactly like the plain one: same traces, same verdicts.

Virtual-time scenarios (`worker vscen …`, harness/vsim.py; judged by the same oracle `check_property` plus
clock-aware tests, run in both tiers from `extra_checks`): a callback that stays inside ONE call for a long
(virtual) time — 10 s … 1 h, longer than any plausible join timeout — while stop() is called: stop must not
return before that call has ended, final has run and the thread is gone; an immediate start() must not give
two live workers; is_alive must tell the truth; also with a controlling thread that has the worker's name.
"""
from __future__ import annotations

import functools
import gc
import multiprocessing
import os
import random
import re

import common
from common import Prop
import sched as S

TOK = {"new": "n", "start": "s", "join": "j", "set": "e", "clear": "c", "exit": "x",
       "init": "i", "target": "t", "final": "f"}
SETTLE = 2          # time slices offered to the workers after the last call
MAX_STEPS = 4000


def _nt():
    import nxslib.thread as nt
    return nt


def tokens(events):
    """observed events -> driver tokens (see lean/NxsModel/Driver/Worker.lean)"""
    out = []
    for tid, name, data in events:
        if name in TOK:
            out.append(f"{tid}{TOK[name]}")
        elif name == "isset":
            out.append(f"{tid}q{data[1]}")
        elif name == "alive":
            out.append(f"{tid}a{data[1]}")
        elif name == "call":
            out.append(f"{tid}{data[0]}")
        elif name == "ret":
            op, handle, val = data
            if op == "A":
                out.append(f"{tid}R{int(handle)}" + ("n" if val is None else str(int(bool(val)))))
            else:
                out.append(f"{tid}R{int(handle)}")
        elif name == "exc":
            out.append(f"{tid}E")
        elif name == "deadlock":
            out.append("0D")
        # 'end' and anything else: not part of the trace
    return out


class Guided:
    """policy: make the real code follow a model path (list of tokens) as far as it can"""

    def __init__(self, want):
        self.want = list(want)

    def choose(self, sched, kind, cur, options, default):
        have = tokens(sched.result.events)
        n = len(have)
        if n < len(self.want) and have == self.want[:n]:
            tid = tok_tid(self.want[n])[0]
            if tid in options:
                return tid
        return default


# ----------------------------------------------------------------------------------------
# how the worker object is built (callback flavours)
# ----------------------------------------------------------------------------------------
FLAVOURS = ("bound", "lambda", "partial", "func", "callobj", "same", "ret")
FLAVOUR_DOC = {
    "": "closures kept alive by the harness",
    "bound": "bound methods of a temporary object that nothing else references (owner dropped, gc.collect())",
    "lambda": "temporary lambdas", "partial": "temporary functools.partial objects",
    "func": "plain module-level functions", "callobj": "temporary objects with __call__",
    "same": "closures; the worker thread has the same name as the controlling thread",
    "ret": "closures that RETURN truthy values (a count, True, a string): what a callback returns must not matter",
}
_G = {}     # recorder of the case in progress (for the plain module-level callbacks)


def split_hist(hist):
    """'SPS@bound' -> ('SPS', 'bound');  'SPS' -> ('SPS', '')"""
    ops, _, flav = hist.partition("@")
    return ops, flav


class SchedRec:
    """what a callback reports to, under sched.py: the call is an event; a target call also offers the
    processor to the other threads (voluntary yield)"""

    def __init__(self, sched):
        self.sched = sched

    def event(self, name, *data):
        self.sched.event(name, *data)

    def inside(self, name):
        if name == "target":
            self.sched.point("yield")


def _emit(rec, name):
    """body of every callback, whatever its flavour"""
    rec.event(name)
    rec.inside(name)


def _fn_target():
    _emit(_G["rec"], "target")


def _fn_init():
    _emit(_G["rec"], "init")


def _fn_final():
    _emit(_G["rec"], "final")


class _Job:
    """owner of bound-method callbacks"""

    def __init__(self, rec):
        self.rec = rec

    def step(self):
        _emit(self.rec, "target")

    def init(self):
        _emit(self.rec, "init")

    def final(self):
        _emit(self.rec, "final")


class _Call:
    """a callable object"""

    def __init__(self, rec, name):
        self.rec = rec
        self.name = name

    def __call__(self):
        _emit(self.rec, self.name)


def build_worker(nt, rec, cfg, flav, name="w"):
    """a fresh real ThreadCommon with the callbacks `cfg` (two 0/1 chars: init given, final given) that report
    to `rec`, built the way `flav` says.  Returns (object, keep-alive): for every flavour but the plain one the
    ThreadCommon object is the ONLY thing that refers to the callbacks or their owner."""
    wi, wf = cfg[0] == "1", cfg[1] == "1"
    if flav in ("", "same"):
        def target():
            _emit(rec, "target")

        def init():
            _emit(rec, "init")

        def final():
            _emit(rec, "final")

        tc = nt.ThreadCommon(target, init=init if wi else None, final=final if wf else None, name=name)
        return tc, (target, init, final)
    if flav == "ret":
        n = [0]

        def target_r():
            _emit(rec, "target")
            n[0] += 1
            return (n[0], True, "more", [n[0]])[n[0] % 4]

        def init_r():
            _emit(rec, "init")
            return "ready"

        def final_r():
            _emit(rec, "final")
            return True

        tc = nt.ThreadCommon(target_r, init=init_r if wi else None, final=final_r if wf else None, name=name)
        return tc, (target_r, init_r, final_r)
    if flav == "bound":
        job = _Job(rec)
        tc = nt.ThreadCommon(job.step, init=job.init if wi else None, final=job.final if wf else None, name=name)
        del job
    elif flav == "lambda":
        tc = nt.ThreadCommon(lambda: _emit(rec, "target"), init=(lambda: _emit(rec, "init")) if wi else None,
                             final=(lambda: _emit(rec, "final")) if wf else None, name=name)
    elif flav == "partial":
        tc = nt.ThreadCommon(functools.partial(_emit, rec, "target"),
                             init=functools.partial(_emit, rec, "init") if wi else None,
                             final=functools.partial(_emit, rec, "final") if wf else None, name=name)
    elif flav == "func":
        _G["rec"] = rec
        tc = nt.ThreadCommon(_fn_target, init=_fn_init if wi else None, final=_fn_final if wf else None, name=name)
    elif flav == "callobj":
        tc = nt.ThreadCommon(_Call(rec, "target"), init=_Call(rec, "init") if wi else None,
                             final=_Call(rec, "final") if wf else None, name=name)
    else:
        raise ValueError(f"unknown callback flavour {flav!r}")
    gc.collect()
    return tc, None


def run_case(cfg, hist, policy):
    """execute history `hist` (string over S P A, optionally `@flavour`) on a fresh real ThreadCommon built
    with the callbacks `cfg` (two 0/1 chars: init given, final given) under `policy`.
    Returns (result, summary) — summary = observed end state, or None if the run was aborted."""
    nt = _nt()
    ops, flav = split_hist(hist)
    s = S.Scheduler(policy, trace_files=[nt.__file__], prim_points=False, max_steps=MAX_STEPS)
    box = {}

    def main():
        # flavour `same`: the worker thread carries the name of the thread that controls it
        name = s.threading.current_thread().name if flav == "same" else "w"
        tc, keep = build_worker(nt, SchedRec(s), cfg, flav, name)
        box["tc"] = tc
        box["keep"] = keep
        started = False
        for k, op in enumerate(ops):
            if k:
                s.point("yield")     # time passes between two calls of the application
            s.event("call", op)
            meth = {"S": tc.thread_start, "P": tc.thread_stop, "A": tc.thread_is_alive}[op]
            try:
                r = meth()
            except S.SchedAbort:
                raise
            except Exception as e:  # noqa: BLE001 — an exception escaping the call is an observation
                s.event("exc", type(e).__name__)
                continue
            s.event("ret", op, tc._thrd is not None, r)
            if op in "SP":
                started = op == "S"
        for _ in range(SETTLE):
            s.point("yield")
        s.event("end")
        box["summary"] = (int(tc._stop_flag._flag), int(tc._thrd is not None),
                          sum(1 for t in s.threads[1:] if t.started and not t.finished), int(started))
        s.quiesce()
        tc._stop_flag._flag = True   # clean-up, outside the case

    old = nt.threading
    nt.threading = s.threading
    try:
        res = s.run(main)
    finally:
        nt.threading = old
    return res, box.get("summary")


# ----------------------------------------------------------------------------------------
# the property, on the observed events of the real code
# ----------------------------------------------------------------------------------------
def check_property(cfg, res):
    """None if the observed run satisfies C13, else {key, what, expected, observed}"""
    ev = [e for e in res.events if e[1] != "end"]
    toks = tokens(ev)

    def bad(key, what, expected, observed):
        return {"key": key, "what": what, "expected": expected, "observed": observed, "trace": " ".join(toks)}

    if res.deadlock:
        return bad("deadlock", f"threads {res.deadlock} are blocked forever", "every call returns", "deadlock")
    if res.truncated:
        return bad("spinning", f"no end after {MAX_STEPS} scheduling steps", "every call returns", "step budget exhausted")
    if res.exceptions:
        return bad("exception", f"uncaught exception in thread(s) {sorted(res.exceptions)}: "
                   + "; ".join(f"{type(e).__name__}: {e}" for e in res.exceptions.values()), "no exception", "exception")
    has_init, has_final = cfg[0] == "1", cfg[1] == "1"
    # ---- per run (= per worker thread): order of the callbacks
    runs = {}
    for i, (tid, name, data) in enumerate(ev):
        if tid != 0:
            runs.setdefault(tid, []).append((name, data, i))
    for tid, es in sorted(runs.items()):
        names = [n for n, _, _ in es]
        seq = "".join(TOK.get(n, "q" + str(d[1]) if n == "isset" else "?") for n, d, _ in es)
        n_init = names.count("init")
        if n_init > (1 if has_init else 0):
            return bad("init-twice", f"run of thread {tid}: init called {n_init} times", "once", seq)
        first_t = names.index("target") if "target" in names else None
        if has_init and first_t is not None and "init" not in names[:first_t]:
            return bad("target-before-init", f"run of thread {tid}: target called before init", "init first", seq)
        if has_init and ("final" in names or "exit" in names) and n_init != 1:
            return bad("no-init", f"run of thread {tid} ended without init", "init once", seq)
        n_fin = names.count("final")
        if n_fin > (1 if has_final else 0):
            return bad("final-twice", f"run of thread {tid}: final called {n_fin} times", "once", seq)
        if "final" in names and "target" in names[names.index("final"):]:
            return bad("target-after-final", f"run of thread {tid}: target called after final", "final last", seq)
        if "exit" in names and has_final and n_fin != 1:
            return bad("no-final", f"run of thread {tid} ended without final", "final once", seq)
        polled = False
        for n, d, _ in es:
            if n in ("tend", "iend", "fend"):     # end of a callback call (virtual-time scenarios): not an action
                continue
            if n == "isset":
                polled = d[1] == 0       # (a repeated test is harmless: the latest answer counts)
                continue
            if polled and n != "target":
                return bad("poll-clear-no-target", f"run of thread {tid}: the worker found the stop flag clear and then "
                           f"did not call target (next: {n})", "keeps calling target until stop is requested", seq)
            if n == "target":
                if not polled:
                    return bad("target-unpolled", f"run of thread {tid}: target called without a preceding test of "
                               "the stop flag that found it clear", "stop flag polled before each target call", seq)
                polled = False
    # ---- controller view
    started = False          # last returned call of start/stop was start
    call = None              # call in progress: (op, started at call time, index)
    created = None
    live = set()             # worker threads started and not yet ended
    for i, (tid, name, data) in enumerate(ev):
        if name == "start":
            live.add(data[0])
            if len(live) > 1:
                return bad("two-live-workers", f"worker threads {sorted(live)} are alive at the same time",
                           "at most one worker", " ".join(toks[:i + 1]))
        elif name == "exit":
            live.discard(tid)
        if tid == 0 and name == "call":
            call = (data[0], started, i)
            created = None
            continue
        if tid == 0 and name in ("ret", "exc"):
            op = data[0] if name == "ret" else call[0]
            if name == "exc":
                return bad("exception", f"{op} raised {data[0]}", "no exception", data[0])
            _, handle, val = data
            mine = [e for e in ev[call[2] + 1:i] if e[0] == 0]
            if op == "S":
                if call[1]:
                    if mine:
                        return bad("start-on-running", "start() on a running worker did something",
                                   "no operation", " ".join(tokens(mine)))
                else:
                    ops = [e[1] for e in mine]
                    if ops.count("new") != 1 or ops.count("start") != 1 or not handle:
                        return bad("restart", "start() on a stopped worker did not create and start exactly one thread",
                                   "one new thread, started, handle kept", " ".join(tokens(mine)) + f" handle={handle}")
                # "a started worker is alive": the worker of this run has not already left its loop
                workers = [e[2][0] for e in ev[:i] if e[0] == 0 and e[1] == "new"]
                if workers:
                    w = workers[-1]
                    gone = [e[1] for e in ev[:i] if e[0] == w and e[1] in ("final", "exit")]
                    if gone:
                        return bad("dead-on-start-return", f"start() returned but its worker (thread {w}) has already "
                                   f"left its loop ({gone[0]})", "alive worker", " ".join(toks[:i + 1]))
                started = True
            elif op == "P":
                if not call[1] and mine:
                    return bad("stop-on-stopped", "stop() on a stopped worker did something",
                               "no operation", " ".join(tokens(mine)))
                if handle:
                    return bad("stop-keeps-handle", "stop() returned with the handle still present", "None", "present")
                alive = sorted({e[2][0] for e in ev[:i] if e[1] == "start"} - {e[0] for e in ev[:i] if e[1] == "exit"})
                if alive:
                    return bad("worker-alive-after-stop", f"stop() returned while worker thread(s) {alive} are still "
                               "running", "no running worker", " ".join(toks[:i + 1]))
                started = False
            elif op == "A":
                if bool(val) != call[1]:
                    return bad("is-alive-wrong", f"thread_is_alive() returned {val!r} while the worker was "
                               + ("started" if call[1] else "stopped"), str(call[1]), repr(val))
            call = None
            continue
        if tid != 0:
            in_start = call is not None and call[0] == "S"
            in_stop = call is not None and call[0] == "P"
            if name == "target" and not started and not in_start:
                return bad("target-after-stop", f"thread {tid} called target after stop() had returned "
                           "(and before the next start())", "no target call", " ".join(toks[:i + 1]))
            if name in ("final", "exit") and started and not in_stop:
                return bad("left-loop-while-started", f"thread {tid} left its loop ({name}) although start() had "
                           "returned and stop() was not requested", "keeps running", " ".join(toks[:i + 1]))
            if not started and not in_start and name in ("init", "isset", "final", "exit"):
                return bad("worker-alive-after-stop", f"thread {tid} is still running ({name}) after stop() returned",
                           "no running worker", " ".join(toks[:i + 1]))
    return None


# ----------------------------------------------------------------------------------------
# case production (runs in worker processes)
# ----------------------------------------------------------------------------------------
def sched_str(choices):
    """the schedule (thread chosen at every recorded decision) as one token"""
    if not choices:
        return "-"
    if max(choices) >= 10:
        return ".".join(str(c) for c in choices)
    return "".join(str(c) for c in choices)


def sched_parse(s):
    if s == "-":
        return []
    if "." in s:
        return [int(c) for c in s.split(".")]
    return [int(c) for c in s]


def tok_tid(tok):
    i = 0
    while i < len(tok) and tok[i].isdigit():
        i += 1
    return int(tok[:i]), tok[i:]


def make_line(cfg, hist, res):
    return f"worker run {cfg} {hist} {sched_str(res.choices)} " + " ".join(tokens(res.events))


def impl_line(cfg, res, summary, v="unset"):
    if v == "unset":
        v = check_property(cfg, res)
    if summary is None:   # aborted (deadlock / spinning): report what can still be seen
        return "ok safe=0 aborted"
    return f"ok safe={int(v is None)} flag={summary[0]} handle={summary[1]} live={summary[2]} started={summary[3]}"


def _job(job):
    """(kind, cfg, hist, arg) -> (executions, [(line, tag, impl_out, nontrivial, oracle verdict)])"""
    kind, cfg, hist, arg = job
    out = {}
    n = 0
    ops, flav = split_hist(hist)
    if kind == "explore":
        bound, limit = arg
        results = _explore_with_summary(cfg, hist, bound, limit)
        tag = f"explore-k{bound}-len{len(ops)}" + (f"@{flav}" if flav else "")
    else:
        seed, count, p = arg
        rng = random.Random(seed)
        results = (run_case(cfg, hist, S.RandomWalk(rng, p)) for _ in range(count))
        tag = f"random-len{len(ops)}" + (f"@{flav}" if flav else "")
    for res, summary in results:
        n += 1
        toks = " ".join(tokens(res.events))
        if toks in out:
            continue
        v = check_property(cfg, res)        # the oracle's verdict on this very execution
        if v:
            v.update(schedule=sched_str(res.choices), history=hist, callbacks=cfg, diverged=res.diverged,
                     callbacks_built_as=FLAVOUR_DOC[flav])
        out[toks] = (make_line(cfg, hist, res), tag, impl_line(cfg, res, summary, v), S.preemptions(res) > 0, v)
    capped = kind == "explore" and arg[1] is not None and n >= arg[1]
    return (n, f"{cfg}:{hist}:k{arg[0]}" if capped else None), list(out.values())


def _explore_with_summary(cfg, hist, bound, limit):
    side = {}

    def run_fn(pol):
        res, summary = run_case(cfg, hist, pol)
        side[id(res)] = summary
        return res

    for res in S.explore(run_fn, bound, limit=limit):
        yield res, side.pop(id(res), None)


def histories(alphabet, maxlen):
    hs = [""]
    out = []
    for _ in range(maxlen):
        hs = [h + a for h in hs for a in alphabet]
        out += hs
    return out


# ----------------------------------------------------------------------------------------
# virtual-time scenarios (harness/vsim.py): a callback that stays inside one call for a long time
# ----------------------------------------------------------------------------------------
VS_HISTORY = "S A w1 P A S A w2.5h A P A w2h"     # w<x> = the controller sleeps x (h = hold) virtual seconds
END_OF = {"init": "iend", "target": "tend", "final": "fend"}


class VRec:
    """recorder of a virtual-time scenario; same event vocabulary as sched.Result.events, plus the virtual
    time of every event and the end of every callback call (`iend` / `tend` / `fend`)"""

    def __init__(self, sim, vsim, blocker, hold):
        self.sim = sim
        self.vsim = vsim
        self.blocker = blocker        # which callback stays inside one call for `hold` seconds
        self.hold = hold
        self.short = hold / 4.0       # duration of an ordinary target call
        self.events = []
        self.times = []
        self.threads = []             # worker thread objects, in creation order (tid = index + 1)
        self.controller = None        # the controlling thread object when it is not the main task
        self.closed = False

    def tid(self):
        cur = self.sim.cur
        for k, t in enumerate(self.threads):
            if t.task is cur:
                return k + 1
        return 0

    def event(self, name, *data):
        if not self.closed:
            self.events.append((self.tid(), name, data))
            self.times.append(self.sim.now)

    def inside(self, name):
        if name == self.blocker:
            self.vsim.vsleep(self.hold)
        elif name == "target":
            self.vsim.vsleep(self.short)
        self.event(END_OF[name])


def _vthreading(rec, vsim):
    """what nxslib.thread sees as `threading` in a virtual-time scenario: vsim's Thread / Event with the events
    recorded, `current_thread()`, everything else from the real module"""
    import threading as real

    class VT(vsim.VThread):
        def __init__(self, group=None, target=None, name=None, args=(), kwargs=None, *, daemon=None):
            super().__init__(target=target, name=name, args=args, kwargs=kwargs, daemon=daemon)
            rec.threads.append(self)
            self.k = len(rec.threads)
            rec.event("new", self.k)

        @property
        def ident(self):
            return id(self.task) if self.task is not None else None

        def start(self):
            if self.task is None:
                inner = self.target

                def body(*a, **kw):
                    try:
                        inner(*a, **kw)
                    except vsim.Killed:
                        raise
                    except BaseException as e:  # noqa: BLE001 — recorded; vsim lists it in sim.errors
                        rec.event("exc", type(e).__name__)
                        raise
                    rec.event("exit")

                self.target = body
                rec.event("start", self.k)
            super().start()

        def is_alive(self):
            b = super().is_alive()
            rec.event("alive", self.k, int(b))
            return b

        def join(self, timeout=None):
            super().join(timeout)
            if self.task.state == "done":
                rec.event("join", self.k)
            else:
                rec.event("timeout", "join", self.k)

    class VE(vsim.VEvent):
        def set(self):
            super().set()
            rec.event("set", 1)

        def clear(self):
            super().clear()
            rec.event("clear", 1)

        def is_set(self):
            b = super().is_set()
            rec.event("isset", 1, int(b))
            return b

    class MainStub:
        name = "MainThread"
        ident = 1
        daemon = False

        def is_alive(self):
            return True

    stub = MainStub()

    class NS:
        Thread = VT
        Event = VE

        @staticmethod
        def current_thread():
            cur = vsim.sim().cur
            for t in rec.threads + ([rec.controller] if rec.controller else []):
                if t.task is cur:
                    return t
            return stub

        def __getattr__(self, name):
            return getattr(real, name)

    return NS()


def vscen_line(blocker, cfg, flav, hold, same, preempt, seed):
    return f"worker vscen {blocker} {cfg} {flav or '-'} {hold} {int(same)} {int(preempt)} {seed}"


def vscen(line, detail=None):
    """run one virtual-time scenario on the real ThreadCommon and judge it; None or a violation dict.

    `worker vscen <blocker> <cfg> <flavour|-> <hold> <same> <preempt> <seed>`: the `<blocker>` callback (init |
    target | final) stays inside ONE call for <hold> virtual seconds (an ordinary target call takes hold/4); the
    controller performs VS_HISTORY — in particular stop() one second after start(), i.e. while that call is
    in progress, and start() again immediately after stop() returned.  <same>: the controller is itself a thread
    with the worker's name.  <preempt>/<seed>: vsim switches at every primitive, seeded choice of who runs."""
    import types
    import vsim
    nt = _nt()
    t = line.split(" ")
    blocker, cfg, flav, hold, same, preempt, seed = t[2], t[3], ("" if t[4] == "-" else t[4]), float(t[5]), \
        t[6] == "1", t[7] == "1", int(t[8])
    box = {}

    def fn(sim):
        rec = box["rec"] = VRec(sim, vsim, blocker, hold)
        nt.threading = _vthreading(rec, vsim)        # (restored by vsim.installed on exit)

        def control():
            tc, keep = build_worker(nt, rec, cfg, flav, name="w")
            box["keep"] = (tc, keep)
            for step in VS_HISTORY.split(" "):
                if step[0] == "w":
                    x = step[1:]
                    vsim.vsleep(float(x[:-1]) * hold if x.endswith("h") else float(x))
                    continue
                rec.event("call", step)
                meth = {"S": tc.thread_start, "P": tc.thread_stop, "A": tc.thread_is_alive}[step]
                try:
                    r = meth()
                except vsim.Killed:
                    raise
                except Exception as e:  # noqa: BLE001 — an exception escaping the call is an observation
                    rec.event("exc", type(e).__name__)
                    continue
                rec.event("ret", step, tc._thrd is not None, r)
            rec.event("end")
            rec.closed = True
            tc.stop_set()            # clean-up, outside the case

        if same:
            ctl = rec.controller = vsim.VThread(target=control, name="w")
            ctl.start()
            ctl.join()
        else:
            control()

    r, sim = vsim.run_sim(fn, seed=seed if preempt else None, preempt=preempt, time_limit=40 * hold + 100,
                          real_limit=20.0)
    rec = box.get("rec")
    if rec is None:
        return {"key": "vscen-harness", "what": f"scenario did not start: {r!r}"}
    rec.closed = True
    ev = [e for e in rec.events if e[1] != "end"]
    tm = rec.times[:len(ev)]
    toks = tokens(ev)
    desc = {"scenario": f"real ThreadCommon under virtual time: the {blocker} callback stays inside one call for "
                        f"{hold:g} s (an ordinary target call takes {hold / 4:g} s); controller: {VS_HISTORY} "
                        "(w<x> = sleep x virtual seconds, h = that hold time)",
            "callbacks": cfg, "callbacks_built_as": FLAVOUR_DOC[flav],
            "controller_thread": "a thread named like the worker ('w')" if same else "main thread",
            "timeline_legend": "<thread><event>@<virtual time>; thread 0 = controller, k = k-th worker thread; S P A = "
                               "start/stop/is_alive called, R<handle present>[<value>] = returned; c e q<b> = flag cleared / "
                               "set / tested; n s a<b> j = Thread created / started / is_alive / joined; i t f x = init / "
                               "target / final entered, thread ended",
            "timeline": " ".join(f"{tk}@{t:g}" for tk, t in zip(toks, [x for e, x in zip(ev, tm)
                                                                    if tokens([e])]))[:3000]}

    live, overlap = set(), None       # what the restart then leads to (reported with the first violation)
    for (tid, name, data), now in zip(ev, tm):
        if name == "start":
            live.add(data[0])
            if len(live) > 1 and overlap is None:
                overlap = (sorted(live), now)
        elif name == "exit":
            live.discard(tid)
    if overlap:
        desc["and_then"] = (f"from t={overlap[1]:g} s the worker threads {overlap[0]} are alive at the same time "
                            "(the start() that follows clears the stop flag the old worker has not looked at yet)")
    if detail is not None:
        detail.update(desc, outcome=repr(r), events=len(ev), virtual_end=sim.now)

    def bad(key, what, expected, observed):
        return {"key": key, "what": what, "expected": expected, "observed": observed, **desc}

    if isinstance(r, BaseException) and not isinstance(r, (vsim.Deadlock, vsim.TimeLimit, vsim.Spin, vsim.RealTimeLimit)):
        return bad("exception", f"the scenario raised {type(r).__name__}: {r}", "no exception", type(r).__name__)
    # clock-aware: a stop() that returns while a callback call is still in progress
    inside = {}                 # tid -> (callback, entered at)
    tcall = None
    for (tid, name, data), now in zip(ev, tm):
        if tid != 0 and name in END_OF:
            inside[tid] = (name, now)
        elif tid != 0 and name in END_OF.values():
            inside.pop(tid, None)
        elif tid == 0 and name == "call":
            tcall = now
        elif tid == 0 and name == "ret" and data[0] == "P" and inside:
            k, (cb, t_in) = sorted(inside.items())[0]
            return bad("stop-returned-during-callback",
                       f"stop() called at t={tcall:g} s returned at t={now:g} s while worker thread {k} was still inside "
                       f"the {cb} call it had entered at t={t_in:g} s",
                       f"stop() returns only after that call has ended (t={t_in + (hold if cb == blocker else hold / 4):g} s), "
                       "final has run and the thread is gone", f"returned {now - tcall:g} s after the request")
    if isinstance(r, vsim.Deadlock):
        return bad("deadlock", f"nobody can run: {r}", "every call returns", "deadlock")
    if isinstance(r, BaseException):
        return bad("no-return", f"the scenario never finished: {type(r).__name__}: {str(r)[:300]}",
                   "every call returns", type(r).__name__)
    errs = {i + 1: e for i, (name, e, tb) in enumerate(sim.errors)}
    res = types.SimpleNamespace(events=ev, deadlock=[], truncated=False, exceptions=errs)
    v = check_property(cfg, res)
    if v:
        v.update(desc)
        return v
    return None


def vscen_lines(rng, tier):
    """the virtual-time scenarios of a tier"""
    out = []

    def add(blocker, cfg, flav, hold, same, seeds):
        if (blocker == "init" and cfg[0] == "0") or (blocker == "final" and cfg[1] == "0"):
            return
        out.append(vscen_line(blocker, cfg, flav, hold, same, False, 0))
        for sd in seeds:
            out.append(vscen_line(blocker, cfg, flav, hold, same, True, sd))

    if tier == "thorough":
        seeds = [rng.randrange(1 << 16) for _ in range(3)]
        for blocker in ("target", "init", "final"):
            for hold in (10, 60, 3600):
                for cfg in ("11", "10", "01", "00"):
                    for flav in ("",) + FLAVOURS[:-1]:
                        for same in (False, True):
                            add(blocker, cfg, flav, hold, same, seeds)
    else:
        seeds = [rng.randrange(1 << 16)]
        for blocker in ("target", "init", "final"):
            for hold in (10, 3600):
                add(blocker, "11", "", hold, False, seeds)
        add("target", "11", "", 10, True, seeds)
        add("final", "11", "", 3600, True, seeds)
        for flav in FLAVOURS[:-1]:
            add("target", "11", flav, 10, False, seeds)
        add("init", "11", "bound", 60, True, seeds)
        for cfg in ("00", "10", "01"):
            add("target", cfg, "", 60, False, seeds)
    return out


def realtime_blocking_target(hold):
    import threading
    import time
    from nxslib.thread import ThreadCommon
    state = {"in": 0, "max": 0, "calls": 0}
    release = threading.Event()
    lock = threading.Lock()

    def target():
        with lock:
            state["in"] += 1
            state["max"] = max(state["max"], state["in"])
            state["calls"] += 1
        release.wait(hold)
        with lock:
            state["in"] -= 1

    t = ThreadCommon(target)
    t.thread_start()
    while state["calls"] == 0:
        time.sleep(0.01)
    t0 = time.time()
    t.thread_stop()
    dt = time.time() - t0
    running_at_return = state["in"]
    v = None
    if running_at_return:
        v = {"key": "rt-target-running-after-stop", "what": f"stop() returned after {dt:.1f} s while a target call (blocking {hold} s) was still running",
             "expected": "stop waits for the running target call", "observed": f"{running_at_return} target call(s) in progress", "case": "real-time"}
    else:
        t.thread_start()
        time.sleep(0.2)
        if state["max"] > 1:
            v = {"key": "rt-two-workers", "what": "two target calls ran concurrently after restart", "expected": "1", "observed": state["max"], "case": "real-time"}
    release.set()
    t.thread_stop()
    return v


def realtime_raising_target(cfg="11", fail_at=2):
    """real threads: the target raises in its `fail_at`-th call of the first run (the worker thread dies with the
    exception, as any Python thread does); then stop(); start(): the second run is a run like any other — init (when
    given) is called once before its first target call, the worker is alive and calls target again; then stop()
    returns with the worker dead and no target call in progress.  Only clauses the property states for every run are
    judged; what becomes of `final` in the run that died is not."""
    import threading
    import time
    from nxslib.thread import ThreadCommon
    ev = []
    lock = threading.Lock()
    n = {"target": 0, "in": 0}

    def emit(x):
        with lock:
            ev.append(x)

    def target():
        with lock:
            n["target"] += 1
            k = n["target"]
            n["in"] += 1
        try:
            emit("target")
            if k == fail_at:
                raise RuntimeError("target failed (harness: C13 raising-target scenario)")
            time.sleep(0.002)
        finally:
            with lock:
                n["in"] -= 1

    wi, wf = cfg[0] == "1", cfg[1] == "1"
    t = ThreadCommon(target, init=(lambda: emit("init")) if wi else None, final=(lambda: emit("final")) if wf else None)
    hook = threading.excepthook
    threading.excepthook = lambda a: None       # the expected traceback of the dying worker is not printed
    case = f"real-time raising target cfg={cfg} fail_at={fail_at}"

    def bad(key, what, exp, obs):
        return {"key": key, "what": what, "expected": exp, "observed": obs, "case": case, "events": list(ev)[:40]}
    try:
        t.thread_start()
        t0 = time.time()
        while t.thread_is_alive() and time.time() - t0 < 10:
            time.sleep(0.005)
        if t.thread_is_alive():
            t.thread_stop()
            return None                       # the target never raised (cannot happen); nothing to judge
        t.thread_stop()
        with lock:
            mark = len(ev)
            ev.append("RESTART")
        t.thread_start()
        t0 = time.time()
        while time.time() - t0 < 10:
            with lock:
                if "target" in ev[mark + 1:]:
                    break
            time.sleep(0.005)
        alive = t.thread_is_alive()
        t.thread_stop()
        with lock:
            run2 = ev[mark + 1:]
            running = n["in"]
        if "target" not in run2 or not alive:
            return bad("rt-restart-after-failed-target", "after the worker died in a raising target call, stop() and start() did "
                       "not give a live worker that calls target again", "alive, target called", f"alive={alive} events={run2[:8]}")
        if running or t.thread_is_alive():
            return bad("rt-target-running-after-stop", "stop() returned with the worker alive / a target call in progress",
                       "dead, 0", f"alive={t.thread_is_alive()} in progress={running}")
        first = run2.index("target")
        inits = run2[:first].count("init")
        if inits != (1 if wi else 0) or run2.count("init") != (1 if wi else 0):
            return bad("rt-init-per-run", "the run started after a run that ended in a raising target call: init must be called "
                       "once before the first target call of that run (never, when no init is given)",
                       f"{1 if wi else 0} init before the first target call, {1 if wi else 0} in the run",
                       f"{inits} before the first target call, {run2.count('init')} in the run: {run2[:6]}")
        return None
    finally:
        threading.excepthook = hook


class C13(Prop):
    id = "C13"
    lean_module = "NxsModel.Props.C13"
    rule = ("real ThreadCommon on real threads under harness/sched.py; cases = (callback config, start/stop/"
            "is_alive history [@ how the callbacks are built: closures / bound methods of a dropped temporary / lambdas / "
            "partials / plain functions / callable objects / worker named like the controller], schedule); all schedules with <= k pre-emptions at source-line granularity "
            "(k=2 quick, k=3 thorough, |history| <= 4; k=4 for |history| <= 3) + seeded random walks on histories up to "
            "length 8; one case per DISTINCT observed trace (schedules giving the same trace are merged; "
            "executions counted separately as schedules_executed); non-trivial = at least one pre-emption; plus (oracle only) "
            "virtual-time scenarios under harness/vsim.py: a callback inside one call for 10 s … 1 h while stop() is called, "
            "immediate restart, controller thread named like the worker")
    assumptions = ["a callback counts as given iff it is TRUTHY (`if self._init:` / `if self._final:` in thread.py): a callable object whose `__bool__` is False is never called; the model's hasInit / hasFinal mean truthy (second review, R4-D-G1)",
                   "threading.Thread.start/join/is_alive and threading.Event behave as documented (the scheduler's "
                   "shims implement the documented behaviour on real OS threads; CPython's own implementation of "
                   "them is not exercised)",
                   "the callbacks are opaque, atomic and do not touch the ThreadCommon object",
                   "a single controller thread issues the start/stop/is_alive calls (concurrent controllers are "
                   "outside C13)",
                   "liveness is proved as: cannot leave the loop while the flag is clear and a target call is a "
                   "bounded number of own steps away — not a fairness statement about the OS scheduler"]
    trusted_base = Prop.trusted_base + ["harness/translate_thread.py (thread.py -> instruction lists)",
                                        "harness/sched.py (deterministic scheduler, shims of Thread/Event)",
                                        "harness/vsim.py (virtual-time runtime: Thread.join(timeout) / sleep on a virtual clock)"]

    def __init__(self):
        self._impl = {}
        self._nontrivial = {}
        self._verdict = {}      # oracle verdicts of the executions made by this process run
        self.executed = 0
        self.capped = []        # explore jobs that stopped at their schedule limit (not exhaustive)

    # -- jobs -----------------------------------------------------------------------------
    def jobs(self, rng, tier):
        jobs = []
        if tier == "thorough":
            for h in histories("SP", 4):
                jobs.append(("explore", "11", h, (3, 8000)))
            for h in histories("SP", 3):
                jobs.append(("explore", "11", h, (4, 25000)))
            for h in histories("SP", 4):
                jobs.append(("explore", "00", h, (3 if len(h) <= 3 else 2, 8000)))
            for h in histories("SP", 3):
                for cfg in ("10", "01"):
                    jobs.append(("explore", cfg, h, (2, 3000)))
            for h in histories("SPA", 4):
                if "A" in h:
                    jobs.append(("explore", "11", h, (3 if len(h) <= 3 else 2, 4000)))
            for flav in FLAVOURS:
                for h in ("S", "SP", "SPS", "SPSP", "SAP", "SSPP"):
                    jobs.append(("explore", "11", f"{h}@{flav}", (2, 3000)))
                for cfg in ("00", "10", "01"):
                    jobs.append(("explore", cfg, f"SPS@{flav}", (2, 3000)))
            nrand, cnt = 128, 100
        else:
            for flav in FLAVOURS:
                for h in ("S", "SP", "SPS", "SAP"):
                    jobs.append(("explore", "11", f"{h}@{flav}", (2, 600)))
                jobs.append(("explore", "00", f"SPS@{flav}", (1, 400)))
            for h in histories("SP", 4):
                jobs.append(("explore", "11", h, (2, 1500)))
            for h in histories("SP", 3):
                jobs.append(("explore", "00", h, (2, 1500)))
            for h in ("SPS", "SP"):
                jobs.append(("explore", "11", h, (3, 3000)))
            for h in ("SA", "SPA", "ASA", "SAP", "SAS", "PAS", "SASP"):
                jobs.append(("explore", "11", h, (2, 1500)))
            nrand, cnt = 24, 30
        for _ in range(nrand):
            n = rng.randrange(3, 9)
            h = "".join(rng.choice("SSPPA") for _ in range(n))
            cfg = rng.choice(["11", "11", "00", "10", "01"])
            flav = rng.choice(("",) * len(FLAVOURS) + FLAVOURS)      # half of the walks on a non-plain flavour
            jobs.append(("random", cfg, h + ("@" + flav if flav else ""),
                         (rng.randrange(1 << 30), cnt, rng.choice([0.1, 0.25, 0.5]))))
        jobs.sort(key=lambda j: -(len(split_hist(j[2])[0]) * 10 + (j[3][0] if j[0] == "explore" else 0)))   # long jobs first
        return jobs

    def run_jobs(self, jobs):
        procs = min(len(jobs), max(1, min(12, (os.cpu_count() or 2) - 2)))
        out = []
        if procs <= 1:
            rs = [_job(j) for j in jobs]
        else:
            ctx = multiprocessing.get_context("fork")
            with ctx.Pool(procs) as pool:
                rs = pool.map(_job, jobs, chunksize=1)
        seen = set()
        for (n, capped), lines in rs:
            self.executed += n
            if capped:
                self.capped.append(capped)
            for line, tag, impl_out, nontriv, verdict in lines:
                key = line.split(" ", 5)
                key = (key[2], key[3], key[5] if len(key) > 5 else "")
                if key in seen:
                    continue
                seen.add(key)
                self._impl[line] = impl_out
                self._nontrivial[line] = nontriv
                self._verdict[line] = verdict
                out.append((line, tag))
        return out

    # -- Prop interface -------------------------------------------------------------------
    def cases(self, rng, tier):
        return self.run_jobs(self.jobs(rng, tier))

    @staticmethod
    def parse(line):
        t = line.split(" ")
        cfg, hist, sch = t[2], t[3], t[4]
        return cfg, hist, sched_parse(sch), t[5:]

    def impl(self, line):
        if line in self._impl:
            return self._impl[line]
        cfg, hist, choices, toks = self.parse(line)
        res, summary = run_case(cfg, hist, S.FixedSchedule(choices))
        out = impl_line(cfg, res, summary)
        if tokens(res.events) != toks:
            # a recorded case (corpus): on this input (callbacks, history, schedule) the real code no longer
            # produces the recorded trace
            out += " trace-differs"
        return out

    def nontrivial(self, line, out):
        return self._nontrivial.get(line, True)

    def oracle(self, line, impl_out=None):
        t = line.split(" ")
        if t[1] == "vscen":      # virtual-time scenario (not a driver line)
            v = vscen(line)
            if v:
                v["case"] = line
            return v
        if t[1] == "guided":     # `worker guided <cfg> <history> <model path tokens…>`
            cfg, hist, want = t[2], t[3], t[4:]
            res, _ = run_case(cfg, hist, Guided(want))
            v = check_property(cfg, res)
            if v:
                v["schedule"] = sched_str(res.choices)
                v["case"] = make_line(cfg, hist, res)     # replayable by its explicit schedule
                v["model_counterexample"] = " ".join(want)
            return v
        if line in self._verdict:     # this exact schedule was executed on the real code in this run
            v = self._verdict[line]
            return dict(v) if v else None
        cfg, hist, choices, _ = self.parse(line)
        res, _ = run_case(cfg, hist, S.FixedSchedule(choices))
        v = check_property(cfg, res)
        if v:
            v["schedule"] = sched_str(res.choices)
            v["history"] = hist
            v["callbacks"] = cfg
            v["callbacks_built_as"] = FLAVOUR_DOC[split_hist(hist)[1]]
            v["diverged"] = res.diverged
        return v

    def search_cases(self, rng):
        """targeted search: first the model's own counterexample (if the regenerated model has one),
        replayed on the real code by steering the scheduler along it; then all schedules with <= 2
        pre-emptions of the short histories"""
        out = []
        try:
            for cfg in ("11", "00"):
                ans = common.driver_run([f"worker cex {cfg}"])[0].split(" ")
                if ans[0] == "ok" and len(ans) > 2:
                    toks = ans[2:]
                    hist = "".join(c for tid, c in map(tok_tid, toks) if tid == 0 and c in ("S", "P", "A"))
                    for extra in ("", "P", "S", "PS"):
                        out.append((f"worker guided {cfg} {hist + extra} " + " ".join(toks), "model-cex"))
        except Exception:  # noqa: BLE001 — no driver: fall through to the enumeration
            pass
        jobs = [("explore", cfg, h, (2, 2000)) for cfg in ("11", "00") for h in histories("SP", 3)]
        out += self.run_jobs(jobs)
        return out

    def deep_search(self, rng):
        """real threads, real time: a target call that is still running long after the stop request (a legal
        blocking callback). stop() must not return while it runs; afterwards the worker must be dead and a
        restart must not give two concurrent workers."""
        vs = [realtime_blocking_target(4.0)]
        for cfg in ("11", "10", "01", "00"):
            for k in (1, 2, 5):
                vs.append(realtime_raising_target(cfg, k))
        return [v for v in vs if v]

    def replay(self, obj):
        if obj.get("key", "") in ("rt-restart-after-failed-target", "rt-init-per-run") or "raising target" in str(obj.get("case", "")):
            m = re.search(r"cfg=(\d\d) fail_at=(\d+)", str(obj.get("case", "")))
            return realtime_raising_target(m.group(1), int(m.group(2))) if m else realtime_raising_target()
        if obj.get("key", "").startswith("rt-"):
            return realtime_blocking_target(4.0)
        return self.oracle(obj["case"])

    def extra_checks(self, rng, tier, ev):
        cov = ev["coverage"]
        cov["schedules_executed"] = self.executed
        cov["explore_jobs_capped"] = self.capped
        cov["exhaustive"] = False   # per job: every explore job not listed in explore_jobs_capped enumerated ALL
        #                             schedules within its pre-emption bound; the random walks are samples
        cov["traces_validated_against_impl"] = len(self._impl)
        try:
            stats = common.driver_run([f"worker stats {c}" for c in ("11", "10", "01", "00")])
            cov["model_states_per_config"] = stats
            cov["states"] = sum(int(s.split("states=")[1].split(" ")[0]) for s in stats)
            cov["transitions"] = sum(int(s.split("transitions=")[1].split(" ")[0]) for s in stats)
        except Exception as e:  # noqa: BLE001
            cov["model_states_per_config"] = f"driver unavailable: {e}"
        # virtual-time scenarios: the real code judged by the oracle (no model of time on the Lean side)
        out = []
        lines = vscen_lines(rng, tier)
        keys = set()
        for l in lines:
            v = self.oracle(l)
            if v and v.get("key") not in keys:
                keys.add(v.get("key"))
                out.append(v)
        cov["virtual_time_scenarios"] = len(lines)
        cov["virtual_time_scenario_sample"] = lines[:3]
        return out


PROP = C13()
