"""C13 — a worker runs until stopped, never after stop returns, and can be restarted.

Correspondence: the REAL `nxslib.thread.ThreadCommon` is executed on real threads under the
deterministic scheduler `harness/sched.py` (switch points: every source line of thread.py, every
thread exit, a voluntary yield inside the target callback and between the controller's calls),
for start / stop / is_alive histories x schedules:
  * every schedule with <= k pre-emptions (k = 2 quick, 3 thorough; history length <= 4),
  * seeded random walks over longer histories.
Each executed trace (who took the next visible step and what was seen) is one driver line
`worker run <cfg> <history> <schedule> <tokens…>`; the Lean driver answers whether it is a run
of the model (the translated programs under the interleaving semantics of Worker.lean) and
the model's verdict on the safety predicates along it; `impl` answers the same line from the
observation of the real objects + the property oracle below.

Oracle: the property itself on the observed event order of the real code, written without
reference to the model: init once before the first target of a run, final once after the last
and before the thread ends, every target preceded by the worker's own clear poll of the stop
flag, no target after stop() returned until the next start() call, start on running / stop on
stopped perform no operation, a (re)start creates and starts a fresh thread that does not leave
its loop before stop is requested, thread_is_alive() tells the truth, no deadlock, no
exception, no spinning.
"""
from __future__ import annotations

import multiprocessing
import os
import random

import common
from common import Prop
import sched as S

TOK = {"new": "n", "start": "s", "join": "j", "set": "e", "clear": "c", "exit": "x",
       "init": "i", "target": "t", "final": "f"}
SETTLE = 2          # time slices offered to the workers after the last call
MAX_STEPS = 4000


def _nt():
    import nxslib.thread as nt
    return nt


def tokens(events):
    """observed events -> driver tokens (see lean/NxsModel/Driver/Worker.lean)"""
    out = []
    for tid, name, data in events:
        if name in TOK:
            out.append(f"{tid}{TOK[name]}")
        elif name == "isset":
            out.append(f"{tid}q{data[1]}")
        elif name == "alive":
            out.append(f"{tid}a{data[1]}")
        elif name == "call":
            out.append(f"{tid}{data[0]}")
        elif name == "ret":
            op, handle, val = data
            if op == "A":
                out.append(f"{tid}R{int(handle)}" + ("n" if val is None else str(int(bool(val)))))
            else:
                out.append(f"{tid}R{int(handle)}")
        elif name == "exc":
            out.append(f"{tid}E")
        elif name == "deadlock":
            out.append("0D")
        # 'end' and anything else: not part of the trace
    return out


class Guided:
    """policy: make the real code follow a model path (list of tokens) as far as it can"""

    def __init__(self, want):
        self.want = list(want)

    def choose(self, sched, kind, cur, options, default):
        have = tokens(sched.result.events)
        n = len(have)
        if n < len(self.want) and have == self.want[:n]:
            tid = tok_tid(self.want[n])[0]
            if tid in options:
                return tid
        return default


def run_case(cfg, hist, policy):
    """execute history `hist` (string over S P A) on a fresh real ThreadCommon built with the
    callbacks `cfg` (two 0/1 chars: init given, final given) under `policy`.
    Returns (result, summary) — summary = observed end state, or None if the run was aborted."""
    nt = _nt()
    s = S.Scheduler(policy, trace_files=[nt.__file__], prim_points=False, max_steps=MAX_STEPS)
    box = {}

    def target():
        s.event("target")
        s.point("yield")

    def init():
        s.event("init")

    def final():
        s.event("final")

    def main():
        tc = nt.ThreadCommon(target, init=init if cfg[0] == "1" else None,
                             final=final if cfg[1] == "1" else None, name="w")
        box["tc"] = tc
        started = False
        for k, op in enumerate(hist):
            if k:
                s.point("yield")     # time passes between two calls of the application
            s.event("call", op)
            meth = {"S": tc.thread_start, "P": tc.thread_stop, "A": tc.thread_is_alive}[op]
            try:
                r = meth()
            except S.SchedAbort:
                raise
            except Exception as e:  # noqa: BLE001 — an exception escaping the call is an observation
                s.event("exc", type(e).__name__)
                continue
            s.event("ret", op, tc._thrd is not None, r)
            if op in "SP":
                started = op == "S"
        for _ in range(SETTLE):
            s.point("yield")
        s.event("end")
        box["summary"] = (int(tc._stop_flag._flag), int(tc._thrd is not None),
                          sum(1 for t in s.threads[1:] if t.started and not t.finished), int(started))
        s.quiesce()
        tc._stop_flag._flag = True   # clean-up, outside the case

    old = nt.threading
    nt.threading = s.threading
    try:
        res = s.run(main)
    finally:
        nt.threading = old
    return res, box.get("summary")


# ----------------------------------------------------------------------------------------
# the property, on the observed events of the real code
# ----------------------------------------------------------------------------------------
def check_property(cfg, res):
    """None if the observed run satisfies C13, else {key, what, expected, observed}"""
    ev = [e for e in res.events if e[1] != "end"]
    toks = tokens(ev)

    def bad(key, what, expected, observed):
        return {"key": key, "what": what, "expected": expected, "observed": observed, "trace": " ".join(toks)}

    if res.deadlock:
        return bad("deadlock", f"threads {res.deadlock} are blocked forever", "every call returns", "deadlock")
    if res.truncated:
        return bad("spinning", f"no end after {MAX_STEPS} scheduling steps", "every call returns", "step budget exhausted")
    if res.exceptions:
        return bad("exception", f"uncaught exception in thread(s) {sorted(res.exceptions)}: "
                   + "; ".join(f"{type(e).__name__}: {e}" for e in res.exceptions.values()), "no exception", "exception")
    has_init, has_final = cfg[0] == "1", cfg[1] == "1"
    # ---- per run (= per worker thread): order of the callbacks
    runs = {}
    for i, (tid, name, data) in enumerate(ev):
        if tid != 0:
            runs.setdefault(tid, []).append((name, data, i))
    for tid, es in sorted(runs.items()):
        names = [n for n, _, _ in es]
        seq = "".join(TOK.get(n, "q" + str(d[1]) if n == "isset" else "?") for n, d, _ in es)
        n_init = names.count("init")
        if n_init > (1 if has_init else 0):
            return bad("init-twice", f"run of thread {tid}: init called {n_init} times", "once", seq)
        first_t = names.index("target") if "target" in names else None
        if has_init and first_t is not None and "init" not in names[:first_t]:
            return bad("target-before-init", f"run of thread {tid}: target called before init", "init first", seq)
        if has_init and ("final" in names or "exit" in names) and n_init != 1:
            return bad("no-init", f"run of thread {tid} ended without init", "init once", seq)
        n_fin = names.count("final")
        if n_fin > (1 if has_final else 0):
            return bad("final-twice", f"run of thread {tid}: final called {n_fin} times", "once", seq)
        if "final" in names and "target" in names[names.index("final"):]:
            return bad("target-after-final", f"run of thread {tid}: target called after final", "final last", seq)
        if "exit" in names and has_final and n_fin != 1:
            return bad("no-final", f"run of thread {tid} ended without final", "final once", seq)
        polled = False
        for n, d, _ in es:
            if n == "isset":
                polled = d[1] == 0
            elif n == "target":
                if not polled:
                    return bad("target-unpolled", f"run of thread {tid}: target called without a preceding test of "
                               "the stop flag that found it clear", "stop flag polled before each target call", seq)
                polled = False
    # ---- controller view
    started = False          # last returned call of start/stop was start
    call = None              # call in progress: (op, started at call time, index)
    created = None
    for i, (tid, name, data) in enumerate(ev):
        if tid == 0 and name == "call":
            call = (data[0], started, i)
            created = None
            continue
        if tid == 0 and name in ("ret", "exc"):
            op = data[0] if name == "ret" else call[0]
            if name == "exc":
                return bad("exception", f"{op} raised {data[0]}", "no exception", data[0])
            _, handle, val = data
            mine = [e for e in ev[call[2] + 1:i] if e[0] == 0]
            if op == "S":
                if call[1]:
                    if mine:
                        return bad("start-on-running", "start() on a running worker did something",
                                   "no operation", " ".join(tokens(mine)))
                else:
                    ops = [e[1] for e in mine]
                    if ops.count("new") != 1 or ops.count("start") != 1 or not handle:
                        return bad("restart", "start() on a stopped worker did not create and start exactly one thread",
                                   "one new thread, started, handle kept", " ".join(tokens(mine)) + f" handle={handle}")
                # "a started worker is alive": the worker of this run has not already left its loop
                workers = [e[2][0] for e in ev[:i] if e[0] == 0 and e[1] == "new"]
                if workers:
                    w = workers[-1]
                    gone = [e[1] for e in ev[:i] if e[0] == w and e[1] in ("final", "exit")]
                    if gone:
                        return bad("dead-on-start-return", f"start() returned but its worker (thread {w}) has already "
                                   f"left its loop ({gone[0]})", "alive worker", " ".join(toks[:i + 1]))
                started = True
            elif op == "P":
                if not call[1] and mine:
                    return bad("stop-on-stopped", "stop() on a stopped worker did something",
                               "no operation", " ".join(tokens(mine)))
                if handle:
                    return bad("stop-keeps-handle", "stop() returned with the handle still present", "None", "present")
                alive = sorted({e[2][0] for e in ev[:i] if e[1] == "start"} - {e[0] for e in ev[:i] if e[1] == "exit"})
                if alive:
                    return bad("worker-alive-after-stop", f"stop() returned while worker thread(s) {alive} are still "
                               "running", "no running worker", " ".join(toks[:i + 1]))
                started = False
            elif op == "A":
                if bool(val) != call[1]:
                    return bad("is-alive-wrong", f"thread_is_alive() returned {val!r} while the worker was "
                               + ("started" if call[1] else "stopped"), str(call[1]), repr(val))
            call = None
            continue
        if tid != 0:
            in_start = call is not None and call[0] == "S"
            in_stop = call is not None and call[0] == "P"
            if name == "target" and not started and not in_start:
                return bad("target-after-stop", f"thread {tid} called target after stop() had returned "
                           "(and before the next start())", "no target call", " ".join(toks[:i + 1]))
            if name in ("final", "exit") and started and not in_stop:
                return bad("left-loop-while-started", f"thread {tid} left its loop ({name}) although start() had "
                           "returned and stop() was not requested", "keeps running", " ".join(toks[:i + 1]))
            if not started and not in_start and name in ("init", "isset", "final", "exit"):
                return bad("worker-alive-after-stop", f"thread {tid} is still running ({name}) after stop() returned",
                           "no running worker", " ".join(toks[:i + 1]))
    return None


# ----------------------------------------------------------------------------------------
# case production (runs in worker processes)
# ----------------------------------------------------------------------------------------
def sched_str(choices):
    """the schedule (thread chosen at every recorded decision) as one token"""
    if not choices:
        return "-"
    if max(choices) >= 10:
        return ".".join(str(c) for c in choices)
    return "".join(str(c) for c in choices)


def sched_parse(s):
    if s == "-":
        return []
    if "." in s:
        return [int(c) for c in s.split(".")]
    return [int(c) for c in s]


def tok_tid(tok):
    i = 0
    while i < len(tok) and tok[i].isdigit():
        i += 1
    return int(tok[:i]), tok[i:]


def make_line(cfg, hist, res):
    return f"worker run {cfg} {hist} {sched_str(res.choices)} " + " ".join(tokens(res.events))


def impl_line(cfg, res, summary, v="unset"):
    if v == "unset":
        v = check_property(cfg, res)
    if summary is None:   # aborted (deadlock / spinning): report what can still be seen
        return "ok safe=0 aborted"
    return f"ok safe={int(v is None)} flag={summary[0]} handle={summary[1]} live={summary[2]} started={summary[3]}"


def _job(job):
    """(kind, cfg, hist, arg) -> (executions, [(line, tag, impl_out, nontrivial, oracle verdict)])"""
    kind, cfg, hist, arg = job
    out = {}
    n = 0
    if kind == "explore":
        bound, limit = arg
        results = _explore_with_summary(cfg, hist, bound, limit)
        tag = f"explore-k{bound}-len{len(hist)}"
    else:
        seed, count, p = arg
        rng = random.Random(seed)
        results = (run_case(cfg, hist, S.RandomWalk(rng, p)) for _ in range(count))
        tag = f"random-len{len(hist)}"
    for res, summary in results:
        n += 1
        toks = " ".join(tokens(res.events))
        if toks in out:
            continue
        v = check_property(cfg, res)        # the oracle's verdict on this very execution
        if v:
            v.update(schedule=sched_str(res.choices), history=hist, callbacks=cfg, diverged=res.diverged)
        out[toks] = (make_line(cfg, hist, res), tag, impl_line(cfg, res, summary, v), S.preemptions(res) > 0, v)
    capped = kind == "explore" and arg[1] is not None and n >= arg[1]
    return (n, f"{cfg}:{hist}:k{arg[0]}" if capped else None), list(out.values())


def _explore_with_summary(cfg, hist, bound, limit):
    side = {}

    def run_fn(pol):
        res, summary = run_case(cfg, hist, pol)
        side[id(res)] = summary
        return res

    for res in S.explore(run_fn, bound, limit=limit):
        yield res, side.pop(id(res), None)


def histories(alphabet, maxlen):
    hs = [""]
    out = []
    for _ in range(maxlen):
        hs = [h + a for h in hs for a in alphabet]
        out += hs
    return out


def realtime_blocking_target(hold):
    import threading
    import time
    from nxslib.thread import ThreadCommon
    state = {"in": 0, "max": 0, "calls": 0}
    release = threading.Event()
    lock = threading.Lock()

    def target():
        with lock:
            state["in"] += 1
            state["max"] = max(state["max"], state["in"])
            state["calls"] += 1
        release.wait(hold)
        with lock:
            state["in"] -= 1

    t = ThreadCommon(target)
    t.thread_start()
    while state["calls"] == 0:
        time.sleep(0.01)
    t0 = time.time()
    t.thread_stop()
    dt = time.time() - t0
    running_at_return = state["in"]
    v = None
    if running_at_return:
        v = {"key": "rt-target-running-after-stop", "what": f"stop() returned after {dt:.1f} s while a target call (blocking {hold} s) was still running",
             "expected": "stop waits for the running target call", "observed": f"{running_at_return} target call(s) in progress", "case": "real-time"}
    else:
        t.thread_start()
        time.sleep(0.2)
        if state["max"] > 1:
            v = {"key": "rt-two-workers", "what": "two target calls ran concurrently after restart", "expected": "1", "observed": state["max"], "case": "real-time"}
    release.set()
    t.thread_stop()
    return v


class C13(Prop):
    id = "C13"
    lean_module = "NxsModel.Props.C13"
    rule = ("real ThreadCommon on real threads under harness/sched.py; cases = (callback config, start/stop/"
            "is_alive history, schedule); all schedules with <= k pre-emptions at source-line granularity "
            "(k=2 quick, k=3 thorough, |history| <= 4; k=4 for |history| <= 3) + seeded random walks on histories up to "
            "length 8; one case per DISTINCT observed trace (schedules giving the same trace are merged; "
            "executions counted separately as schedules_executed); non-trivial = at least one pre-emption")
    assumptions = ["threading.Thread.start/join/is_alive and threading.Event behave as documented (the scheduler's "
                   "shims implement the documented behaviour on real OS threads; CPython's own implementation of "
                   "them is not exercised)",
                   "the callbacks are opaque, atomic and do not touch the ThreadCommon object",
                   "a single controller thread issues the start/stop/is_alive calls (concurrent controllers are "
                   "outside C13)",
                   "liveness is proved as: cannot leave the loop while the flag is clear and a target call is a "
                   "bounded number of own steps away — not a fairness statement about the OS scheduler"]
    trusted_base = Prop.trusted_base + ["harness/translate_thread.py (thread.py -> instruction lists)",
                                        "harness/sched.py (deterministic scheduler, shims of Thread/Event)"]

    def __init__(self):
        self._impl = {}
        self._nontrivial = {}
        self._verdict = {}      # oracle verdicts of the executions made by this process run
        self.executed = 0
        self.capped = []        # explore jobs that stopped at their schedule limit (not exhaustive)

    # -- jobs -----------------------------------------------------------------------------
    def jobs(self, rng, tier):
        jobs = []
        if tier == "thorough":
            for h in histories("SP", 4):
                jobs.append(("explore", "11", h, (3, 8000)))
            for h in histories("SP", 3):
                jobs.append(("explore", "11", h, (4, 25000)))
            for h in histories("SP", 4):
                jobs.append(("explore", "00", h, (3 if len(h) <= 3 else 2, 8000)))
            for h in histories("SP", 3):
                for cfg in ("10", "01"):
                    jobs.append(("explore", cfg, h, (2, 3000)))
            for h in histories("SPA", 4):
                if "A" in h:
                    jobs.append(("explore", "11", h, (3 if len(h) <= 3 else 2, 4000)))
            nrand, cnt = 128, 100
        else:
            for h in histories("SP", 4):
                jobs.append(("explore", "11", h, (2, 1500)))
            for h in histories("SP", 3):
                jobs.append(("explore", "00", h, (2, 1500)))
            for h in ("SPS", "SP"):
                jobs.append(("explore", "11", h, (3, 3000)))
            for h in ("SA", "SPA", "ASA", "SAP", "SAS", "PAS", "SASP"):
                jobs.append(("explore", "11", h, (2, 1500)))
            nrand, cnt = 24, 30
        for _ in range(nrand):
            n = rng.randrange(3, 9)
            h = "".join(rng.choice("SSPPA") for _ in range(n))
            cfg = rng.choice(["11", "11", "00", "10", "01"])
            jobs.append(("random", cfg, h, (rng.randrange(1 << 30), cnt, rng.choice([0.1, 0.25, 0.5]))))
        jobs.sort(key=lambda j: -(len(j[2]) * 10 + (j[3][0] if j[0] == "explore" else 0)))   # long jobs first
        return jobs

    def run_jobs(self, jobs):
        procs = min(len(jobs), max(1, min(12, (os.cpu_count() or 2) - 2)))
        out = []
        if procs <= 1:
            rs = [_job(j) for j in jobs]
        else:
            ctx = multiprocessing.get_context("fork")
            with ctx.Pool(procs) as pool:
                rs = pool.map(_job, jobs, chunksize=1)
        seen = set()
        for (n, capped), lines in rs:
            self.executed += n
            if capped:
                self.capped.append(capped)
            for line, tag, impl_out, nontriv, verdict in lines:
                key = line.split(" ", 5)
                key = (key[2], key[3], key[5] if len(key) > 5 else "")
                if key in seen:
                    continue
                seen.add(key)
                self._impl[line] = impl_out
                self._nontrivial[line] = nontriv
                self._verdict[line] = verdict
                out.append((line, tag))
        return out

    # -- Prop interface -------------------------------------------------------------------
    def cases(self, rng, tier):
        return self.run_jobs(self.jobs(rng, tier))

    @staticmethod
    def parse(line):
        t = line.split(" ")
        cfg, hist, sch = t[2], t[3], t[4]
        return cfg, hist, sched_parse(sch), t[5:]

    def impl(self, line):
        if line in self._impl:
            return self._impl[line]
        cfg, hist, choices, _ = self.parse(line)
        res, summary = run_case(cfg, hist, S.FixedSchedule(choices))
        return impl_line(cfg, res, summary)

    def nontrivial(self, line, out):
        return self._nontrivial.get(line, True)

    def oracle(self, line, impl_out=None):
        t = line.split(" ")
        if t[1] == "guided":     # `worker guided <cfg> <history> <model path tokens…>`
            cfg, hist, want = t[2], t[3], t[4:]
            res, _ = run_case(cfg, hist, Guided(want))
            v = check_property(cfg, res)
            if v:
                v["schedule"] = sched_str(res.choices)
                v["case"] = make_line(cfg, hist, res)     # replayable by its explicit schedule
                v["model_counterexample"] = " ".join(want)
            return v
        if line in self._verdict:     # this exact schedule was executed on the real code in this run
            v = self._verdict[line]
            return dict(v) if v else None
        cfg, hist, choices, _ = self.parse(line)
        res, _ = run_case(cfg, hist, S.FixedSchedule(choices))
        v = check_property(cfg, res)
        if v:
            v["schedule"] = sched_str(res.choices)
            v["history"] = hist
            v["callbacks"] = cfg
            v["diverged"] = res.diverged
        return v

    def search_cases(self, rng):
        """targeted search: first the model's own counterexample (if the regenerated model has one),
        replayed on the real code by steering the scheduler along it; then all schedules with <= 2
        pre-emptions of the short histories"""
        out = []
        try:
            for cfg in ("11", "00"):
                ans = common.driver_run([f"worker cex {cfg}"])[0].split(" ")
                if ans[0] == "ok" and len(ans) > 2:
                    toks = ans[2:]
                    hist = "".join(c for tid, c in map(tok_tid, toks) if tid == 0 and c in ("S", "P", "A"))
                    for extra in ("", "P", "S", "PS"):
                        out.append((f"worker guided {cfg} {hist + extra} " + " ".join(toks), "model-cex"))
        except Exception:  # noqa: BLE001 — no driver: fall through to the enumeration
            pass
        jobs = [("explore", cfg, h, (2, 2000)) for cfg in ("11", "00") for h in histories("SP", 3)]
        out += self.run_jobs(jobs)
        return out

    def deep_search(self, rng):
        """real threads, real time: a target call that is still running long after the stop request (a legal
        blocking callback). stop() must not return while it runs; afterwards the worker must be dead and a
        restart must not give two concurrent workers."""
        return [v for v in [realtime_blocking_target(4.0)] if v]

    def replay(self, obj):
        if obj.get("key", "").startswith("rt-"):
            return realtime_blocking_target(4.0)
        return self.oracle(obj["case"])

    def extra_checks(self, rng, tier, ev):
        cov = ev["coverage"]
        cov["schedules_executed"] = self.executed
        cov["explore_jobs_capped"] = self.capped
        cov["exhaustive"] = False   # per job: every explore job not listed in explore_jobs_capped enumerated ALL
        #                             schedules within its pre-emption bound; the random walks are samples
        cov["traces_validated_against_impl"] = len(self._impl)
        try:
            stats = common.driver_run([f"worker stats {c}" for c in ("11", "10", "01", "00")])
            cov["model_states_per_config"] = stats
            cov["states"] = sum(int(s.split("states=")[1].split(" ")[0]) for s in stats)
            cov["transitions"] = sum(int(s.split("transitions=")[1].split(" ")[0]) for s in stats)
        except Exception as e:  # noqa: BLE001
            cov["model_states_per_config"] = f"driver unavailable: {e}"
        return []


PROP = C13()
